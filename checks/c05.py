"""C05 -- no request body can crash or wedge the ingest side.

Proved (props/C05.v over model/IngestRobust.v): everything after the third-party wire decoders --
goroutine inventory (regenerated from writer/ on every run), panic-freedom of the doPush goroutine,
loop termination (ns, fastFillArray), ErrorHandler totality, the request pipeline never predicts a
crash or a hang.
Tie: (T) translate/gen_goroutines_writer -> coq/gen/GenGoroutinesWriter.v, obligations by vm_compute;
(C) harness ingestfuzz drives the real writer router over fake back-ends, in a child process:
  * stream "struct": structured requests with field-level malformations; the Coq model must predict the
    observed class {2xx,4xx,5xx,crash,hang} (mismatches) and the property's oracle spec_ok must accept the
    observation (spec_violations);
  * stream "bytes": byte-level mutations under every content type / encoding -- FUZZING, a test: only the
    oracle spec_ok (answered within the deadline, process alive, goroutine census, later requests served,
    bounded allocation) is evaluated.
"""
import hashlib
import json
import os
import re

import vcheck
from vcheck import coq_list, coq_string

HERE = os.path.dirname(os.path.dirname(os.path.abspath(__file__)))
CORPUS = os.path.join(HERE, "corpus", "C05", "witnesses.jsonl")
PHRASES = os.path.join(HERE, "coq", "gen", "GenGoroutinesWriter.json")

OUTCOME = {"2xx": "O2xx", "4xx": "O4xx", "5xx": "O5xx", "crash": "OCrash", "hang": "OHang", "leak": "OLeak", "abort": "OAbort"}


def b(x):
    return "true" if x else "false"


def zfield(f):
    if f is None:
        return "ZAbsent"
    if f.get("notstr"):
        return "ZNotStr"
    return "(ZStr %s)" % coq_string(f.get("s", ""))


ZTIME = {"": "TAbsent", "num": "TNum", "strnum": "TStrNum", "strbad": "TStrBad", "other": "TOther"}


def body_to_coq(d):
    r = d["route"]
    if r == "ingest":
        return "BIngest %s %s %s" % (coq_string(d.get("from", "")), coq_string(d.get("until", "")), coq_string(d.get("name", "")))
    if r == "zipkin":
        spans = ["{| z_tid := %s; z_sid := %s; z_pid := %s; z_ts := %s; z_dur := %s |}" % (
            zfield(s.get("tid")), zfield(s.get("sid")), zfield(s.get("pid")), ZTIME[s.get("ts", "")], ZTIME[s.get("dur", "")])
            for s in (d.get("spans") or [])]
        return "BZipkin %s %s" % (b(d.get("nd")), coq_list(spans))
    if r == "otlp":
        rs = []
        for x in d.get("rs") or []:
            sp = ["{| o_tid := %d%%N; o_sid := %d%%N; o_nilattr := %s |}" % (s["tid"], s["sid"], b(s.get("nilattr")))
                  for s in (x.get("spans") or [])]
            rs.append("{| r_has_resource := %s; r_spans := %s |}" % (b(x.get("res")), coq_list(sp)))
        return "BOtlp %s" % coq_list(rs)
    if r in ("prom", "lokiproto"):
        sn = {"ok": "SnOk", "toolong": "SnTooLong", "corrupt": "SnCorrupt"}[d["snappy"]]
        return "BSnappy %s %s %s" % (sn, b(d.get("fallback_parses")), coq_string(d.get("lbl_tail", "")))
    if r == "influx":
        return "BInflux %s" % coq_string(d.get("precision", ""))
    if r == "lokijson":
        return "BLokiJson %s" % b(d.get("bad_ts"))
    raise ValueError("unknown route " + r)


def obs_to_coq(o):
    canary_ok = o.get("canary", "") in ("", "2xx")
    body = int(o.get("body_len", 0))
    return "{| ob_outcome := %s; ob_canary_ok := %s; ob_alloc_kb := %d; ob_body_kb := %d; ob_decoded_kb := %d; ob_limit_kb := %d |}" % (
        OUTCOME.get(o["outcome"], "OOther"), b(canary_ok), int(o.get("alloc_kb", 0)), body // 1024,
        int(o.get("decoded_len", body)) // 1024, int(o.get("limit", 0)) // 1024)


def limcase_to_coq(c):
    l = c["l"]
    return "{| lm_id := %d; lm_ce := %s; lm_decoded := %d; lm_inner := %d; lm_bomb := %s; lm_limit := %d; lm_obs := %s |}" % (
        c["id"], coq_string(l.get("ce", "")), int(l["decoded"]), int(l.get("inner", 0)), b("/bomb" in c.get("class", "")),
        int(c["obs"].get("limit", 0)), obs_to_coq(c["obs"]))


FRAME_TABLE = {"datadogCFRequestDec": "samples_v3", "elasticBulkDec": "samples_v3", "zipkinNDDecoderV2": "tempo_traces"}


def framecase_to_coq(c):
    f = c.get("f_model") or c["f"]

    def line(l):
        return "{| nl_len := %d; nl_ok := %s; nl_rows := %d |}" % (l["len"], b(l["ok"]), l["rows"])
    body = "{| nb_lines := %s; nb_tail := %s; nb_end := %s |}" % (
        coq_list([line(l) for l in f["lines"]]), ("Some " + line(f["tail"])) if f.get("tail") else "None",
        "EndReadErr" if f.get("read_err") else "EndClean")
    rows = int((c["obs"].get("rows") or {}).get(FRAME_TABLE[f["dec"]], 0))
    return "{| fc_id := %d; fc_dec := %s; fc_body := %s; fc_obs := %s; fc_rows := %d |}" % (
        c["id"], coq_string(f["dec"]), body, obs_to_coq(c["obs"]), rows)


MCONTENT = {"profile": "McProfile", "nested": "McNested", "empty": "McEmpty", "garbage": "McGarbage", "notgzip": "McNotGzip"}


def mfcase_to_coq(c):
    m = c["m"]
    parts = ["{| mp_name := %s; mp_file := %s; mp_content := %s; mp_inflated := %d; mp_inflated2 := %d |}" % (
        coq_string(p["name"]), b(p["file"]), MCONTENT[p["content"]], p.get("inflated", 0), p.get("inflated2", 0)) for p in m.get("parts") or []]
    return "{| mc_id := %d; mc_form := {| mf_boundary_ok := %s; mf_closed := %s; mf_parts := %s |}; mc_limit := %d; mc_obs := %s |}" % (
        c["id"], b(m["boundary_ok"]), b(m["closed"]), coq_list(parts), int(c["obs"].get("limit", 0)), obs_to_coq(c["obs"]))


def case_to_coq(c):
    d = c.get("d")
    o = c["obs"]
    if c["stream"] == "struct" and d:
        req = "{| q_ce := %s; q_gz_ok := %s; q_ct := %s; q_wire_ok := %s; q_body := %s |}" % (
            coq_string(d.get("ce", "")), b(d.get("gz_ok")), coq_string(d.get("ct", "")), b(d.get("wire_ok")), body_to_coq(d))
    else:
        req = '{| q_ce := ""; q_gz_ok := false; q_ct := ""; q_wire_ok := false; q_body := BBytes |}'
    return "{| c_id := %d; c_req := %s; c_obs := %s |}" % (c["id"], req, obs_to_coq(o))


def gcase_to_coq(c):
    d = c["d"]
    o = c["obs"]
    req = "{| g_handler := %s; g_ce := %s; g_gz_ok := %s; g_ct := %s; g_wire_ok := %s |}" % (
        coq_string(d.get("handler", "")), coq_string(d.get("ce", "")), b(d.get("gz_ok")), coq_string(d.get("ct", "")), b(d.get("wire_ok")))
    return "{| gc_id := %d; gc_req := %s; gc_obs := %s |}" % (c["id"], req, obs_to_coq(o))


def accepted_encodings():
    """the case list of the Content-Encoding switch, as the translator read it from the source on this run"""
    try:
        return json.load(open(PHRASES))["content_encodings"]
    except Exception:
        return ["", "gzip", "snappy"]


def handcase_to_coq(c):
    o = c["obs"]
    return "{| hc_id := %d; hc_ce := %s; hc_accepted := %s; hc_limit := %d; hc_decoded := %d; hc_handed := %d |}" % (
        c["id"], coq_string(c["l"].get("ce", "")), b(c["l"].get("ce", "") in accepted_encodings()), int(o.get("limit", 0)), int(o.get("decoded_len", 0)), int(o["handed"]))


def eval_cases(ck, name, cases):
    gen = [c for c in cases if c["stream"] == "generic"]
    lim = [c for c in cases if c["stream"] == "limit"]
    frm = [c for c in cases if c["stream"] == "frame"]
    mfm = [c for c in cases if c["stream"] == "mform"]
    rest = [c for c in cases if c["stream"] not in ("generic", "limit", "frame", "mform")]
    # round 7: what the route is handed behind the real WithOverallContextMiddleware (model/IngestHanded.v)
    hnd = [c for c in lim if c.get("l") and c["obs"]["outcome"] in ("2xx", "4xx", "5xx") and int(c["obs"].get("handed", -1)) >= 0]
    # the route table is the one regenerated from controller/*.go on this run (gen_routes)
    txt = ("From Coq Require Import List String Ascii ZArith NArith Bool.\n"
           "From Qryn Require Import model.IngestRobust model.IngestPipe model.IngestFraming model.IngestShared model.IngestHanded gen.GenGoroutinesWriter.\n"
           "Import ListNotations.\nOpen Scope string_scope.\nOpen Scope Z_scope.\n"
           "Definition hcases : list handcase := [\n  " + ";\n  ".join(handcase_to_coq(c) for c in hnd) + "].\n"
           "Definition HM := Eval vm_compute in hand_mismatches hcases.\nPrint HM.\n"
           "Definition HV := Eval vm_compute in hand_spec_violations hcases.\nPrint HV.\n"
           "Definition cases : list case := [\n  " + ";\n  ".join(case_to_coq(c) for c in rest) + "].\n"
           "Definition mfcases : list mfcase := [\n  " + ";\n  ".join(mfcase_to_coq(c) for c in mfm) + "].\n"
           "Definition gcases : list gcase := [\n  " + ";\n  ".join(gcase_to_coq(c) for c in gen) + "].\n"
           "Definition lcases : list limcase := [\n  " + ";\n  ".join(limcase_to_coq(c) for c in lim) + "].\n"
           "Definition fcases : list framecase := [\n  " + ";\n  ".join(framecase_to_coq(c) for c in frm) + "].\n"
           "Definition M := Eval vm_compute in (mismatches cases ++ g_mismatches gen_routes gcases ++ lim_mismatches lcases ++ frame_mismatches gen_frame_progs fcases ++ mf_mismatches mfcases)%list.\nPrint M.\n"
           "Definition V := Eval vm_compute in (spec_violations cases ++ g_spec_violations gen_routes gcases ++ lim_spec_violations lcases "
           "++ frame_spec_violations 16777216 fcases ++ mf_spec_violations mfcases)%list.\nPrint V.\n")
    rc, out = ck.coq_eval(name, txt)
    if rc != 0:
        return None, None, out
    flat = " ".join(out.split())
    m = re.search(r"\bM = \[(.*?)\]\s*: list Z", flat)
    v = re.search(r"\bV = \[(.*?)\]\s*: list Z", flat)
    if not m or not v:
        return None, None, out

    def ids(s):
        return [int(x) for x in re.findall(r"-?\d+", s)]
    hm = re.search(r"\bHM = \[(.*?)\]\s*: list Z", flat)
    hv = re.search(r"\bHV = \[(.*?)\]\s*: list Z", flat)
    if not hm or not hv:
        return None, None, out
    ck.hand_n = getattr(ck, "hand_n", 0) + len(hnd)
    ck.hand_m = getattr(ck, "hand_m", []) + ids(hm.group(1))
    ck.hand_v = getattr(ck, "hand_v", []) + ids(hv.group(1))
    return ids(m.group(1)), ids(v.group(1)), out


def run_translator(ck):
    env = dict(os.environ, VERIF_REPO=vcheck.REPO)
    env.update({k: v for k, v in vcheck.go_env().items() if k in ("GOCACHE",)})
    with vcheck.Lock("c05gen"):
        rc, out = vcheck.sh([os.path.join(HERE, "translate", "gen_goroutines_writer")], env=env, timeout=300)
    ck.checker_cmds.append("translate/gen_goroutines_writer")
    ck.obligation("translator gen_goroutines_writer ran on %s/writer" % vcheck.REPO, rc == 0, out[-1500:])
    if rc != 0:
        return False
    # diagnostics for the generated obligations (the theorems of props/C05.v restate them)
    txt = ("From Coq Require Import List String ZArith Bool.\nFrom Qryn Require Import model.IngestRobust model.IngestPipe gen.GenGoroutinesWriter.\n"
           "Import ListNotations.\n"
           "Definition U := Eval vm_compute in map (fun g => (g_file g, g_func g, g_ord g, g_target g)) (unaccounted gen_goroutines).\nPrint U.\n"
           "Definition R := Eval vm_compute in forallb (recovering_present gen_goroutines) must_recover.\nPrint R.\n"
           "Definition H := Eval vm_compute in eh_eqb gen_error_handler error_handler_model.\nPrint H.\n"
           "Definition C := Eval vm_compute in filter (fun c => negb (code_is_error_status c)) gen_error_codes.\nPrint C.\n"
           "Definition L := Eval vm_compute in gen_snappy_limit.\nPrint L.\n"
           "Definition F := Eval vm_compute in gen_fastfill_callers.\nPrint F.\n"
           "Definition G := Eval vm_compute in gen_ns_guard.\nPrint G.\n"
           "Definition S := Eval vm_compute in sites_safe gen_error_handler gen_untyped_error_sites.\nPrint S.\n"
           "Definition NS := Eval vm_compute in Z.of_nat (List.length gen_untyped_error_sites).\nPrint NS.\n"
           "Definition NG := Eval vm_compute in Z.of_nat (List.length gen_goroutines).\nPrint NG.\n"
           "Definition PP := Eval vm_compute in programs_eqb gen_parser_programs parser_programs_model.\nPrint PP.\n"
           "Definition PV := Eval vm_compute in filter (fun v => negb (let '(_, a, b, c) := v in a && b && c)) (prog_verdicts gen_tame_panic gen_parser_programs).\nPrint PV.\n"
           "Definition PT := Eval vm_compute in gsimples_eqb gen_tame_panic tame_model && gen_tame_guarded.\nPrint PT.\n"
           "Definition PC := Eval vm_compute in consumer_eqb gen_consumer consumer_model.\nPrint PC.\n"
           "Definition HO := Eval vm_compute in handler_ok gen_on_span_cols gen_spans_fields gen_attrs_fields gen_spans_consumed gen_attrs_consumed "
           "&& Z.eqb gen_on_span_unknown 0 && hp_width_check gen_on_span_cols.\nPrint HO.\n"
           "Definition FG := Eval vm_compute in gen_ffa_guard.\nPrint FG.\n"
           "Definition RM := Eval vm_compute in routes_eqb gen_routes routes_model.\nPrint RM.\n"
           "Definition RU := Eval vm_compute in map rt_handler (filter (fun r => negb (table_unambiguous (rt_parsers r))) gen_routes).\nPrint RU.\n"
           "Definition RP := Eval vm_compute in map snd (filter (fun p => negb (is_some (find_route gen_routes (snd p)))) gen_paths).\nPrint RP.\n"
           "Definition NP := Eval vm_compute in Z.of_nat (List.length gen_paths).\nPrint NP.\n"
           "Definition EO := Eval vm_compute in entries_ok gen_on_entries_cols gen_spl_fields gen_tsd_fields gen_spl_consumed gen_tsd_consumed.\nPrint EO.\n"
           "Definition EC := Eval vm_compute in map (fun c => let '(f, fn, _, a) := c in (f, fn, a)) (filter (fun c => negb (entries_call_ok c)) gen_on_entries_calls).\nPrint EC.\n"
           "Definition RS := Eval vm_compute in scopes_eqb gen_recover_scopes recover_scopes_model.\nPrint RS.\n"
           "Definition US := Eval vm_compute in unaccounted_sites gen_handler_side_sites.\nPrint US.\n"
           "Definition UF := Eval vm_compute in filter (fun x => negb (existsb (String.eqb x) handler_side_functions_model)) gen_handler_side_functions.\nPrint UF.\n"
           "Definition FS := Eval vm_compute in map rt_handler (filter (fun r => negb (first_pre_is_service r)) gen_routes).\nPrint FS.\n"
           "Definition NSI := Eval vm_compute in Z.of_nat (List.length gen_handler_side_sites).\nPrint NSI.\n"
           "Definition CXO := Eval vm_compute in ctx_contract_ok gen_ctx_writes gen_ctx_asserted_reads.\nPrint CXO.\n"
           "Definition CEL := Eval vm_compute in (gen_content_encodings, gen_content_encoding_default_400).\nPrint CEL.\n"
           "Definition PPA := Eval vm_compute in (gen_pprof_parse_appends, gen_pprof_parse_append_in_loop).\nPrint PPA.\n"
           "Definition IM := Eval vm_compute in filter (fun f => negb (prefix \"controller/\" f)) gen_unmarshal_importers.\nPrint IM.\n"
           "Definition NST := Eval vm_compute in gen_unmarshal_sites_total.\nPrint NST.\n"
           "Definition LSO := Eval vm_compute in limiter_source_ok gen_content_encodings gen_ce_body_wraps gen_lim_new gen_lim_read gen_err_decoded_too_long "
           "gen_pb_pool_limit gen_set_global_limit_pb.\nPrint LSO.\n"
           "Definition SVO := Eval vm_compute in (server_source_ok gen_server_serve gen_server_read_timeout_ms gen_server_read_header_timeout_ms, gen_server_serve, "
           "gen_server_read_timeout_ms, gen_server_read_header_timeout_ms).\nPrint SVO.\n"
           "Definition LKS := Eval vm_compute in (lockstep_ok gen_on_entries_calls gen_on_entries_lockstep, "
           "map (fun l => let '(f, fn, v, _) := l in (fn, v)) (filter (fun l => let '(_, _, v, _) := l in negb (String.eqb v \"lockstep\")) gen_on_entries_lockstep)).\nPrint LKS.\n"
           "Definition FPM := Eval vm_compute in (frame_progs_eqb gen_frame_progs frame_progs_model && forallb frame_ok gen_frame_progs, "
           "map fp_name (filter (fun p => negb (frame_ok p)) gen_frame_progs)).\nPrint FPM.\n"
           "Definition LSW := Eval vm_compute in (ce_all_limited gen_content_encodings gen_ce_body_wraps, gen_ce_body_wraps).\nPrint LSW.\n"
           "Definition DPM := Eval vm_compute in (dprog_eqb gen_prom_decode_prog prom_prog, dprog_eqb gen_lokiproto_decode_prog lokiproto_prog).\nPrint DPM.\n"
           "Definition DFP := Eval vm_compute in (failing_probes gen_prom_decode_prog, failing_probes gen_lokiproto_decode_prog).\nPrint DFP.\n"
           "Definition LSB := Eval vm_compute in (forallb site_uniform gen_lockstep_blocks, Z.of_nat (List.length gen_lockstep_blocks), "
           "map (fun s => let '(f, fn, _, _, _) := s in fn) (filter (fun s => negb (site_uniform s)) gen_lockstep_blocks)).\nPrint LSB.\n"
           "Definition MFS := Eval vm_compute in strs_eqb' gen_mform_source mform_source_model.\nPrint MFS.\n"
           "Definition PPG := Eval vm_compute in strs_eqb' gen_pprof_parse_guard pprof_parse_guard_model.\nPrint PPG.\n"
           "Definition PRF := Eval vm_compute in (profile_ok gen_on_profile_prog gen_profile_fields gen_profile_cols gen_profile_cols_unknown, "
           "profile_request_cols gen_on_profile_prog gen_profile_cols 1).\nPrint PRF.\n"
           "Definition CFL := Eval vm_compute in (fetch_loop_ok gen_fetch_loop, strip_plain gen_fetch_loop).\nPrint CFL.\n"
           "Definition CPG := Eval vm_compute in (ping_ok gen_ping_prog, strip_pplain gen_ping_prog).\nPrint CPG.\n"
           "Definition CRL := Eval vm_compute in (gen_run_cases, gen_insert_ctx_writers).\nPrint CRL.\n"
           "Definition CRLM := Eval vm_compute in (run_cases_model, insert_ctx_writers_model).\nPrint CRLM.\n"
           "Definition MLO := Eval vm_compute in (lock_order_ok gen_mtx_methods && lockers_present gen_mtx_methods, lock_order_offenders gen_mtx_methods, "
           "Z.of_nat (List.length gen_mtx_methods), Z.of_nat (List.length (filter mm_locks gen_mtx_methods))).\nPrint MLO.\n"
           "Definition MHK := Eval vm_compute in (held_calls_known gen_mtx_methods, held_calls_unknown gen_mtx_methods, gen_mtx_odd_uses).\nPrint MHK.\n"
           "Definition MBS := Eval vm_compute in gen_bulk_size_sources.\nPrint MBS.\n")
    txt = txt.replace("model.IngestPipe gen.GenGoroutinesWriter", "model.IngestPipe model.IngestFraming model.IngestShared model.IngestConn gen.GenGoroutinesWriter")
    ok, out = ck.coq_make(["model/IngestRobust.vo", "model/IngestPipe.vo", "model/IngestFraming.vo", "model/IngestShared.vo", "model/IngestConn.vo", "model/IngestHanded.vo", "gen/GenGoroutinesWriter.vo"])
    if not ok:
        ck.obligation("generated file compiles", False, out[-1500:])
        return False
    rc, out = ck.coq_eval("C05_gen_diag", txt)
    flat = " ".join(out.split())
    if rc != 0:
        ck.obligation("generated obligations evaluated", False, out[-1500:])
        return False

    def val(name):
        m = re.search(r"\b%s = (.*?) : " % name, flat)
        return m.group(1).strip() if m else "?"
    u = val("U")
    ck.obligation("goroutine inventory: every `go` statement under writer/ recovers or is allow-listed with its panic-freedom argument",
                  u == "[]", "unaccounted goroutines (file, function, ordinal, target): " + u)
    ck.obligation("goroutine inventory: the three decoder goroutines of unmarshal/builder.go begin with defer tamePanic",
                  val("R") == "true", "a parser goroutine of writer/utils/unmarshal/builder.go no longer starts with a deferred recover")
    ck.obligation("ErrorHandler in controller/builder.go is the modelled branch list", val("H") == "true",
                  "gen_error_handler differs from error_handler_model (see coq/gen/GenGoroutinesWriter.v)")
    ck.obligation("every QrynError/UnMarshalError literal under writer/ carries a 4xx/5xx constant", val("C") == "[]",
                  "codes out of range: " + val("C"))
    ck.obligation("withUnsnappyRequest enforces the 10 MiB decoded-length limit", val("L") == "Some 10485760", "gen_snappy_limit = " + val("L"))
    ck.obligation("impl.fastFill (non-terminating) has no call site", val("F") == "0", "call sites: " + val("F"))
    ck.obligation("unmarshal.ns guards its loop against 0", val("G") == "true", "gen_ns_guard = " + val("G"))
    ck.obligation("no untyped error built under controller/ or utils/unmarshal/ can start with a text ErrorHandler prefix-matches, "
                  "and ErrorHandler has no substring test on error texts (client text inside an error cannot silence it)",
                  val("S") == "true", "sites_safe gen_error_handler gen_untyped_error_sites = " + val("S"))
    ck.obligation("parser goroutines of unmarshal/builder.go (Do, doParseProfile, doParseLogs, doParseSpans) are the modelled programs: "
                  "defer tamePanic; Decode; on error send+close+return; last batch; exactly one close",
                  val("PP") == "true", "gen_parser_programs differs from parser_programs_model (see coq/gen/GenGoroutinesWriter.v): a changed send/close/defer "
                  "in a parser goroutine")
    ck.obligation("every regenerated parser goroutine, run by the model's interpreter with the regenerated tamePanic, survives and ends with exactly one "
                  "close when the decoder returns nil, returns an error, or panics", val("PV") == "[]",
                  "programs that break the channel protocol (function, ok on nil, ok on error, ok on panic): " + val("PV"))
    ck.obligation("tamePanic is `if err := recover(); err != nil { send the panic error; close }`", val("PT") == "true",
                  "gen_tame_panic / gen_tame_guarded differ from tame_model")
    ck.obligation("controller doParse ranges over the channel and every early return starts the drain goroutine", val("PC") == "true",
                  "gen_consumer differs from consumer_model")
    ck.obligation("onSpan appends every slice field of TempoSamples once per span and of TempoTag once per key, checks the id widths first, "
                  "resets on flush; the span insert services read only those fields (batches_are_rectangular)", val("HO") == "true",
                  "handler_ok over the generated onSpan = " + val("HO"))
    ck.obligation("fastFillArray returns the empty slice for length 0 before res[0]", val("FG") == "true", "gen_ffa_guard = " + val("FG"))
    ck.obligation("controller route tables (middleware, Content-Type keys, parsers, success status) are the modelled ones", val("RM") == "true",
                  "gen_routes differs from routes_model")
    ck.obligation("Content-Type dispatch over the parser map cannot depend on map iteration order (no key is a prefix of another)",
                  val("RU") == "[]", "ambiguous tables: " + val("RU"))
    ck.obligation("every path registered in router/*.go with a request pipeline has a modelled route", val("RP") == "[]", "paths without route: " + val("RP"))
    ck.obligation("onEntries appends every slice field of TimeSamplesData / TimeSeriesData exactly once, resets on flush; the sample and "
                  "time-series insert services read only those fields (log_batches_are_rectangular)", val("EO") == "true",
                  "entries_ok over the generated onEntries = " + val("EO"))
    ck.obligation("every call of onEntries passes one-element literals or comes from a decoder whose four slices are built together (allow-list)",
                  val("EC") == "[]", "call sites not accounted for: " + val("EC"))
    ck.obligation("recover() is called in the two tamePanic functions only and exactly three defer statements name one", val("RS") == "true",
                  "gen_recover_scopes differs from recover_scopes_model (see coq/gen/GenGoroutinesWriter.v)")
    ck.obligation("every index / slice / type assertion that runs on the handler goroutine (outside tamePanic) is allow-listed with its reason",
                  val("US") == "[]", "unaccounted sites (file, function, kind, expression): " + val("US"))
    ck.obligation("only setters, resets and constructors of package unmarshal run on the handler goroutine", val("UF") == "[]",
                  "functions newly reachable outside the parser goroutine: " + val("UF"))
    ck.obligation("every route looks up its insert services before anything else", val("FS") == "[]", "routes: " + val("FS"))
    ck.obligation("request-context values asserted without comma-ok (DSN, META, TTL_DAYS, node, precision) and every context.WithValue that stores them are the ones read",
                  val("CXO") == "true", "gen_ctx_asserted_reads / gen_ctx_writes differ from ctx_reads_model / ctx_writers_model (see coq/gen/GenGoroutinesWriter.v)")
    ck.obligation("WithOverallContextMiddleware accepts the Content-Encoding values \"\", gzip, snappy and answers 400 to any other",
                  val("CEL").replace(" ", "") == '([\"\";\"gzip\";\"snappy\"],true)', "switch cases, default is a 400 error: " + val("CEL"))
    ck.obligation("golangPprof.go Parse yields exactly one profile per body (the profile insert service is rectangular for one-row requests only)",
                  val("PPA").replace(" ", "") == "(1,false)", "appends to the result of Parse, inside a loop: " + val("PPA"))
    ck.obligation("package unmarshal is imported by controller/ only (its code runs on the handler goroutine up to parserDoer.Do, else below Decode() in a goroutine with tamePanic)",
                  val("IM") == "[]", "other importers: " + val("IM"))
    ck.obligation("every Content-Encoding WithOverallContextMiddleware accepts puts helpers.LimitDecoded around the decompressor; LimitDecoded, its Read, "
                  "the 400 error, pbPool.limit and SetGlobalLimit are the modelled source (limiter_in_source)", val("LSO") == "true",
                  "limiter_source_ok = %s; every encoding limited, (case, r.Body expression): %s (see coq/gen/GenGoroutinesWriter.v, section framing)" % (val("LSO"), val("LSW")))
    ck.obligation("main.go httpStart serves the router with an http.Server that has ReadTimeout 2 min and ReadHeaderTimeout 30 s (server_config_in_source)",
                  val("SVO").startswith("(true"), "(ok, Serve call, ReadTimeout ms, ReadHeaderTimeout ms) = " + val("SVO"))
    ck.obligation("the slices handed to onEntries at the non-literal call sites change length only in lockstep (append / [:0] / make applied to every one of them "
                  "in the same statement list; derived arguments are make / fastFillArray of their length)", val("LKS").startswith("(true"),
                  "(ok, sites that are not lockstep with the reason) = " + val("LKS"))
    ck.obligation("the bufio.Scanner loops of the Cloudflare, Elasticsearch-bulk and Zipkin-NDJSON decoders split at lines, allow 16 MiB tokens, return on every line-handler "
                  "error, look at scanner.Err() and wrap it in NewUnmarshalError (framing_loops_match_source)", val("FPM").startswith("(true"),
                  "(ok, loops that can drop lines silently) = " + val("FPM"))
    ck.obligation("the loops of promMetricsProtoDec.Decode and logsProtoDec.Decode, regenerated as programs over slice lengths, are the modelled programs "
                  "(decoder_loops_match_source; remote_write_decoder_keeps_the_contract is about them)", val("DPM").replace(" ", "") == "(true,true)",
                  "(remote write, Loki protobuf) = %s (see coq/gen/GenGoroutinesWriter.v, gen_prom_decode_prog / gen_lokiproto_decode_prog)" % val("DPM"))
    ck.obligation("onProfile fills every slice field of ProfileData by exactly one statement (eight per row, five per request), sends and resets under the size test; "
                  "every column of the profile insert service reads one field the way it is filled (on_profile_fills_every_column_once)", val("PRF").startswith("(true"),
                  "(profile_ok, what a one-row request appends to the 13 columns) = " + val("PRF"))
    ck.obligation("the multipart route of /ingest reads form.File[\"profile\"], bounds the file's gzip layer with NewDecompressor(100000) and finds the boundary with the "
                  "modelled pattern (multipart_form_in_source)", val("MFS") == "true", "gen_mform_source differs from mform_source_model (see coq/gen/GenGoroutinesWriter.v)")
    ck.obligation("golangPprof.go Parse inflates a gzip-compressed profile itself through helpers.LimitDecoded + io.ReadAll and refuses a second gzip layer before "
                  "the profile parser sees it (profile_gzip_layer_in_source)", val("PPG") == "true", "gen_pprof_parse_guard differs from pprof_parse_guard_model (see coq/gen/GenGoroutinesWriter.v)")
    ck.obligation("every statement list that changes the length of a slice handed to onEntries at the five non-literal call sites is uniform (no control flow inside, every "
                  "member undergoes the same sequence of changes), derived arguments are len(member) or the members' make expression -- computed inside Coq from the extracted lists "
                  "(non_literal_sites_are_uniform; uniform_sites_hand_over_slices_of_one_length says what it means)", val("LSB").replace(" ", "").startswith("(true,5,"),
                  "(all uniform, sites, functions with a non-uniform list) = " + val("LSB"))
    ck.obligation("InsertServiceV2.fetchLoopIteration, regenerated statement by statement, is the modelled program: connect step (error path: return) BEFORE swapBuffers, "
                  "copy of the portion's promises, releaseWaiting closure, client.Do, releaseWaiting(err), close on error; every other statement neither returns nor touches "
                  "the client / the buffers / the promises (fetch_loop_matches_source; no_promise_is_ever_dropped is about it)", val("CFL").startswith("(true"),
                  "(ok, regenerated steps without the plain ones) = %s; modelled: [CConnect; CSwap; CCapture; CDefRelease; CDo; CRelease; CCloseOnErr]" % val("CFL"))
    ck.obligation("InsertServiceV2.ping is the modelled program: return without a client, return after a recent request, Ping, on error close + forget the client "
                  "(watchdog_ping_matches_source)", val("CPG").startswith("(true"), "(ok, regenerated steps) = " + val("CPG"))
    ck.obligation("InsertServiceV2.Run selects watchdog -> ping, ctx -> return, insertCtx -> fetchLoopIteration, and only Init / swapBuffers renew insertCtx "
                  "(run_loop_in_source: after a refused dial the context stays done and the iteration is called again)", val("CRL") == val("CRLM") and val("CRL") != "?",
                  "(select cases, functions assigning svc.insertCtx) = %s; modelled: %s" % (val("CRL"), val("CRLM")))
    ck.obligation("no method of InsertServiceV2 / InsertServiceV2RoundRobin / InsertServiceV2Multimodal calls, while it holds its mutex, a method of the same object that "
                  "locks that mutex (directly or through further calls on the receiver), nor locks it a second time; Request, swapBuffers, PlanFlush and Init lock it "
                  "(service_lock_order_in_source; sync.Mutex is not re-entrant: the call would block for ever holding the mutex, whatever the configuration)",
                  val("MLO").startswith("(true"), "(ok, offenders (type, method, re-lock written inside the region, methods called under the mutex that lock it), methods, "
                  "methods that lock) = %s (see coq/gen/GenGoroutinesWriter.v, gen_mtx_methods)" % val("MLO"))
    ck.obligation("every other callee met while a service mutex is held is on the allow-lists of model/IngestConn.v (function fields processRequest / insertCancel / "
                  "acquireColumns; append, len, p.Done, context.*, time.*, ...) and the mutex is used through Lock() / Unlock() statements and deferred Unlock() only",
                  val("MHK").replace(" ", "").startswith("(true,[],[])"), "(ok, (type, method, callees not on the lists), mutex uses of another shape) = " + val("MHK"))
    ck.obligation("every InsertServiceOpts literal under writer/ takes MaxQueueSize from SYSTEM_SETTINGS.DBBulk (BULK_MAX_SIZE_BYTES; the bulk size harness conndown hands to its nodes' services)",
                  val("MBS").replace(" ", "") == '["int64(config.SYSTEM_SETTINGS.DBBulk)"]', "gen_bulk_size_sources = " + val("MBS"))
    ck.extra["methods_of_the_insert_service_types_walked_for_the_lock_order_(all,_locking)"] = val("MLO").rsplit(",", 2)[-2:] if val("MLO").count(",") >= 2 else val("MLO")
    dfp = val("DFP").replace("%N", "")
    probes = parse_probes(dfp)
    if dfp.replace(" ", "") != "([],[])" and probes in (None, ([], [])):
        probes = None    # not parsed: the obligation fails, nothing is replayed
    ck.obligation("the regenerated decoder loops, run by the model's interpreter on probe bodies around the 1000-point hand-over, never panic, hand over four slices of "
                  "one length at every onEntries call and every sample exactly once", probes == ([], []),
                  "bodies (k series x n samples) on which the regenerated loop breaks the contract, (remote write, Loki protobuf): " + dfp)
    ck.failing_probe_shapes = probes
    ck.extra["handler_side_panic_sites"] = val("NSI")
    ck.extra["index_slice_assert_sites_in_package_unmarshal_(all;_those_not_handler-side_run_below_Decode_under_tamePanic)"] = val("NST")
    ck.extra["goroutines_in_writer"] = val("NG")
    ck.extra["ingest_paths_in_router"] = val("NP")
    ck.extra["untyped_error_sites"] = val("NS")
    try:
        ck.extra["error_text_phrases_from_source"] = json.load(open(PHRASES))["phrases"]
    except (OSError, ValueError, KeyError):
        ck.obligation("phrase list written by the translator", False, PHRASES)
    return True


def parse_probes(txt):
    """(failing_probes prom, failing_probes lokiproto) as printed by Coq -> two lists of shapes [[k, n], ..]"""
    def shapes(t):
        out = []
        for sh in re.findall(r"\[((?:\s*\(\s*\d+\s*,\s*\d+\s*\)\s*;?)+)\]", t):
            out.append([[int(a), int(b)] for a, b in re.findall(r"\(\s*(\d+)\s*,\s*(\d+)\s*\)", sh)])
        return out
    t = txt.strip()
    if not (t.startswith("(") and t.endswith(")")):
        return None
    # split at the comma between the two top-level lists
    depth, cut = 0, -1
    for i, ch in enumerate(t[1:-1]):
        if ch == "[":
            depth += 1
        elif ch == "]":
            depth -= 1
        elif ch == "," and depth == 0:
            cut = i + 1
            break
    if cut < 0:
        return None
    return shapes(t[1:cut]), shapes(t[cut + 1:-1])


def nontrivial(c):
    if c["stream"] in ("limit", "frame", "mform"):
        return True
    if c["stream"] in ("struct", "generic"):
        return "/wellformed" not in c["class"] or "+ce" in c["class"]
    return "unchanged" not in c["class"] or "+" in c["class"]


def req_hash(c):
    r = c["req"]
    return hashlib.sha1(json.dumps([r.get("path"), r.get("query"), r.get("headers"), r.get("body_hex"), r.get("body_gen")],
                                   sort_keys=True).encode()).hexdigest()


def load(p):
    return [json.loads(l) for l in open(p) if l.strip()]


def strip_case(c):
    """the replayable part of a case (what `ingestfuzz --cases` needs)"""
    return {k: c[k] for k in ("id", "stream", "class", "req", "d", "l", "f", "f_model", "m") if k in c}   # req carries fill / limit


def write_cases(path, cases):
    with open(path, "w") as f:
        for c in cases:
            f.write(json.dumps(strip_case(c)) + "\n")


def is_suspect(c):
    return c["obs"]["outcome"] not in ("2xx", "4xx", "5xx") or c["obs"].get("canary", "") not in ("", "2xx")


def confirm(ck, cases, suspects):
    """re-run suspicious observations (crash/hang/leak/abort) alone, with a long deadline: load on the
    machine must not turn into an alarm"""
    if not suspects:
        return
    all_suspects = list(suspects)
    p = os.path.join(ck.work, "confirm.jsonl")
    o = os.path.join(ck.work, "confirm_out.jsonl")
    suspects = sorted(suspects, key=lambda c: len(c["req"].get("body_hex", "")))[:8]
    write_cases(p, suspects)
    rc, out = ck.go_run("ingestfuzz", ["--cases", p, "--out", o, "--deadline-ms", 10000], timeout=1500)
    if rc != 0:
        return
    again = {c["id"]: c for c in load(o)}
    for c in cases:
        if c["id"] in again:
            c["first_obs"] = c["obs"]
            c["obs"] = again[c["id"]]["obs"]
    # if every re-run suspect turned out clean, the suspects that were not re-run are load artefacts too
    still_bad = [c for c in cases if c["id"] in again and is_suspect(c)]
    if not still_bad:
        rest = [c for c in all_suspects if c["id"] not in again]
        if rest:
            ck.extra["unconfirmed_suspects_dropped"] = len(rest)
            for c in rest:
                cases.remove(c)


KNOWN_ENCODERS = ("", "identity", "gzip", "x-gzip", "deflate", "zlib", "snappy", "x-snappy-framed")     # harness/cmd/ingestfuzz encodeStream


def ce_name(ce):
    return ce or "plain"


def check_handed(ck, cases, byid):
    """round 7 (seeded C05-g): every Content-Encoding the switch of WithOverallContextMiddleware accepts - the list is read from
    the source on this run - is SENT, with a payload decoding to just over the payload limit and with a bomb, and the bytes the
    route can read from r.Body behind the real middleware are counted: handed <= limit (oracle), handed = handed_model (tie)"""
    lim = [c for c in cases if c["stream"] == "limit" and c.get("l")]
    if not lim:
        return
    try:
        encs = json.load(open(PHRASES))["content_encodings"]
    except Exception:
        encs = None
    if not ck.replay:
        ck.obligation("the translator lists the cases of the Content-Encoding switch of WithOverallContextMiddleware for the harness", bool(encs), PHRASES)
        encs = encs or []
        noenc = [e for e in encs if e not in KNOWN_ENCODERS]
        ck.obligation("harness ingestfuzz has an encoder for every Content-Encoding the switch accepts (%s)" % ", ".join(repr(e) for e in encs), not noenc,
                      "no encoder for: %s - add one to encodeStream / decodedLen (harness/cmd/ingestfuzz/main.go) and to KNOWN_ENCODERS" % noenc)
        classes = [c["class"] for c in lim]
        unsent = [(e, k) for e in encs for k in ("/over/just-over", "/over/ce-bomb") if not any(("/%s%s" % (ce_name(e), k)) in x for x in classes)]
        ck.obligation("stream limit: every accepted Content-Encoding is sent with a payload decoding to just over the payload limit and with a "
                      "bomb (1 GiB decoded, served with the worker's address space capped)", not unsent, "not sent: %s" % unsent)
        ck.extra["limit_stream_by_content_encoding"] = {ce_name(e): sum(1 for c in lim if c["l"].get("ce", "") == e) for e in encs}
    unmeasured = [c["id"] for c in lim if c["obs"]["outcome"] in ("2xx", "4xx", "5xx") and int(c["obs"].get("handed", -1)) < 0]
    ck.obligation("stream limit: the bytes handed to the route (read from r.Body behind the real WithOverallContextMiddleware) were counted for every answered case",
                  not unmeasured, "cases: %s; %s" % (unmeasured[:10], [byid[i]["obs"].get("handed_detail") for i in unmeasured[:3]]))
    hm, hv = getattr(ck, "hand_m", []), getattr(ck, "hand_v", [])
    ck.obligation("handed correspondence: on %d requests of stream limit the real middleware hands the route exactly the bytes handed_model "
                  "(model/IngestHanded.v: io.Copy over the limiter) computes" % getattr(ck, "hand_n", 0), not hm, "mismatching case ids: %s" % hm[:10])
    ck.obligation("handed oracle: under every accepted Content-Encoding the decoded bytes handed to the route are <= the configured payload limit",
                  not hv, "violating case ids: %s" % hv[:10])
    bad = hv or hm
    if bad:
        w = min((byid[i] for i in bad), key=lambda c: (int(c["l"].get("decoded", 0)), c["id"]))
        o = w["obs"]
        ck.violation({"property": "C05", "kind": "Content-Encoding %r: the route is handed %s decoded bytes, the payload limit is %s (answered %s)" % (
            w["l"].get("ce", ""), o.get("handed"), o.get("limit"), o.get("status")) if hv else
            "handed bytes: model and implementation disagree (handed %s, limit %s, decoded %s)" % (o.get("handed"), o.get("limit"), o.get("decoded_len")),
            "case": strip_case(w), "observed": o,
            "explanation": "hand_spec_ok / hand_mismatch (model/IngestHanded.v): the real WithOverallContextMiddleware ran on this request, then r.Body was read "
                           "with io.Copy and counted; theorem the_route_is_handed_at_most_the_payload_limit bounds it by min(decoded, limit)",
            "others": [i for i in bad if i != w["id"]][:20],
            "replay": "bin/check C05 --replay <this file>   (or: ingestfuzz --cases <file with the case line>)"}, no_input=not hv)


def run_harness(ck):
    if not ck.go_build("ingestfuzz"):
        ck.obligation("harness ingestfuzz builds against the repository", False, ck.build_out[-1500:])
        return
    cases = []
    if ck.replay:
        obj = json.load(open(ck.replay))
        cs = [obj["case"]] if "case" in obj else obj.get("cases", [])
        p = os.path.join(ck.work, "replay_cases.jsonl")
        write_cases(p, cs)
        outp = os.path.join(ck.work, "replay_out.jsonl")
        rc, out = ck.go_run("ingestfuzz", ["--cases", p, "--out", outp], timeout=600)
        if rc != 0:
            ck.obligation("harness ingestfuzz ran the replay", False, out[-1500:])
            return
        cases = load(outp)
    else:
        if os.path.exists(CORPUS):
            outp = os.path.join(ck.work, "corpus_out.jsonl")
            rc, out = ck.go_run("ingestfuzz", ["--cases", CORPUS, "--out", outp], timeout=600)
            if rc != 0:
                ck.obligation("harness ingestfuzz ran the corpus", False, out[-1500:])
                return
            cases += load(outp)
        n = ck.n(600, 15000)
        nb = ck.n(2000, 50000)
        ng = ck.n(400, 10000)
        nl = ck.n(60, 1500)
        nf = ck.n(150, 4000)
        nm = ck.n(120, 3000)
        outp = os.path.join(ck.work, "gen_out.jsonl")
        rc, out = ck.go_run("ingestfuzz", ["--seed", ck.seed, "--n", n, "--nbytes", nb, "--ngeneric", ng, "--nlimit", nl, "--nframe", nf, "--nmform", nm, "--max-bad", 12, "--phrases-file", PHRASES, "--out", outp], timeout=6000)
        if rc != 0:
            ck.obligation("harness ingestfuzz ran", False, out[-1500:])
            return
        cases += load(outp)
    skipped = [c for c in cases if c.get("obs") and c["obs"]["outcome"] == "skipped"]
    if skipped:
        ck.extra["cases_not_run_after_12_crash_hang_observations"] = len(skipped)
        cases = [c for c in cases if c not in skipped]
    missing = [c for c in cases if not c.get("obs")]
    ck.obligation("every generated case was observed", not missing, "cases without observation: %s" % [c["id"] for c in missing[:10]])
    cases = [c for c in cases if c.get("obs")]
    suspects = [c for c in cases if is_suspect(c)]
    confirm(ck, cases, suspects)

    mism, viol = [], []
    shard = 1500
    for k in range(0, len(cases), shard):
        m, v, out = eval_cases(ck, "C05_cases_%d" % (k // shard), cases[k:k + shard])
        if m is None:
            ck.obligation("cases evaluated inside Coq", False, out[-1500:])
            return
        mism += m
        viol += v
    byid = {c["id"]: c for c in cases}
    # generator invariant of the streams whose class is predicted without the limiter: a Content-Encoding overlay stays
    # within the decoded-size limit the router runs with (stream "limit" is the one that crosses it)
    over = [c["id"] for c in cases if c["stream"] in ("struct", "generic", "frame") and c["obs"].get("limit")
            and max(int(c["obs"].get("decoded_len", 0)), 0 if any(k == "Content-Encoding" and v in ("gzip", "snappy") for k, v in c["req"].get("headers", []))
                    else int(c["obs"].get("body_len", 0))) > int(c["obs"]["limit"])]
    ck.obligation("generator: structured cases (plain or under a Content-Encoding) stay within the payload limit the harness router runs with", not over, "cases: %s" % over[:10])
    nstruct = sum(1 for c in cases if c["stream"] in ("struct", "generic", "limit", "frame", "mform"))
    nframe = sum(1 for c in cases if c["stream"] == "frame")
    ngeneric = sum(1 for c in cases if c["stream"] == "generic")
    nlimit = sum(1 for c in cases if c["stream"] == "limit")
    nbytes = len(cases) - nstruct
    ck.obligation("correspondence: model predict = observed outcome class on %d structured requests" % nstruct, not mism,
                  "mismatching case ids: %s" % mism[:10])
    ck.obligation("spec oracle spec_ok accepts every observation (%d structured + %d byte-level fuzz requests): answered, alive, "
                  "census stable, later requests served, allocation within 64 MiB + 64 x min(max(wire size, decoded size), configured payload limit), snappy limit respected, "
                  "malformed structured input and bodies beyond the payload limit (plain or compressed) not answered 2xx" % (nstruct, nbytes),
                  not viol, "violating case ids: %s" % viol[:10])

    check_handed(ck, cases, byid)

    def size(c):
        return len(c["req"].get("body_hex", "")) + (10 ** 7 if c["req"].get("body_gen") else 0) + len(json.dumps(c.get("d") or {}))
    if viol:
        worst = min((byid[i] for i in viol), key=size)
        o = worst["obs"]
        ck.violation({"property": "C05", "kind": "request is not answered safely: outcome=%s canary=%s alloc_kb=%s" % (
            o["outcome"], o.get("canary", ""), o.get("alloc_kb")),
            "case": strip_case(worst), "observed": o, "first_observation": worst.get("first_obs"),
            "explanation": "spec_ok (model/IngestRobust.v) rejects what the real writer router did with this request "
                           "(crash/hang/leak = process died, never answered, or left goroutines behind; canary = a later well-formed request failed)",
            "others": [i for i in viol if i != worst["id"]][:20],
            "replay": "bin/check C05 --replay <this file>   (or: ingestfuzz --cases <file with the case line>)"})
    elif mism:
        worst = min((byid[i] for i in mism), key=size)
        ck.violation({"property": "C05", "kind": "model/implementation disagree on the outcome class; the request was still answered safely",
                      "case": strip_case(worst), "observed": worst["obs"], "broken": "correspondence IngestRobust.predict / IngestPipe.g_predict / IngestFraming.lim_predict vs writer router",
                      "others": [i for i in mism if i != worst["id"]][:20]}, no_input=True)

    # coverage
    distinct = set()
    hist = {}
    outcomes = {}
    for c in cases:
        key = c["class"].split("+")[0] if c["stream"] in ("struct", "generic", "limit", "frame", "mform") else "bytes:" + c["class"].split(" ")[0]
        key = "/".join(key.split("/")[:3])
        hist[key] = hist.get(key, 0) + 1
        ok = c["stream"] + ":" + c["obs"]["outcome"]
        outcomes[ok] = outcomes.get(ok, 0) + 1
        if nontrivial(c):
            distinct.add(req_hash(c))
    ck.coverage["evaluations"] += len(cases)
    ck.coverage["distinct_nontrivial"] += len(distinct)
    ck.coverage["rule"] += (
        "struct: generated requests to /ingest, Zipkin JSON/NDJSON (3 paths), /v1/traces, remote-write + Loki protobuf (snappy), Loki JSON, Influx, "
        "with field-level malformations (from/until/name strings, id presence/width/hex-ness, nil resource, valueless attribute, snappy framing/limit, "
        "precision, Content-Encoding, Content-Type); bytes: mutations (truncate, bit flips, random, delete, insert, boundary bytes, duplicate) of valid "
        "bodies of 17 route/content-type seeds, also gzip/snappy wrapped and under foreign content types. Non-trivial = structured case with at least one "
        "malformation or encoding overlay, or byte-level case whose body/params/headers differ from the seed; distinct by sha1 of (path, query, headers, body). ")
    lat = sorted(int(c["obs"].get("ms", 0)) for c in cases if c["obs"]["outcome"] in ("2xx", "4xx", "5xx"))
    if lat:
        ck.extra["latency_ms_(measured_confirmation_of_the_termination_theorems)"] = {
            "answered": len(lat), "median": lat[len(lat) // 2], "p99": lat[(len(lat) * 99) // 100], "max": lat[-1], "deadline": 3000}
    ck.extra["input_distribution"] = {"classes": dict(sorted(hist.items())), "outcomes": dict(sorted(outcomes.items())),
                                      "structured_cases": nstruct, "of_which_predicted_from_the_route_table": ngeneric,
                                      "of_which_payloads_of_an_exact_size_around_the_decoded-size_limit_(plain/gzip/snappy)": nlimit,
                                      "of_which_NDJSON_framing_bodies_(CF,_Elasticsearch_bulk,_Zipkin_NDJSON)": nframe,
                                      "of_which_multipart_forms_of_/ingest_(boundary_line,_closing_delimiter,_parts,_gzip_layers_of_the_profile_file)": sum(1 for c in cases if c["stream"] == "mform"),
                                      "NDJSON_framing": {
                                          "with_a_line_of_64KiB_or_more": sum(1 for c in cases if c["stream"] == "frame" and ("64KiB" in c["class"] or "16MiB" in c["class"])),
                                          "with_a_line_around_the_16MiB_token_limit": sum(1 for c in cases if c["stream"] == "frame" and "16MiB" in c["class"]),
                                          "with_a_refused_line": sum(1 for c in cases if c["stream"] == "frame" and "refused-line" in c["class"]),
                                          "unterminated_last_line": sum(1 for c in cases if c["stream"] == "frame" and "unterminated" in c["class"]),
                                          "reader_fails_part-way": sum(1 for c in cases if c["stream"] == "frame" and "read-error" in c["class"]),
                                          "lines_stored_by_2xx_answers": sum(sum((c["obs"].get("rows") or {}).values()) for c in cases if c["stream"] == "frame" and c["obs"]["outcome"] == "2xx")},
                                      "decoded_size_limit_of_the_harness_router_bytes": max([int(c["obs"].get("limit", 0)) for c in cases] or [0]), "byte_level_fuzz_cases_(test_not_proof)": nbytes}
    smp = []
    for want in ("ingest", "otlp/malformed", "zipkin", "generic", "limit", "frame", "mform/parts", "bytes"):
        for c in cases:
            if (c["class"].startswith(want) or (want == "bytes" and c["stream"] == "bytes")) and nontrivial(c):
                r = dict(c["req"])
                r["body_hex"] = (r.get("body_hex", "")[:80] + "...") if len(r.get("body_hex", "")) > 80 else r.get("body_hex", "")
                smp.append({"class": c["class"], "req": r, "d": c.get("d") or c.get("l") or c.get("f_model") or c.get("f"), "obs": {k: c["obs"].get(k) for k in ("outcome", "status", "canary", "alloc_kb", "decoded_len", "limit")}})
                break
    ck.add_samples(smp)


def run_stall(ck):
    """a real listener built like main.go httpStart (timeouts regenerated from the source, scaled down 600:1) over the real
    router; a client that sends part of a body and then nothing"""
    try:
        side = json.load(open(PHRASES))
        rt, rht = int(side["server_read_timeout_ms"]), int(side["server_read_header_timeout_ms"])
    except (OSError, ValueError, KeyError):
        ck.obligation("server timeouts written by the translator", False, PHRASES)
        return
    scale = 600
    srt, srht = (rt + scale - 1) // scale, (rht + scale - 1) // scale
    window = srt + 300 if srt > 0 else 400
    outp = os.path.join(ck.work, "stall_out.jsonl")
    args = ["--stall", "--stall-window-ms", window, "--read-timeout-ms", srt, "--read-header-timeout-ms", srht, "--out", outp]
    if ck.tier != "quick":
        args.append("--stall-all")
    rc, out = ck.go_run("ingestfuzz", args, timeout=600)
    if rc != 0:
        ck.obligation("harness ingestfuzz --stall ran", False, out[-1500:])
        return
    cases = load(outp)
    cls = {2: "O2xx", 4: "O4xx", 5: "O5xx"}
    rows = ["{| st_id := %d; st_total := %d; st_sent := %d; st_window := %d; st_read_timeout := %d; st_answered := %s; st_status_class := %s; st_stuck := %s; "
            "st_canary_ok := %s; st_released_ms := %d |}" % (
                c["id"], c["total"], c["sent"], c["obs"]["window_ms"], c["obs"]["read_timeout_ms"], b(c["obs"]["answered"]),
                cls.get(c["obs"]["status"] // 100, "OOther"), b(c["obs"]["stuck_in_handler"]), b(c["obs"]["canary_during"] == "2xx"), c["obs"]["released_ms"])
            for c in cases]
    txt = ("From Coq Require Import List String ZArith Bool.\nFrom Qryn Require Import model.IngestRobust model.IngestPipe model.IngestFraming.\n"
           "Import ListNotations.\nOpen Scope Z_scope.\n"
           "Definition scases : list stallcase := [\n  " + ";\n  ".join(rows) + "].\n"
           "Definition M := Eval vm_compute in stall_mismatches scases.\nPrint M.\n"
           "Definition V := Eval vm_compute in stall_spec_violations scases.\nPrint V.\n")
    rc, out = ck.coq_eval("C05_stall", txt)
    flat = " ".join(out.split())
    m = re.search(r"M = \[(.*?)\]\s*: list Z", flat)
    v = re.search(r"V = \[(.*?)\]\s*: list Z", flat)
    if rc != 0 or not m or not v:
        ck.obligation("stall cases evaluated inside Coq", False, out[-1500:])
        return
    mism = [int(x) for x in re.findall(r"-?\d+", m.group(1))]
    viol = [int(x) for x in re.findall(r"-?\d+", v.group(1))]
    byid = {c["id"]: c for c in cases}
    ck.obligation("stalled bodies: on %d requests over a real listener built like main.go httpStart (ReadTimeout %d ms, ReadHeaderTimeout %d ms in the source; run at 1:%d) "
                  "the handler is where read_body (model/IngestFraming.v) says at the end of the window" % (len(cases), rt, rht, scale), not mism,
                  "mismatching stall case ids: %s" % mism[:10])
    ck.obligation("stalled bodies: no goroutine is left in handler code by a client that stops sending; other clients are served meanwhile; an incomplete body is not answered 2xx",
                  not viol, "violating stall case ids: %s" % viol[:10])
    if viol:
        w = min((byid[i] for i in viol), key=lambda c: c["total"])
        ck.violation({"property": "C05", "kind": "a client that stops sending in the middle of a body holds a handler goroutine (in %s) for as long as it keeps the connection: "
                      "no response and no read deadline within the window" % w["obs"].get("where", "?"),
                      "stall_case": {k: w[k] for k in ("id", "route", "path", "ct", "total", "sent")}, "observed": w["obs"],
                      "others": [i for i in viol if i != w["id"]][:20],
                      "replay": "ingestfuzz --stall --read-timeout-ms %d --read-header-timeout-ms %d   (POST %s, Content-Length %d, send %d bytes, then nothing)" % (
                          srt, srht, w["path"], w["total"], w["sent"])})
    elif mism:
        w = byid[mism[0]]
        ck.violation({"property": "C05", "kind": "stalled body: model and implementation disagree", "stall_case": {k: w[k] for k in ("id", "route", "path", "ct", "total", "sent")},
                      "observed": w["obs"], "broken": "correspondence IngestFraming.read_body vs net/http server as configured in main.go"}, no_input=True)
    ck.coverage["evaluations"] += len(cases)
    ck.coverage["distinct_nontrivial"] += sum(1 for c in cases if c["sent"] < c["total"])
    ck.coverage["rule"] += "stall: one request per route family over a real TCP listener, body cut at half (thorough: also at 0 and len-1) or complete; non-trivial = incomplete body. "
    ck.extra["stalled_body_observations"] = {"cases": len(cases), "source_read_timeout_ms": rt, "source_read_header_timeout_ms": rht, "scale": scale,
                                             "incomplete_bodies_given_up_with": sorted(set(c["obs"]["status"] for c in cases if c["sent"] < c["total"])),
                                             "stuck_in_handler": sum(1 for c in cases if c["obs"]["stuck_in_handler"])}
    ck.add_samples([{"class": "stall/" + c["route"], "total": c["total"], "sent": c["sent"], "obs": c["obs"]} for c in cases if c["sent"] < c["total"]][:1])


RERR = {"nil": "ENil", "eof": "EEof", "under": "EUnder", "toolong": "ETooLong"}
LIMREAD_CORPUS = os.path.join(HERE, "corpus", "C05", "limread.jsonl")


def run_limread(ck):
    """the REAL helpers.LimitDecoded over a scripted decompressor and a scripted consumer, Read by Read, against lim_run"""
    if ck.replay and "limread_case" not in json.load(open(ck.replay)):
        return
    if not ck.go_build("limread"):
        ck.obligation("harness limread builds against the repository (helpers.LimitDecoded exists)", False, ck.build_out[-1500:])
        return
    runs = []
    if ck.replay:
        p = os.path.join(ck.work, "limread_replay.jsonl")
        open(p, "w").write(json.dumps(json.load(open(ck.replay))["limread_case"]) + "\n")
        runs.append(("replay", ["--cases", p]))
    else:
        if os.path.exists(LIMREAD_CORPUS):
            runs.append(("corpus", ["--cases", LIMREAD_CORPUS]))
        runs.append(("gen", ["--seed", ck.seed, "--n", ck.n(1200, 40000)]))
    cases = []
    for tag, args in runs:
        outp = os.path.join(ck.work, "limread_%s.jsonl" % tag)
        rc, out = ck.go_run("limread", args + ["--out", outp], timeout=600)
        if rc != 0:
            ck.obligation("harness limread ran (%s)" % tag, False, out[-1500:])
            ck.violation({"property": "C05", "kind": "helpers.LimitDecoded panicked or the harness failed", "stderr": out[-2000:]}, no_input=True)
            return
        got = load(outp)
        if tag == "corpus":
            for c in got:
                c["id"] += 3000000
        cases += got
    other = [c["id"] for c in cases if any(o["err"] == "other" for o in c["obs"])]
    ck.obligation("limread: every error of the limiter is nil, io.EOF, the decompressor's own, or a typed 400", not other, "cases: %s" % other[:10])
    mism, viol = [], []
    shard = 4000
    for k in range(0, len(cases), shard):
        part = [c for c in cases[k:k + shard] if c["id"] not in other]
        rows = ["{| rc_id := %d; rc_global := %d; rc_decoded := %d; rc_calls := %s; rc_obs := %s |}" % (
            c["id"], c["global"], c["decoded"], coq_list(["(%d, %d)" % (a, bb) for a, bb in c["calls"]]),
            coq_list(["(%d, %s)" % (o["n"], RERR[o["err"]]) for o in c["obs"]])) for c in part]
        txt = ("From Coq Require Import List String ZArith Bool.\nFrom Qryn Require Import model.IngestRobust model.IngestPipe model.IngestFraming.\n"
               "Import ListNotations.\nOpen Scope Z_scope.\n"
               "Definition rcases : list rcase := [\n  " + ";\n  ".join(rows) + "].\n"
               "Definition M := Eval vm_compute in r_mismatches rcases.\nPrint M.\n"
               "Definition V := Eval vm_compute in r_spec_violations rcases.\nPrint V.\n")
        rc, out = ck.coq_eval("C05_limread_%d" % (k // shard), txt)
        flat = " ".join(out.split())
        m = re.search(r"M = \[(.*?)\]\s*: list Z", flat)
        v = re.search(r"V = \[(.*?)\]\s*: list Z", flat)
        if rc != 0 or not m or not v:
            ck.obligation("limread cases evaluated inside Coq", False, out[-1500:])
            return
        mism += [int(x) for x in re.findall(r"-?\d+", m.group(1))]
        viol += [int(x) for x in re.findall(r"-?\d+", v.group(1))]
    byid = {c["id"]: c for c in cases}
    ck.obligation("limiter correspondence: on %d scripted consumers/decompressors the real helpers.LimitDecoded returns, Read by Read, the (n, error) "
                  "that lim_run (model/IngestFraming.v) computes" % len(cases), not mism, "mismatching limread case ids: %s" % mism[:10])
    ck.obligation("limiter oracle: the real reader never delivers more than pbPool.limit bytes and never reports EOF for a longer body", not viol,
                  "violating limread case ids: %s" % viol[:10])

    def size(c):
        return len(c["calls"]) * 10**6 + c["decoded"]
    if viol:
        w = min((byid[i] for i in viol), key=size)
        ck.violation({"property": "C05", "kind": "helpers.LimitDecoded hands over more decoded bytes than the configured limit, or ends a longer body with EOF",
                      "limread_case": {k: w[k] for k in ("id", "class", "global", "decoded", "calls")}, "observed": w["obs"],
                      "others": [i for i in viol if i != w["id"]][:20], "replay": "bin/check C05 --replay <this file>   (or: limread --cases <file with the limread_case line>)"})
    elif mism:
        w = min((byid[i] for i in mism), key=size)
        ck.violation({"property": "C05", "kind": "limiter: model and implementation disagree on a Read result",
                      "limread_case": {k: w[k] for k in ("id", "class", "global", "decoded", "calls")}, "observed": w["obs"],
                      "broken": "correspondence IngestFraming.lim_run vs helpers.LimitDecoded", "replay": "bin/check C05 --replay <this file>"})
    hist = {}
    distinct = set()
    for c in cases:
        hist[c["class"]] = hist.get(c["class"], 0) + 1
        distinct.add(hashlib.sha1(json.dumps([c["global"], c["decoded"], c["calls"]]).encode()).hexdigest())
    ck.coverage["evaluations"] += len(cases)
    ck.coverage["distinct_nontrivial"] += len(distinct)
    ck.coverage["rule"] += ("limread: scripted Read sequences (buffers 0..limit+5 and io.ReadAll-sized, chunks 1..70 or everything, corrupt streams) over bodies "
                            "within / exactly at / just over / far over the limit; every case non-trivial, distinct by sha1 of the script. ")
    ck.extra["limread_distribution"] = {"classes": dict(sorted(hist.items())),
                                        "reads": sum(len(c["calls"]) for c in cases),
                                        "reads_answered_too_long": sum(1 for c in cases for o in c["obs"] if o["err"] == "toolong")}
    ck.add_samples([{"class": c["class"], "global": c["global"], "decoded": c["decoded"], "calls": c["calls"][:5], "obs": c["obs"][:5]}
                    for c in cases if c["class"] == "just-over"][:1])


SVC = {"spans": 0, "attrs": 1, "prof": 2}
FAIL = {"spans": 0, "attrs": 1, "prof": 2, "spl": 3, "ts": 4}


def pcase_to_coq(c):
    evs = c.get("events") or []
    sizes = c.get("sizes") or [0] * len(evs)
    end = "PendNil"
    if evs and evs[-1]["op"] == "err":
        end = "(PendErr %s)" % b(evs[-1].get("typed"))
    elif evs and evs[-1]["op"] == "panic":
        end = "PendPanic"
    spans, tags = [], []
    for ev, sz in zip(evs, sizes):
        if ev["op"] == "span":
            spans.append("{| se_tid := %d%%N; se_sid := %d%%N; se_keys := %d%%nat; se_vals := %d%%nat; se_bytes := %d%%N |}" % (
                ev.get("tid", 0), ev.get("sid", 0), ev.get("keys", 0), ev.get("vals", 0), sz))
        elif ev["op"] == "profile":
            tags.append("%d%%N" % sz)
    o = c["obs"]
    obs = ["(%d, %s)" % (SVC.get(x["svc"], 3), coq_list(["%d%%N" % n for n in (x.get("cols") or [])])) for x in (o.get("batches") or [])]
    return "{| pc_id := %d; pc_spans := %s; pc_tags := %s; pc_end := %s; pc_outcome := %s; pc_batches := %s |}" % (
        c["id"], ("Some " + coq_list(spans)) if c["kind"] == "spans" else "None", coq_list(tags), end,
        OUTCOME.get(o["outcome"], "OOther"), coq_list(obs))


def lcase_to_coq(c):
    evs = c.get("events") or []
    sizes = c.get("sizes") or [0] * len(evs)
    series = c.get("series") or [0] * len(evs)
    end = "PendNil"
    if evs and evs[-1]["op"] == "err":
        end = "(PendErr %s)" % b(evs[-1].get("typed"))
    elif evs and evs[-1]["op"] == "panic":
        end = "PendPanic"
    ents = []
    for ev, sz, sr in zip(evs, sizes, series):
        if ev["op"] == "entries":
            ents.append("{| en_lbl_short := %s; en_ts := %d%%nat; en_msg := %d%%nat; en_val := %d%%nat; en_types := %d%%nat; en_bad_type := %s; "
                        "en_series := %d%%nat; en_bytes := %d%%N |}" % (
                            b(ev.get("lbl_short")), ev.get("nts", 0), ev.get("nmsg", 0), ev.get("nval", 0), ev.get("ntypes", 0),
                            b(ev.get("ntypes", 0) > 0 and ev.get("type", 0) >= 3), sr, sz))
    o = c["obs"]
    svc = {"spl": 3, "ts": 4}
    obs = ["(%d, %s)" % (svc.get(x["svc"], 9), coq_list(["%d%%N" % n for n in (x.get("cols") or [])])) for x in (o.get("batches") or [])]
    return "{| lc_id := %d; lc_events := %s; lc_end := %s; lc_outcome := %s; lc_batches := %s |}" % (
        c["id"], coq_list(ents), end, OUTCOME.get(o["outcome"], "OOther"), coq_list(obs))


PIPE_CORPUS = os.path.join(HERE, "corpus", "C05", "pipe.jsonl")


def run_pipe(ck):
    """the real Build/doParse/doPush/parserDoer/tamePanic/onSpan/onProfile around a scripted decoder, recording insert
    services; compared with the interpreter of model/IngestPipe.v over the REGENERATED onSpan"""
    if not ck.go_build("pipefuzz"):
        ck.obligation("harness pipefuzz builds against the repository (hooks zz_verif_export_c05.go)", False, ck.build_out[-1500:])
        return
    runs = []
    if os.path.exists(PIPE_CORPUS) and not ck.replay:
        runs.append(("corpus", ["--cases", PIPE_CORPUS]))
    if ck.replay:
        obj = json.load(open(ck.replay))
        if "pipe_case" not in obj:
            return
        p = os.path.join(ck.work, "pipe_replay.jsonl")
        open(p, "w").write(json.dumps(obj["pipe_case"]) + "\n")
        runs.append(("replay", ["--cases", p]))
    else:
        runs.append(("gen", ["--seed", ck.seed, "--n", ck.n(1500, 40000)]))
    cases = []
    for tag, args in runs:
        outp = os.path.join(ck.work, "pipe_%s.jsonl" % tag)
        rc, out = ck.go_run("pipefuzz", args + ["--out", outp], timeout=3000)
        lines = load(outp) if os.path.exists(outp) else []
        got = [c for c in lines if "obs" in c]
        begun = [c["begin"] for c in lines if "begin" in c]
        if tag == "corpus":
            for c in got:
                c["id"] += 2000000
        cases += got
        if rc != 0:
            # the process died: the case in progress is the failing input
            done = set(c["id"] for c in got)
            last = [i for i in begun if i not in done and i + 2000000 not in done]
            ck.obligation("harness pipefuzz ran to the end (%s)" % tag, False, "exit %d; case in progress: %s; stderr tail: %s" % (rc, last[-1:] or "?", out[-1200:]))
            if last:
                # the script of the case in progress (same seed, same PRNG; or the corpus / replay file)
                gp = os.path.join(ck.work, "pipe_regen.jsonl")
                ck.go_run("pipefuzz", args + ["--gen-only", "--out", gp], timeout=300)
                script = [c for c in (load(gp) if os.path.exists(gp) else []) if c.get("id") == last[-1]]
                ck.violation({"property": "C05", "kind": "the process died while serving a request whose decoder behaved as scripted (un-recovered panic in a goroutine)",
                              "pipe_case": {k: script[0][k] for k in ("id", "kind", "class", "events")} if script else {"id": last[-1]},
                              "stderr": out[-2500:], "replay": "bin/check C05 --replay <this file>   (or: pipefuzz --cases <file with the pipe_case line>)"})
            return
    if not cases:
        return
    mism, viol = [], []
    shard = 3000
    for k in range(0, len(cases), shard):
        part = cases[k:k + shard]
        txt = ("From Coq Require Import List String Ascii ZArith NArith Bool.\n"
               "From Qryn Require Import model.IngestRobust model.IngestPipe gen.GenGoroutinesWriter.\n"
               "Import ListNotations.\nOpen Scope Z_scope.\n"
               "Definition fcases : list (Z * pcase) := [\n  " + ";\n  ".join("(%d, %s)" % (FAIL.get(c.get("fail_svc", ""), -1), pcase_to_coq(c)) for c in part if c["kind"] != "logs") + "].\n"
               "Definition flcases : list (Z * lcase) := [\n  " + ";\n  ".join("(%d, %s)" % (FAIL.get(c.get("fail_svc", ""), -1), lcase_to_coq(c)) for c in part if c["kind"] == "logs") + "].\n"
               "Definition M := Eval vm_compute in (pipe_mismatches_f gen_on_span_cols gen_spans_fields gen_attrs_fields fcases "
               "++ lpipe_mismatches_f gen_on_entries_cols gen_spl_fields gen_tsd_fields flcases)%list.\nPrint M.\n"
               "Definition V := Eval vm_compute in (pipe_spec_violations (map snd fcases) ++ lpipe_spec_violations (map snd flcases))%list.\nPrint V.\n")
        rc, out = ck.coq_eval("C05_pipe_%d" % (k // shard), txt)
        flat = " ".join(out.split())
        m = re.search(r"M = \[(.*?)\]\s*: list Z", flat)
        v = re.search(r"V = \[(.*?)\]\s*: list Z", flat)
        if rc != 0 or not m or not v:
            ck.obligation("pipefuzz cases evaluated inside Coq", False, out[-1500:])
            return
        mism += [int(x) for x in re.findall(r"-?\d+", m.group(1))]
        viol += [int(x) for x in re.findall(r"-?\d+", v.group(1))]
    byid = {c["id"]: c for c in cases}
    ck.obligation("pipeline correspondence: on %d scripted-decoder requests the real Build/doParse/doPush/parserDoer/onSpan/onProfile give the status class and "
                  "exactly the batches (every column length, any order of the push goroutines) that the model's interpreter over the regenerated onSpan / onEntries predicts" % len(cases),
                  not mism, "mismatching pipefuzz case ids: %s" % mism[:10])
    ck.obligation("pipeline oracle: every scripted-decoder request is answered, leaves no goroutine behind, and everything that reaches an insert service is rectangular "
                  "(logs: whenever the scripted decoder handed over four slices of one length)",
                  not viol, "violating pipefuzz case ids: %s" % viol[:10])

    def size(c):
        return len(json.dumps(c["events"]))
    if viol:
        w = min((byid[i] for i in viol), key=size)
        ck.violation({"property": "C05", "kind": "scripted decoder: outcome=%s; a request is not answered / leaves a goroutine / hands a torn batch to an insert service" % w["obs"]["outcome"],
                      "pipe_case": {k: w[k] for k in ("id", "kind", "class", "events", "fail_svc") if k in w}, "observed": w["obs"], "others": [i for i in viol if i != w["id"]][:20],
                      "replay": "bin/check C05 --replay <this file>   (or: pipefuzz --cases <file with the pipe_case line>)"})
    elif mism:
        w = min((byid[i] for i in mism), key=size)
        ck.violation({"property": "C05", "kind": "scripted decoder: model and implementation disagree on the status class or on the batches pushed",
                      "pipe_case": {k: w[k] for k in ("id", "kind", "class", "events", "fail_svc") if k in w}, "observed": w["obs"], "others": [i for i in mism if i != w["id"]][:20],
                      "broken": "correspondence IngestPipe.pipe_expected vs parserDoer/doParse", "replay": "bin/check C05 --replay <this file>"})
    hist, outc = {}, {}
    distinct = set()
    for c in cases:
        k = "/".join(c["class"].split("/")[:2])
        hist[k] = hist.get(k, 0) + 1
        outc[c["obs"]["outcome"]] = outc.get(c["obs"]["outcome"], 0) + 1
        if c["events"]:
            distinct.add(hashlib.sha1(json.dumps([c["kind"], c["events"]], sort_keys=True).encode()).hexdigest())
    ck.coverage["evaluations"] += len(cases)
    ck.coverage["distinct_nontrivial"] += len(distinct)
    ck.coverage["rule"] += ("pipe: scripted decoder behind the real pipeline (0-6 spans / profiles / onEntries calls with any id widths, keys, values, slice lengths, sample types, "
                            "short label pairs, sizes incl. > 1 MiB flushes; "
                            "then nil / typed error / plain error / panic); non-trivial = at least one event; distinct by sha1 of the script. ")
    ck.extra["pipefuzz_distribution"] = {"classes": dict(sorted(hist.items())), "outcomes": dict(sorted(outc.items())),
                                         "with_flush": sum(1 for c in cases if "/big" in c["class"]),
                                         "short_vals_panic": sum(1 for c in cases if "short-vals" in c["class"]),
                                         "with_a_failing_insert_service": sum(1 for c in cases if c.get("fail_svc")),
                                         "logs_unequal_lengths": sum(1 for c in cases if "/unequal" in c["class"]),
                                         "logs_torn_batches_observed_(contract_broken_by_the_script)": sum(
                                             1 for c in cases if c["kind"] == "logs" and any(len(set(x.get("cols") or [])) > 1 for x in (c["obs"].get("batches") or []))),
                                         "batches_observed": sum(len(c["obs"].get("batches") or []) for c in cases)}
    ck.add_samples([{"class": c["class"], "events": c["events"][:4], "obs": c["obs"]} for c in cases if "short-vals" in c["class"]][:1])


CKIND = {"prom": "CProm", "lokiproto": "CLokiProto", "lokijson": "CLokiJson", "ddmetrics": "CDdMetrics"}
SHTABLE = {"samples_v3": 3, "time_series": 4, "profiles_input": 5, "tempo_traces": 6, "tempo_traces_attrs_gin": 7}
SHARED_CORPUS = os.path.join(HERE, "corpus", "C05", "shared.jsonl")


def status_outcome(st):
    if st == 0:
        return "OHang"
    if st < 0:
        return "OAbort"
    return {2: "O2xx", 4: "O4xx", 5: "O5xx"}.get(st // 100, "OOther")


def shcase_to_coq(c):
    def client(x):
        return "{| cl_kind := %s; cl_shape := %s; cl_bad := %s |}" % (
            CKIND[x["kind"]], coq_list(["(%d%%N, %d%%N)" % (k, n) for k, n in x["shape"]]), b(bool(x.get("bad"))))
    o = c["obs"]
    blocks = ["(%d, %s, %s)" % (SHTABLE.get(x["table"], 9), b(x["refused"]), coq_list(["%d%%N" % n for n in x["cols"]])) for x in (o.get("blocks") or [])]
    return ("{| sh_id := %d; sh_a := %s; sh_b := %s; sh_a_is_loki := %s; sh_obs := {| so_a := %s; so_b := %s; so_blocks := %s; so_a_lines := %d%%N |} |}" % (
        c["id"], client(c["a"]), client(c["b"]), b(c["a"]["kind"] in ("lokijson", "lokiproto")), status_outcome(o["a_status"]), status_outcome(o["b_status"]),
        coq_list(blocks), o.get("a_lines_stored", 0)))


def shpcase_to_coq(c):
    o = c["obs"]
    blocks = ["(%d, %s, %s)" % (SHTABLE.get(x["table"], 9), b(x["refused"]), coq_list(["%d%%N" % n for n in x["cols"]])) for x in (o.get("blocks") or [])]
    return "{| shp_id := %d; shp_a_bad := %s; shp_b_bad := %s; shp_obs := {| so_a := %s; so_b := %s; so_blocks := %s; so_a_lines := 0%%N |} |}" % (
        c["id"], b(bool(c["a"].get("bad"))), b(bool(c["b"].get("bad"))), status_outcome(o["a_status"]), status_outcome(o["b_status"]), coq_list(blocks))


def shscase_to_coq(c):
    o = c["obs"]
    blocks = ["(%d, %s, %s)" % (SHTABLE.get(x["table"].replace("_dist", ""), 9), b(x["refused"]), coq_list(["%d%%N" % n for n in x["cols"]])) for x in (o.get("blocks") or [])]
    return ("{| shs_id := %d; shs_a_spans := %d%%N; shs_b_spans := %d%%N; shs_a_bad := %s; shs_b_bad := %s; "
            "shs_obs := {| so_a := %s; so_b := %s; so_blocks := %s; so_a_lines := 0%%N |} |}" % (
                c["id"], sum(k for k, _ in c["a"]["shape"]), sum(k for k, _ in c["b"]["shape"]), b(bool(c["a"].get("bad"))), b(bool(c["b"].get("bad"))),
                status_outcome(o["a_status"]), status_outcome(o["b_status"]), coq_list(blocks)))


def run_shared(ck):
    """two clients whose rows land in ONE batch of the real insert services (harness sharedbatch): client A sends a small well-formed push,
    client B a request of a chosen shape; the back-end is ch-go's own block encoder.  Compared with sh_expected (regenerated decoder loops ->
    regenerated onEntries at column level -> the shared batch of model/IngestShared.v); oracle sh_spec_ok: no request makes another
    client's well-formed push fail."""
    rp = json.load(open(ck.replay)) if ck.replay else {}
    if ck.replay and "shared_case" not in rp:
        return
    if not ck.go_build("sharedbatch"):
        ck.obligation("harness sharedbatch builds against the repository", False, ck.build_out[-1500:])
        return
    runs = []
    if ck.replay:
        p = os.path.join(ck.work, "shared_replay_in.jsonl")
        open(p, "w").write(json.dumps(rp["shared_case"]) + "\n")
        runs.append(("replay", ["--cases", p]))
    else:
        if os.path.exists(SHARED_CORPUS):
            runs.append(("corpus", ["--cases", SHARED_CORPUS]))
        probes = getattr(ck, "failing_probe_shapes", None) or ([], [])
        extra = [("prom", sh) for sh in probes[0]] + [("lokiproto", sh) for sh in probes[1]]
        if extra:
            # bodies on which the model's interpreter says the regenerated decoder loop breaks its contract: run them against the real code
            p = os.path.join(ck.work, "shared_probes_in.jsonl")
            with open(p, "w") as f:
                for i, (kind, sh) in enumerate(extra):
                    f.write(json.dumps({"id": 5000000 + i, "class": kind + "/failing-probe-of-the-regenerated-loop/a-first",
                                        "a": {"kind": "lokijson", "shape": [[1, 1]]}, "b": {"kind": kind, "shape": sh}, "order": "a-first"}) + "\n")
            runs.append(("probes", ["--cases", p]))
        runs.append(("gen", ["--seed", ck.seed, "--n", ck.n(90, 2500)]))
    cases = []
    for tag, args in runs:
        outp = os.path.join(ck.work, "shared_%s.jsonl" % tag)
        rc, out = ck.go_run("sharedbatch", args + ["--out", outp], timeout=3000)
        lines = load(outp) if os.path.exists(outp) else []
        got = [c for c in lines if "obs" in c]
        begun = [c["begin"] for c in lines if "begin" in c]
        if tag == "corpus":
            for c in got:
                c["id"] += 4000000
        cases += got
        if rc != 0:
            done = set(c["id"] for c in got)
            last = [i for i in begun if i not in done and i + 4000000 not in done]
            ck.obligation("harness sharedbatch ran to the end (%s)" % tag, False, "exit %d; case in progress: %s; stderr tail: %s" % (rc, last[-1:] or "?", out[-1200:]))
            if last:
                gp = os.path.join(ck.work, "shared_regen.jsonl")
                ck.go_run("sharedbatch", args + ["--gen-only", "--out", gp], timeout=300)
                script = [c for c in (load(gp) if os.path.exists(gp) else []) if c.get("id") == last[-1]]
                ck.violation({"property": "C05", "kind": "the process died while two clients shared a batch (un-recovered panic in a goroutine)",
                              "shared_case": {k: script[0][k] for k in ("id", "class", "a", "b", "order")} if script else {"id": last[-1]},
                              "stderr": out[-2500:], "replay": "bin/check C05 --replay <this file>   (or: sharedbatch --cases <file with the shared_case line>)"})
            return
    if not cases:
        return
    mism, viol = [], []
    shard = 400
    for k in range(0, len(cases), shard):
        part = cases[k:k + shard]
        txt = ("From Coq Require Import List String Ascii ZArith NArith Bool.\n"
               "From Qryn Require Import model.IngestRobust model.IngestPipe model.IngestShared gen.GenGoroutinesWriter.\n"
               "Import ListNotations.\nOpen Scope Z_scope.\n"
               "Definition shcases : list shcase := [\n  " + ";\n  ".join(shcase_to_coq(c) for c in part if c["a"]["kind"] not in ("pprof", "zipkin")) + "].\n"
               "Definition shscases : list shscase := [\n  " + ";\n  ".join(shscase_to_coq(c) for c in part if c["a"]["kind"] == "zipkin") + "].\n"
               "Definition shpcases : list shpcase := [\n  " + ";\n  ".join(shpcase_to_coq(c) for c in part if c["a"]["kind"] == "pprof") + "].\n"
               "Definition M := Eval vm_compute in (sh_mismatches gen_on_entries_cols gen_spl_fields gen_tsd_fields gen_prom_decode_prog gen_lokiproto_decode_prog shcases "
               "++ shp_mismatches gen_on_profile_prog gen_profile_cols shpcases)%list.\nPrint M.\n"
               "Definition V := Eval vm_compute in (sh_spec_violations shcases ++ shp_spec_violations shpcases ++ shs_spec_violations shscases)%list.\nPrint V.\n")
        rc, out = ck.coq_eval("C05_shared_%d" % (k // shard), txt)
        flat = " ".join(out.split())
        m = re.search(r"M = \[(.*?)\]\s*: list Z", flat)
        v = re.search(r"V = \[(.*?)\]\s*: list Z", flat)
        if rc != 0 or not m or not v:
            ck.obligation("sharedbatch cases evaluated inside Coq", False, out[-1500:])
            return
        mism += [int(x) for x in re.findall(r"-?\d+", m.group(1))]
        viol += [int(x) for x in re.findall(r"-?\d+", v.group(1))]
    byid = {c["id"]: c for c in cases}
    ck.obligation("shared batch correspondence: on %d pairs of concurrent requests the real router / decoders / onEntries / InsertServiceV2 over ch-go's block encoder give "
                  "both clients the status class and the blocks the column totals that the model computes from the regenerated decoder loops and the regenerated onEntries" % len(cases),
                  not mism, "mismatching sharedbatch case ids: %s" % mism[:10])
    ck.obligation("shared batch oracle: no request makes another client's well-formed push fail -- every well-formed push is acknowledged and all its rows are stored whatever "
                  "the client sharing the batch sent, a refused body is not acknowledged, no INSERT block is refused by the block encoder",
                  not viol, "violating sharedbatch case ids: %s" % viol[:10])

    def size(c):
        return sum(k * max(n, 1) for k, n in c["b"]["shape"]) + sum(k * max(n, 1) for k, n in c["a"]["shape"])
    if viol:
        w = min((byid[i] for i in viol), key=size)
        o = w["obs"]
        refused = [x for x in o.get("blocks") or [] if x.get("refused")]
        ck.violation({"property": "C05", "kind": "a client's well-formed push fails / loses rows because of the request that shares its insert batch: client A answered %s, client B answered %s%s" % (
            o["a_status"], o["b_status"], ("; INSERT refused: " + refused[0].get("err", "")) if refused else ""),
            "shared_case": {k: w[k] for k in ("id", "class", "a", "b", "order")}, "observed": o, "others": [i for i in viol if i != w["id"]][:20],
            "explanation": "sh_spec_ok (model/IngestShared.v): client A sends a small well-formed push; client B's request (kind, shape = [[k series, n samples each], ..]) "
                           "lands in the same batch of the samples / time-series insert service; the block goes through ch-go's proto.Block.EncodeBlock",
            "replay": "bin/check C05 --replay <this file>   (or: sharedbatch --cases <file with the shared_case line>)"})
    elif mism:
        w = min((byid[i] for i in mism), key=size)
        ck.violation({"property": "C05", "kind": "shared batch: model and implementation disagree on a status class or on the column totals of the blocks",
                      "shared_case": {k: w[k] for k in ("id", "class", "a", "b", "order")}, "observed": w["obs"], "others": [i for i in mism if i != w["id"]][:20],
                      "broken": "correspondence IngestShared.sh_expected vs decoders / onEntries / InsertServiceV2", "replay": "bin/check C05 --replay <this file>"})
    hist, kinds = {}, {}
    distinct = set()
    for c in cases:
        k = c["class"].split("/")[1] if "/" in c["class"] else c["class"]
        hist[k] = hist.get(k, 0) + 1
        kinds[c["b"]["kind"]] = kinds.get(c["b"]["kind"], 0) + 1
        distinct.add(hashlib.sha1(json.dumps([c["a"], c["b"], c["order"]], sort_keys=True).encode()).hexdigest())
    ck.coverage["evaluations"] += len(cases)
    ck.coverage["distinct_nontrivial"] += len(distinct)
    ck.coverage["rule"] += ("shared: pairs (client A: small well-formed Loki / remote-write push; client B: remote write, Loki protobuf, Loki JSON or Datadog series of a chosen "
                            "shape around the 1000-point hand-over, the 1 MiB flush, empty series, or a refused body) flushed as one batch; every pair non-trivial, distinct by sha1. ")
    ck.extra["sharedbatch_distribution"] = {
        "shapes": dict(sorted(hist.items())), "client_B_kinds": dict(sorted(kinds.items())),
        "order": {o: sum(1 for c in cases if c["order"] == o) for o in ("a-first", "b-first", "concurrent")},
        "hand-over_falls_strictly_inside_a_series": sum(1 for c in cases if c["b"]["kind"] == "prom" and not c["b"].get("bad") and crosses(c["b"]["shape"])),
        "client_B_refused_body": sum(1 for c in cases if c["b"].get("bad")),
        "samples_requests_of_one_HTTP_request_gt_1_(over_1_MiB)": sum(1 for c in cases if c["obs"].get("spl_requests", 0) > 2),
        "rows_stored": sum(x["cols"][0] for c in cases for x in (c["obs"].get("blocks") or []) if not x["refused"] and x["table"] == "samples_v3"),
        "blocks_refused": sum(1 for c in cases for x in (c["obs"].get("blocks") or []) if x["refused"])}
    ck.add_samples([{"class": c["class"], "a": c["a"], "b": c["b"], "order": c["order"], "obs": {k: c["obs"].get(k) for k in ("a_status", "b_status", "blocks", "a_lines_stored")}}
                    for c in cases if c["b"]["kind"] == "prom" and crosses(c["b"]["shape"])][:1])


CONN_CORPUS = os.path.join(HERE, "corpus", "C05", "conn.jsonl")
CONN_KEYS = ("id", "class", "kind", "pushes", "rows", "warm", "dial", "do", "ping", "hold", "close_err", "bulk", "attempts")
CONN_REPLAY = "bin/check C05 --replay <this file>   (or: conndown --serial --cases <file with the conn_case line>)"


def nl(xs):
    return coq_list(["%d%%N" % x for x in xs])


def status_class(code):
    return 0 if code <= 0 else code // 100


def conncase_to_coq(c):
    o = c["obs"]
    return ("{| cc_id := %d; cc_pushes := %d%%N; cc_warm := %s; cc_dial := %s; cc_do := %s; cc_ping := %s; cc_hold := %d%%N; cc_attempts := %d%%N; "
            "cc_obs := {| co_status := %s; co_all_completed := %s; co_dial_ok := %d%%N; co_dial_refused := %d%%N; co_do_ok := %d%%N; co_do_fail := %d%%N; "
            "co_rows_sent := %d%%N; co_rows_stored := %d%%N; co_goroutines := (%d)%%Z |} |}" % (
                c["id"], c["pushes"], b(c.get("warm", False)), nl(c.get("dial") or []), nl(c.get("do") or []), nl(c.get("ping") or []),
                {"": 0, "ping-first": 1, "ping-waiting": 2}[c.get("hold", "") or ""], c["attempts"],
                nl([status_class(x) for x in o.get("status") or []]), b(o["issued"] == o["completed"] and not o.get("warm_fail")),
                o["dial_ok"], o["dial_refused"], o["do_ok"], o["do_fail"], o["rows_sent"], o["rows_stored"], max(o.get("goroutines_left", -1), -1)))


def conn_eval(ck, name, cases):
    txt = ("From Coq Require Import List String ZArith NArith Bool.\n"
           "From Qryn Require Import model.IngestRobust model.IngestPipe model.IngestFraming model.IngestShared model.IngestConn gen.GenGoroutinesWriter.\n"
           "Import ListNotations.\nOpen Scope Z_scope.\n"
           "Definition ccases : list ccase := [\n  " + ";\n  ".join(conncase_to_coq(c) for c in cases) + "].\n"
           "Definition M := Eval vm_compute in conn_mismatches gen_fetch_loop gen_ping_prog ccases.\nPrint M.\n"
           "Definition V := Eval vm_compute in conn_spec_violations ccases.\nPrint V.\n"
           "Definition W := Eval vm_compute in conn_wedges gen_fetch_loop gen_ping_prog ccases.\nPrint W.\n")
    rc, out = ck.coq_eval(name, txt)
    flat = " ".join(out.split())
    res = []
    for nm in ("M", "V", "W"):
        m = re.search(r"\b%s = \[(.*?)\]\s*: list Z" % nm, flat)
        if rc != 0 or not m:
            ck.obligation("conndown cases evaluated inside Coq", False, out[-1500:])
            return None
        res.append([int(x) for x in re.findall(r"-?\d+", m.group(1))])
    return res


def conn_start(ck):
    """harness conndown (mostly sleeping: refused dials and retries wait a second each) runs beside the other streams"""
    import threading
    rp = json.load(open(ck.replay)) if ck.replay else {}
    if ck.replay and "conn_case" not in rp:
        return None
    box = {}

    def job():
        try:
            if not ck.go_build("conndown"):
                box["build"] = ck.build_out[-1500:]
                return
            inp = os.path.join(ck.work, "conn_in.jsonl")
            if ck.replay:
                open(inp, "w").write(json.dumps(rp["conn_case"]) + "\n")
                args = ["--serial", "--cases", inp]
            else:
                gp = os.path.join(ck.work, "conn_gen.jsonl")
                ck.go_run("conndown", ["--gen-only", "--seed", ck.seed, "--n", ck.n(30, 400), "--out", gp], timeout=120)
                cases = []
                for c in (load(CONN_CORPUS) if os.path.exists(CONN_CORPUS) else []):
                    c["id"] += 6000000
                    c["class"] = "corpus/" + c["class"]
                    cases.append(c)
                cases += load(gp) if os.path.exists(gp) else []
                with open(inp, "w") as f:
                    for c in cases:
                        f.write(json.dumps({k: c[k] for k in CONN_KEYS if k in c}) + "\n")
                args = ["--cases", inp]
            outp = os.path.join(ck.work, "conn_out.jsonl")
            rc, out = ck.go_run("conndown", args + ["--out", outp], timeout=600)
            box.update(rc=rc, out=out, outp=outp)
        except Exception as e:
            box["exc"] = repr(e)
    t = threading.Thread(target=job)
    t.start()
    return t, box


def run_conn(ck, started):
    """the ClickHouse connection misbehaves with requests in flight (harness conndown): dials refused, INSERTs failing / timing out, the watchdog ping failing,
    Close failing -- every push must be answered, every promise completed, no goroutine left; compared with conn_expected over the REGENERATED fetchLoopIteration"""
    if started is None:
        return
    t, box = started
    t.join()
    if "exc" in box or "build" in box:
        ck.obligation("harness conndown builds against the repository and runs", False, box.get("exc") or box.get("build"))
        return
    lines = load(box["outp"]) if os.path.exists(box["outp"]) else []
    cases = [c for c in lines if "obs" in c]
    census = [c["census"] for c in lines if "census" in c]
    if box["rc"] != 0 or not cases:
        ck.obligation("harness conndown ran to the end", False, "exit %s; stderr tail: %s" % (box["rc"], box["out"][-1500:]))
        ck.violation({"property": "C05", "kind": "the process died while the connection of an insert service misbehaved with requests in flight (un-recovered panic / nil client in the Run goroutine?)",
                      "stderr": box["out"][-2500:], "cases_file": os.path.join(ck.work, "conn_in.jsonl"), "replay": "conndown --cases <cases_file>"})
        return
    res = conn_eval(ck, "C05_conn_0", cases)
    if res is None:
        return
    mism, viol, wedge = res
    byid = {c["id"]: c for c in cases}
    # anything suspicious is run again, alone and one case at a time (goroutine census per case); only what shows again counts
    def size(c):
        return (c["pushes"], len(c.get("dial") or []) + len(c.get("do") or []) + len(c.get("ping") or []), c.get("rows", 1), c["id"])
    suspects = sorted(set(mism + viol), key=lambda i: size(byid[i]))
    if suspects and not ck.replay:
        redone, m2, v2, pos = set(), set(), set(), 0
        for rnd, width in enumerate((4, 8)):
            chosen = suspects[pos:pos + width]
            pos += width
            if not chosen:
                break
            sp = os.path.join(ck.work, "conn_suspects_%d.jsonl" % rnd)
            with open(sp, "w") as f:
                for i in chosen:
                    f.write(json.dumps({k: byid[i][k] for k in CONN_KEYS if k in byid[i]}) + "\n")
            so = os.path.join(ck.work, "conn_suspects_%d_out.jsonl" % rnd)
            rc, out = ck.go_run("conndown", ["--serial", "--deadline-ms", 9000, "--cases", sp, "--out", so], timeout=900)
            again = [c for c in (load(so) if os.path.exists(so) else []) if "obs" in c]
            res2 = conn_eval(ck, "C05_conn_confirm_%d" % rnd, again) if again and rc == 0 else None
            if res2 is None:
                break       # the confirmation run itself failed: the first observations stand
            for c in again:
                byid[c["id"]] = c
            redone |= set(c["id"] for c in again)
            m2 |= set(res2[0])
            v2 |= set(res2[1])
            if m2 or v2:
                break       # something showed again: report it (the smallest confirmed case)
        if redone:
            confirmed = bool(m2 or v2)
            mism = [i for i in mism if i in m2 or (i not in redone and confirmed)]
            viol = [i for i in viol if i in v2 or (i not in redone and confirmed)]
            if not confirmed and pos < len(suspects):
                ck.obligation("conndown: suspicious scenarios re-run alone", False, "%d suspicious scenarios, the %d re-run alone did not show again, the rest was not re-run: %s"
                              % (len(suspects), len(redone), suspects[pos:pos + 10]))
    left = sum(x.get("goroutines_left", 0) for x in census)
    ck.obligation("the model's interpreter over the REGENERATED fetchLoopIteration / ping answers every push of the %d connection scenarios (no promise taken out of svc.results "
                  "and not completed, no nil client in the Run goroutine)" % len(cases), not wedge,
                  "scenarios in which the regenerated program drops a promise (ids; they run against the real code below): %s" % wedge[:12])
    ck.obligation("connection correspondence: on %d scenarios (dials refused, INSERTs failing / running into the write timeout, watchdog pings failing, Close failing, with "
                  "requests in flight) the real router / doPush / InsertServiceV2 answer with the status classes, make the dials and INSERTs and store the rows that "
                  "conn_expected computes from the regenerated programs" % len(cases), not mism, "mismatching conndown case ids: %s" % mism[:10])
    ck.obligation("connection oracle: every push is answered within the deadline, every promise handed out by an insert service is completed, no goroutine stays in "
                  "request code, an acknowledged push is stored exactly once, a push is acknowledged when one of the configured attempts is accepted",
                  not viol and (left <= 0 or bool(viol)), "violating conndown case ids: %s; goroutines left in request code after the run: %d" % (viol[:10], left))

    if viol:
        w = min((byid[i] for i in viol), key=size)
        o = w["obs"]
        un = sum(1 for x in o.get("status") or [] if x <= 0)
        ck.violation({"property": "C05", "kind": "a push is not answered / a promise is never completed when the ClickHouse connection misbehaves: %d of %d pushes without an HTTP "
                      "response within the deadline, promises issued %d completed %d, goroutines left in request code %s, statuses %s%s" % (
                          un, w["pushes"], o["issued"], o["completed"], o.get("goroutines_left"), o.get("status"),
                          ("; the node's services run with bulk size %d (BULK_MAX_SIZE_BYTES), %d Request(s) above it, %d PlanFlush call(s) of the harness never returned "
                           "(the service mutex is not released)" % (w["bulk"], o.get("over_bulk", 0), o.get("flush_stuck", 0))) if w.get("bulk") else ""),
                      "conn_case": {k: w[k] for k in CONN_KEYS if k in w}, "observed": o, "others": [i for i in viol if i != w["id"]][:20],
                      "explanation": "conn_spec_ok (model/IngestConn.v). The case's node has its own insert services over a scripted connection: the k-th dial / INSERT / ping of a "
                                     "service does what dial[k] / do[k] / ping[k] says (0 ok; dial 1 refused; do / ping 1 error, 2 blocks until the write timeout); warm = a push "
                                     "with the database up comes first; hold = the harness waits for the scripted ping failure before / after it sends the pushes; "
                                     "bulk = MaxQueueSize of the node's services (SYSTEM_SETTINGS.DBBulk / BULK_MAX_SIZE_BYTES; 0 = shipped default)",
                      "replay": CONN_REPLAY})
    elif mism:
        w = min((byid[i] for i in mism), key=size)
        ck.violation({"property": "C05", "kind": "connection scenarios: model and implementation disagree on a status class, on the dials / INSERTs made or on the rows stored",
                      "conn_case": {k: w[k] for k in CONN_KEYS if k in w}, "observed": w["obs"], "others": [i for i in mism if i != w["id"]][:20],
                      "broken": "correspondence IngestConn.conn_expected vs doPush / InsertServiceV2", "replay": CONN_REPLAY})
    elif left > 0:
        ck.violation({"property": "C05", "kind": "goroutines stay in request code after the connection scenarios although every push was answered", "stacks": census[0].get("stacks"),
                      "cases_file": os.path.join(ck.work, "conn_in.jsonl"), "replay": "conndown --serial --cases <cases_file>"}, no_input=True)
    hist = {}
    distinct = set()
    for c in cases:
        k = c["class"].replace("warm/", "").replace("/close-error", "").replace("corpus/", "")
        hist[k] = hist.get(k, 0) + 1
        distinct.add(hashlib.sha1(json.dumps([c.get(k) for k in CONN_KEYS if k not in ("id", "class")], sort_keys=True).encode()).hexdigest())
    ck.coverage["evaluations"] += len(cases)
    ck.coverage["distinct_nontrivial"] += len(distinct)
    ck.coverage["rule"] += ("conn: scenarios with at least one scripted fault of the connection (refused dial, failed / timed-out INSERT, failed ping) met by a push in flight; "
                            "distinct by sha1 of the scenario. ")
    ck.extra["conndown_distribution"] = {
        "classes": dict(sorted(hist.items())), "route": {k: sum(1 for c in cases if c["kind"] == k) for k in ("lokijson", "prom", "pprof", "zipkin")},
        "warm_(open_connection_when_the_faults_start)": sum(1 for c in cases if c.get("warm")),
        "refused_dials_met_by_a_waiting_request": sum(c["obs"]["refused_waiting"] for c in cases),
        "scenarios_with_a_refused_dial_while_a_request_waits": sum(1 for c in cases if c["obs"]["refused_waiting"] > 0),
        "failed_pings_with_a_request_waiting": sum(c["obs"]["ping_fail_waiting"] for c in cases),
        "failed_or_timed_out_INSERTs": sum(c["obs"]["do_fail"] for c in cases),
        "pushes_answered_5xx_after_all_attempts": sum(1 for c in cases for x in c["obs"]["status"] if x >= 500),
        "pushes": sum(c["pushes"] for c in cases), "slowest_answer_ms": max(c["obs"]["max_ms"] for c in cases),
        "scenarios_with_a_bulk_size_(BULK_MAX_SIZE_BYTES>0)": {str(v): sum(1 for c in cases if c.get("bulk", 0) == v) for v in sorted(set(c.get("bulk", 0) for c in cases)) if v},
        "scenarios_in_which_a_Request_is_above_the_bulk_size": sum(1 for c in cases if c["obs"].get("over_bulk", 0) > 0),
        "Requests_above_the_bulk_size": sum(c["obs"].get("over_bulk", 0) for c in cases)}
    ck.add_samples([{"class": c["class"], "scenario": {k: c[k] for k in CONN_KEYS if k in c and k not in ("id", "class")},
                     "obs": {k: c["obs"].get(k) for k in ("status", "max_ms", "issued", "completed", "dial_refused", "refused_waiting", "do_ok", "do_fail", "rows_stored")}}
                    for c in cases if c["obs"]["refused_waiting"] > 0][:1])


def crosses(shape):
    """the 1000-point hand-over of the remote-write decoder falls strictly inside a series"""
    points = 0
    for k, n in shape:
        for _ in range(k):
            left = n
            while left > 0:
                take = min(left, 1000 - points)
                points += take
                left -= take
                if points >= 1000:
                    points = 0
                    if left > 0:
                        return True
    return False


def run(ck):
    ck.trusted += [
        "C05: third-party wire decoders (go-faster/jx, google.golang.org/protobuf, google/pprof, golang/snappy, compress/gzip, mime/multipart, "
        "telegraf influx parser) are NOT modelled: their accept/reject verdict is an input bit of the model (q_wire_ok, fallback_parses); they are "
        "exercised by the byte-level stream, which is fuzzing (a test), not proof",
        "C05: goroutines classed CoverBackground (timers, metrics, log shipping, cache reset, watchdog) never receive request data: by reading, not proved; "
        "net/http recovers the handler goroutine; Go runtime scheduling/preemption; crash/hang detection by child process + deadline + goroutine census",
        "C05: retry.Do (avast/retry-go) with the configured attempts terminates; ch-go column Append semantics (ColFixedStr.Append panics on width mismatch) as read",
        "C05 (model/IngestPipe.v): the decoders are ORACLES (any responses flushed through the handlers, then nil / any error / panic); what an oracle cannot do "
        "is touch the channel itself or keep running after Decode returned. Go's semantics of panic/recover/defer, close and send on a closed channel, and the "
        "rendezvous of an unbuffered channel as interpreted by run_prog / sys_run (compared with the real runtime by harness pipefuzz on scripted decoders)",
        "C05: reasons on the allow-lists of panic-capable expressions outside the recover scopes (site_allow_list), of the non-literal onEntries call sites "
        "(entries_call_allow) and the static types of the stored context values (ctx_writers_model) are by reading; the inventories themselves are regenerated "
        "and compared on every run",
        "C05 (model/IngestFraming.v): compress/gzip and golang/snappy readers below helpers.LimitDecoded are ORACLES (any chunking, any error at any point); "
        "io.ReadAll's loop (read until an error, EOF = success) as read",
        "C05 (model/IngestShared.v): InsertServiceV2's Request / swapBuffers as read, fetchLoopIteration regenerated since round 6 (one mutex, columns and waiting promises swapped together, "
        "every waiting promise gets the verdict of client.Do); ch-go proto.Block.EncodeRawBlock refuses a block iff a column's row count differs from the first column's "
        "(the harness sharedbatch runs the real encoder); the decoder programs keep only the statements that change slice lengths / counters (translate/goroutines_writer_src/decoders.go); "
        "x[:len(y)] is treated as a panic when len(y) > len(x) although Go allows up to cap(x); the Loki JSON and Datadog series decoders (jx callbacks) still rest on the syntactic lockstep verdict",
        "C05 (model/IngestConn.v): fetchLoopIteration / ping are regenerated at statement level (text shapes of translate/goroutines_writer_src/service.go: a statement is 'plain' "
        "when it has no return / go / panic and names none of client, V3Session, swapBuffers, results, portion.res, waiting, releaseWaiting, insertCtx, mtx -- calls made by plain "
        "statements (OnBeforeInsert, stat.*, IngestSize) are trusted to return); Request / swapBuffers as read; retry.Do (third party) calls its function up to RetryAttempts times; "
        "a database that never accepts a dial again is outside the fairness assumption (doPush has no deadline); harness conndown stops the asynchronous half of every multimodal "
        "service (doPush uses INSERT_MODE_SYNC only) and runs with RetryAttempts 3",
    ]
    okgen = run_translator(ck)
    # run_translator has built the .vo files the case evaluations load (models + gen); the two compilations of props/C05.v
    # (build, then afresh for the Print Assumptions output: ~18 s each) run beside the harnesses
    import threading
    props_thread = None
    if okgen:
        def props_job():
            try:
                ck.coq_props()
            except Exception as e:      # an exception in a thread would otherwise only be printed
                ck.obligation("props/C05.v compiled and the assumptions of its theorems were read", False, repr(e))
        props_thread = threading.Thread(target=props_job)
        props_thread.start()
    else:
        ck.theorems = []
    try:
        run_streams(ck)
    finally:
        if props_thread is not None:
            props_thread.join()


def run_streams(ck):
    rp = json.load(open(ck.replay)) if ck.replay else {}
    conn = conn_start(ck)
    try:
        if "conn_case" not in rp:
            run_other_streams(ck, rp)
    finally:
        run_conn(ck, conn)


def run_other_streams(ck, rp):
    if not ("pipe_case" in rp or "limread_case" in rp or "shared_case" in rp):
        run_harness(ck)
        if not ck.replay:
            run_stall(ck)
    if "limread_case" not in rp and "shared_case" not in rp:
        run_pipe(ck)
    run_shared(ck)
    if "shared_case" not in rp:
        run_limread(ck)
    for fid, what in ck.known_findings().items():
        pass  # no open finding for C05: defects 8 and 9 are fixed (findings.d/C05.txt)
