"""C15, Pyroscope JSON bodies (reader/controller/profController.go) — correspondence and failing-input search.

model/JsonPyro.v models
  (a) writeResponse -> defaultMarshaller for a JSON client: protojson.Marshal of the LabelNames / LabelValues / Series /
      ProfileTypes / SelectSeries response messages as the handlers and ProfService fill them (own escaper, the
      per-binary coin of internal/detrand for the space after commas, Marshal refusing ill-formed UTF-8 -> status 500),
  (b) RenderDiff: json.NewEncoder(w).Encode(diff.FlamebearerProfileV1) (encoding/json struct walk + line break),
  (c) defaultError: strconv.Quote(message) as the body.
Harness pyrojson drives the real handlers over the real ProfService and a scripted database/sql driver. Inside Coq:
  pyro_mismatches      : model status / bytes <> status / bytes of the implementation (byte exact, the coin is an input)
  pyro_spec_violations : status 200: parse_bytes rejects the REAL body or the document differs (json_eq) from the document
                         of the rows; other status: the body is not one JSON string; error texts: not the JSON string
                         of the message
  pyro_refusals        : the rows did not come back (status 500 because a stored string is not UTF-8)
  pyro_unreadables     : compared with encoding/json.Valid (two independent readers must agree on every body)
"""
import binascii
import json
import os
import re

PID = "C15"

KIND = {"pyronames": "names", "pyrovalues": "values", "pyroseries": "series", "pyrotypes": "types", "pyroselect": "select",
        "pyrodiff": "diff", "pyrofb": "diff", "pyroerr": "err"}

# ids under which the two defects of this slice are listed in findings.d/C15.txt while they are not repaired
F_ERRBODY = "pyro-error-body-strconv-quote"
F_UTF8 = "pyro-invalid-utf8-answered-500"


def unhex(s):
    return binascii.unhexlify(s or "")


def esc(b):
    """bytes -> field text of the case transport (as checks/c15.py): printable ASCII except the double quote, bar and tilde stays, the rest is ~xx"""
    if isinstance(b, str):
        b = b.encode()
    return "".join(chr(c) if (32 <= c < 127 and c not in (34, 124, 126)) else "~%02x" % c for c in b)


def case_to_line(c):
    """id | kind | coin | status | #items { item } | out   (decoded by decode_pcase in model/JsonPyro.v)"""
    items = c.get("items") or []
    f = [str(c["id"]), KIND[c["kind"]], str(c.get("coin", 0)), str(c["status"]), str(len(items))]
    f += [esc(unhex(it)) for it in items]
    f.append(esc(unhex(c["out"])))
    return '"' + "|".join(f) + '"'


def eval_cases(ck, name, cases):
    txt = ("From Coq Require Import List NArith ZArith Bool.\nFrom Qryn Require Import model.JsonStream model.JsonPyro.\n"
           "Import ListNotations.\nOpen Scope lb_scope.\n"
           "Definition raw : list lbytes := [\n  " + ";\n  ".join(case_to_line(c) for c in cases) + "].\n"
           "Definition res := Eval vm_compute in (let cases := decode_pcases raw in\n"
           "  (Z.of_nat (pundecodable raw) :: nil, pyro_mismatches cases, pyro_spec_violations cases, pyro_refusals cases, pyro_unreadables cases)).\n"
           "Definition U := Eval vm_compute in fst (fst (fst (fst res))).\nPrint U.\n"
           "Definition M := Eval vm_compute in snd (fst (fst (fst res))).\nPrint M.\n"
           "Definition V := Eval vm_compute in snd (fst (fst res)).\nPrint V.\n"
           "Definition F := Eval vm_compute in snd (fst res).\nPrint F.\n"
           "Definition R := Eval vm_compute in snd res.\nPrint R.\n")
    rc, out = ck.coq_eval(name, txt)
    if rc != 0:
        return None, out
    flat = " ".join(out.split())
    res = []
    for nm in ("U", "M", "V", "F", "R"):
        m = re.search(nm + r" = \[(.*?)\]\s*: list Z", flat)
        if not m:
            return None, out
        res.append([int(x) for x in re.findall(r"-?\d+", m.group(1))])
    if res[0] != [0]:
        return None, "%d case(s) could not be decoded by decode_pcase\n" % res[0][0] + out
    return res[1:], out


def case_size(c):
    return (len(c.get("items") or []), len(c["out"]))


def strip_case(c):
    """the replayable part of a case (inputs only; the harness recomputes items and observations)"""
    return {"id": c["id"], "kind": c["kind"], "class": c.get("class", ""), "in": c.get("in") or {}, "note": c.get("note", "")}


def describe(c):
    return {"kind": c["kind"], "class": c.get("class"), "status": c["status"], "content_type": c.get("ct", ""),
            "model_input": [unhex(it).decode("latin1") for it in c.get("items") or []],
            "body": unhex(c["out"]).decode("latin1")}


def req_text(c):
    """the request of an error case, readable"""
    q = (c.get("in") or {}).get("req")
    if not q:
        return "RenderDiff over a scripted tree (%s)" % (c.get("note") or c["kind"])
    if q["handler"] == "renderdiff":
        return "GET /pyroscope/render-diff?" + "&".join("%s=%s" % (k, repr(unhex(v).decode("latin1"))[1:-1]) for k, v in sorted((q.get("params") or {}).items()))
    return "POST %s with the JSON body %r" % (q["handler"], unhex(q.get("body")).decode("latin1"))


def run_pyro(ck):
    if not ck.go_build("pyrojson"):
        ck.obligation("harness pyrojson builds against the repository", False, ck.build_out[-1500:])
        return
    root = os.path.dirname(os.path.dirname(__file__))
    cases = []

    def rerun(path, tag, base, mark):
        outp = os.path.join(ck.work, "pyro_%s_out.jsonl" % tag)
        rc, out = ck.go_run("pyrojson", ["--cases", path, "--out", outp])
        if rc != 0:
            ck.obligation("harness pyrojson ran the %s cases" % tag, False, out[-1500:])
            return []
        cs = [json.loads(l) for l in open(outp)]
        for i, c in enumerate(cs):
            c["id"] = base + i
            if mark:
                c["class"] = mark + c.get("class", "")
        return cs

    corpus = os.path.join(root, "corpus", PID, "pyro.jsonl")
    if os.path.exists(corpus):
        cases += rerun(corpus, "corpus", 3000000, "corpus:")
    if ck.replay:
        rp = json.load(open(ck.replay))
        if str((rp.get("case") or {}).get("kind", "")).startswith("pyro"):
            rc_path = os.path.join(ck.work, "pyro_replay.jsonl")
            with open(rc_path, "w") as f:
                f.write(json.dumps(rp["case"]) + "\n")
            cases += rerun(rc_path, "replay", 4000000, "")
    n = ck.n(150, 3000)
    outp = os.path.join(ck.work, "pyro_gen.jsonl")
    rc, out = ck.go_run("pyrojson", ["--seed", ck.seed, "--n", n, "--out", outp])
    if rc != 0:
        ck.obligation("harness pyrojson ran", False, out[-1500:])
        return
    cases += [json.loads(l) for l in open(outp)]
    byid = {c["id"]: c for c in cases}

    panics = [c for c in cases if c.get("panic")]
    for c in sorted(panics, key=case_size)[:1]:
        ck.violation({"property": PID, "kind": "panic in a Pyroscope handler", "case": strip_case(c), "panic": c["panic"],
                      "replay": "bin/check C15 --replay <this file>"})
    ok_cases = [c for c in cases if not c.get("panic")]

    mism, viol, refused, unread = [], [], [], []
    shard = 80
    from concurrent.futures import ThreadPoolExecutor
    with ThreadPoolExecutor(max_workers=4) as ex:
        results = list(ex.map(lambda k: eval_cases(ck, "C15_pyro_%d" % (k // shard), ok_cases[k:k + shard]), range(0, len(ok_cases), shard)))
    for res, out in results:
        if res is None:
            ck.obligation("Pyroscope cases evaluated inside Coq", False, out[-1500:])
            return
        mism += res[0]
        viol += res[1]
        refused += res[2]
        unread += res[3]

    known = ck.known_findings()
    is_err = lambda i: byid[i]["kind"] == "pyroerr"
    err_viol = [i for i in viol if is_err(i)]
    doc_viol = [i for i in viol if not is_err(i)]

    ck.obligation("Pyroscope bodies: model status and bytes (protojson walk with the coin of this binary, encoding/json walk of FlamebearerProfileV1 "
                  "+ line break, strconv.Quote / json.Marshal of error texts) = what the real handlers sent, on %d responses" % len(ok_cases),
                  not mism and not panics, "mismatching case ids: %s" % mism[:10])
    ck.obligation("Pyroscope spec oracle: every body answered with status 200 is one JSON document equal to the document of its rows "
                  "(LabelNames, LabelValues, Series, ProfileTypes, SelectSeries, RenderDiff); every other body is one JSON string",
                  not doc_viol, "violating case ids: %s" % doc_viol[:10])
    unread_s = set(unread)
    disagree = [c["id"] for c in ok_cases if c["valid"] == (c["id"] in unread_s)]
    ck.obligation("Pyroscope bodies: the Coq JSON reader and encoding/json.Valid agree on every body", not disagree, "case ids: %s" % disagree[:10])
    noerr = [c["id"] for c in ok_cases if c["kind"] == "pyroerr" and c.get("note") == "no error"]
    ck.obligation("Pyroscope error requests: every generated request is answered through defaultError", not noerr, "case ids: %s" % noerr[:10])

    # (c) the error body
    if err_viol:
        worst = min((byid[i] for i in err_viol), key=case_size)
        what = ("defaultError writes strconv.Quote(message): %s is answered with the body %r, which is not JSON"
                % (req_text(worst), unhex(worst["out"]).decode("latin1")))
        if F_ERRBODY in known:
            ck.report_known(F_ERRBODY, what)
            ck.obligation("Pyroscope error bodies are the JSON string of the message (known finding %s reproduced on %d requests)" % (F_ERRBODY, len(err_viol)), True)
        else:
            ck.obligation("Pyroscope error bodies are the JSON string of the message", False, "case ids: %s; %s" % (err_viol[:10], what))
            ck.violation({"property": PID, "kind": "Pyroscope error body is not a JSON document", "case": strip_case(worst), "observed": describe(worst),
                          "explanation": "reader/controller/profController.go defaultError writes strconv.Quote(message) with Content-Type application/json; "
                                         "strconv's escapes \\x.., \\a, \\v, \\U........ are not JSON (model: pyro_error_body_refuted)",
                          "replay": "bin/check C15 --replay <this file>"})
    else:
        ck.obligation("Pyroscope error bodies are the JSON string of the message", True)

    # ill-formed UTF-8 in a stored string: the whole answer is a 500
    if refused:
        worst = min((byid[i] for i in refused), key=case_size)
        what = ("a %s response holding a string that is not UTF-8 is answered with status 500 and %r instead of its rows"
                % (worst["kind"][4:], unhex(worst["out"]).decode("latin1")))
        if F_UTF8 in known:
            ck.report_known(F_UTF8, what)
            ck.obligation("Pyroscope rows holding any bytes come back (known finding %s reproduced on %d responses)" % (F_UTF8, len(refused)), True)
        else:
            ck.obligation("Pyroscope rows holding any bytes come back", False, "case ids: %s; %s" % (refused[:10], what))
            ck.violation({"property": PID, "kind": "Pyroscope response refused because a stored string is not UTF-8", "case": strip_case(worst),
                          "observed": describe(worst),
                          "explanation": "protojson.Marshal (and proto.Marshal) fail on a string field that is not valid UTF-8; writeResponse then answers 500 "
                                         "for the whole request (model: pyro_any_bytes_refuted)",
                          "replay": "bin/check C15 --replay <this file>"})

    if doc_viol:
        worst = min((byid[i] for i in doc_viol), key=case_size)
        ck.violation({"property": PID, "kind": "Pyroscope response body is not the one well-formed document of its rows",
                      "case": strip_case(worst), "observed": describe(worst),
                      "explanation": "pyro_violation (model/JsonPyro.v: parse_bytes + json_eq against the document of the rows) rejects the bytes the real handler sent",
                      "replay": "bin/check C15 --replay <this file>"})
    elif mism or disagree or noerr:
        worst = min((byid[i] for i in (mism or disagree or noerr)), key=case_size)
        ck.violation({"property": PID, "kind": "Pyroscope model/implementation disagree; the body is still the intended document",
                      "case": strip_case(worst), "observed": describe(worst), "broken": "correspondence JsonPyro vs handler bytes"},
                     no_input=True)

    # coverage
    distinct = set()
    hist, kinds, cts = {}, {}, {}
    for c in cases:
        hist[c["class"]] = hist.get(c["class"], 0) + 1
        kinds[c["kind"]] = kinds.get(c["kind"], 0) + 1
        k = "%s %d %s" % (c["kind"], c["status"], c.get("ct") or "(none)")
        cts[k] = cts.get(k, 0) + 1
        if len(c.get("items") or []) >= 3 or (c["kind"] == "pyroerr" and len(c["out"]) > 8):
            distinct.add(c["kind"] + c["out"])
    ck.coverage["evaluations"] += len(cases)
    ck.coverage["distinct_nontrivial"] += len(distinct)
    ck.coverage["rule"] += ("Pyroscope bodies: 0..7 label names / values, 0..3 series or profile-type rows with 0..2 tags, 0..3 series of 1..3 points "
                            "(fingerprints 0 / repeated, int64 extremes, special floats) over printable text, quotes, backslashes, control bytes, DEL, HTML characters, "
                            "multi-byte UTF-8, U+2028/9, empty strings, duplicates, ill-formed UTF-8 in one case of five; FlamebearerProfileV1 values of any content "
                            "(names of any bytes, 0..4 levels of 0..8 ints, nil / empty slices and maps, timeline, groups, heat map) and the values ProfService.RenderDiff "
                            "returns over scripted trees; requests answered through defaultError whose text echoes request bytes; "
                            "non-trivial = at least 3 model input items (an error request: a text of more than 2 bytes); distinct by kind+body. ")
    ck.extra["pyro_input_distribution"] = {"kinds": kinds, "classes": hist, "status and Content-Type sent": cts,
                                           "detrand coin of the harness binary (space after commas)": sorted(set(c.get("coin", 0) for c in cases)),
                                           "answered 500 because of ill-formed UTF-8": len(refused), "error bodies that are not JSON": len(err_viol)}
    ck.add_samples([describe(c) for c in cases[:2]])
