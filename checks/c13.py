"""C13 — every read is confined to the requested time window and signal type.

Part 1 (planner model): props/C13.v proves, for every LogQL log query and every planner context,
what holds of every base-table read of the statement the planner model builds (coq/model/Scans.v:
scans, scan_bounded); the model is tied to the Go planners byte for byte by sqltext.run_logql.
Part 2 (every endpoint): harness/cmd/readscan runs every read endpoint of the real reader router
under a sweep of process time zones, request windows and both table layouts and records every SQL
statement reaching the database. Each statement is parsed (harness/sqlparse, untrusted), the parse is
validated by the model side (render (parse s) = s, wf_parsed), and the oracle scan_failures — proved
sound against the declarative scan_bounded — is evaluated on it (through the OCaml extraction; a
sample per endpoint also inside Coq with vm_compute).
"""
import json
import os
import re

from vcheck import coq_string

VERIF = os.path.dirname(os.path.dirname(os.path.abspath(__file__)))

CODES = {1: "no-ts-lower", 2: "ts-lower-tight", 3: "ts-lower-wide", 4: "no-ts-upper", 5: "ts-upper-tight",
         6: "ts-upper-wide", 7: "no-date-lower", 8: "date-lower-tight", 9: "date-upper-tight",
         10: "no-type", 11: "type-misses", 12: "type-other-signal", 13: "unknown-table"}
API_TYPE = {"logs": 1, "metrics": 2, "traces": 0, "profiles": 0}
BIG = 1 << 61


def window_of(l):
    if l["no_window"]:
        return (0, BIG, 0, BIG, API_TYPE[l["api"]])
    return (l["from_ns"], l["to_ns"], l["from_ns"] - l["widen_lo"], l["to_ns"] + l["widen_hi"], API_TYPE[l["api"]])


def window_ml(w):
    return "{ w_from = (z (%d)); w_to = (z (%d)); w_lo_min = (z (%d)); w_hi_max = (z (%d)); w_type = (z (%d)) }" % w


def window_coq(w):
    return "{| w_from := %d; w_to := %d; w_lo_min := %d; w_hi_max := %d; w_type := %d |}" % w


def ml_str(b):
    if isinstance(b, str):
        b = b.encode("utf8", "surrogateescape")
    out = []
    for c in b:
        if 32 <= c < 127 and c not in (34, 92):
            out.append(chr(c))
        else:
            out.append("\\%03d" % c)
    return '(s "' + "".join(out) + '")'


# ---------------------------------------------------------------- the statement text the tree must render to
def skip_quote(s, i):
    q = s[i]
    i += 1
    while i < len(s):
        if s[i] == "\\" and q == "'":
            i += 2
            continue
        if s[i] == q:
            return i + 1
        i += 1
    return len(s)


def match_paren(s, i):
    depth = 0
    while i < len(s):
        c = s[i]
        if c in "'`":
            i = skip_quote(s, i)
            continue
        if c in "([":
            depth += 1
        elif c in ")]":
            depth -= 1
            if depth == 0:
                return i
        i += 1
    return -1


def normalize(s):
    """drops the redundant inner pair of parentheses of `alias as (( SELECT ... ))` and the parentheses around the members of
    `alias as ((S1) UNION ALL (S2))` (trusted, mirrors sqlparse.Normalize): the Select object of Sql.v prints a WITH body in
    exactly one pair and a UNION ALL without parentheses around its members"""
    out = []
    i = 0
    while i < len(s):
        if s[i] in "'`":
            j = skip_quote(s, i)
            out.append(s[i:j])
            i = j
            continue
        if s.startswith(" as ((", i):
            outer = i + 4
            oc = match_paren(s, outer)
            ic = match_paren(s, outer + 1)
            body = s[outer + 2:ic]
            if oc > 0 and ic == oc - 1 and (body.startswith(" SELECT ") or body.startswith("WITH ")):
                out.append(" as (" + normalize(body) + ")")
                i = oc + 1
                continue
            # alias as ((S1) UNION ALL (S2) ...): the members of the profile planners' unionAll wrapper are printed in parentheses
            if oc > 0:
                members, pos = [], outer + 1
                while pos < oc and s[pos] == "(":
                    c = match_paren(s, pos)
                    m = s[pos + 1:c]
                    if c < 0 or not (m.startswith(" SELECT ") or m.startswith("WITH ")):
                        members = []
                        break
                    members.append(m)
                    pos = c + 1
                    if s.startswith(" UNION ALL ", pos):
                        pos += len(" UNION ALL ")
                        continue
                    break
                if len(members) >= 2 and pos == oc:
                    out.append(" as (" + " UNION ALL ".join(normalize(m) for m in members) + ")")
                    i = oc + 1
                    continue
        out.append(s[i])
        i += 1
    return "".join(out)


# ---------------------------------------------------------------- evaluation
def eval_ocaml(ck, name, stmts):
    """{id: dict(render_ok, wf, nscans, report=[(table, [codes])], rendered)} through the extracted oracle;
    the statements travel in a data file (compiling them as OCaml literals takes ~0.15 s each)"""
    data = os.path.join(ck.work, name + ".data")
    with open(data, "wb") as f:
        for l in stmts:
            w = window_of(l)
            sql = normalize(l["sql"]).encode("utf8", "surrogateescape")
            f.write(("%d %d %d %d %d %d %d:" % ((l["id"],) + w + (len(sql),))).encode())
            f.write(sql)
            f.write(b" " + l["tree_sx"].encode("utf8", "surrogateescape") + b"\n")
    rc, out = ck.ocaml_eval(name, "ExtractScans.v", "scans", 'let data_file = "%s"\n' % data, "scans_driver.ml")
    if rc != 0:
        return None, out
    res = {}
    for ln in out.splitlines():
        head, _, rendered = ln.partition(" | ")
        parts = head.split(" ")
        if len(parts) < 4:
            continue
        rep = []
        if len(parts) > 4 and parts[4]:
            for item in parts[4].split(";"):
                t, _, codes = item.partition(":")
                rep.append((bytes.fromhex(t).decode("utf8", "replace"), [int(c) for c in codes.split(",") if c]))
        res[int(parts[0])] = {"render_ok": parts[1] == "1", "wf": parts[2] == "1", "nscans": int(parts[3]), "report": rep,
                              "rendered": bytes.fromhex(rendered.strip()).decode("utf8", "replace") if rendered.strip() else None}
    return res, out


COQ_HDR = ("From Coq Require Import List ZArith NArith String Ascii Bool.\n"
           "From Qryn Require Import lib.Strs model.Sql model.SqlRender model.Scans model.ScanCases.\n"
           "Import ListNotations.\nOpen Scope string_scope.\nOpen Scope Z_scope.\n")


def eval_coq(ck, name, stmts):
    """the same verdicts computed by the Coq kernel (vm_compute) for a sample: (bad_parse ids, unbounded ids)"""
    cases = ["{| c_id := %d; c_win := %s; c_tree := %s; c_sql := %s |}" % (
        l["id"], window_coq(window_of(l)), l["tree_coq"], coq_string(normalize(l["sql"]))) for l in stmts]
    txt = (COQ_HDR + "Definition cases : list stmt_case := [\n " + ";\n ".join(cases) + "].\n"
           "Definition P := Eval vm_compute in bad_parses cases.\nPrint P.\n"
           "Definition U := Eval vm_compute in unbounded_stmts cases.\nPrint U.\n")
    rc, out = ck.coq_eval(name, txt, timeout=1200)
    if rc != 0:
        return None, None, out
    flat = " ".join(out.split())
    p = re.search(r"P = \[(.*?)\]\s*: list Z", flat)
    u = re.search(r"U = \[(.*?)\]\s*: list Z", flat)
    if not p or not u:
        return None, None, out
    ids = lambda m: [int(x) for x in re.findall(r"-?\d+", m.group(1))]
    return ids(p), ids(u), out


def table_base(t):
    t = t.split(".")[-1]
    return t[:-5] if t.endswith("_dist") else t


# ---------------------------------------------------------------- findings: which failures are recorded
SUBSEC = 1000000000


def classify_failure(l, table, code, info):
    """the id of the recorded finding that explains this failure, or None (=> VIOLATION).
    A failure is (endpoint, base table, failure, window); info = informational codes of the scan
    (100: restricted to keys of another select, 101: restricted to a literal key list)."""
    ep, tb, cn = l["ep"], table_base(table), CODES[code]
    subsec = l["from_ns"] % SUBSEC != 0 or l["to_ns"] % SUBSEC != 0
    if l["no_window"]:
        if ep in ("tempo_tags", "tempo_tag_values") and tb == "tempo_traces_kv" and cn == "no-date-lower":
            return "tempo-tags-without-window"
        if ep == "tempo_trace_nowindow" and tb == "tempo_traces" and cn in ("no-ts-lower", "no-ts-upper"):
            return "trace-by-id-without-window"
        if ep == "prof_stats" and tb in ("profiles", "profiles_series") and cn in ("no-ts-lower", "no-ts-upper", "no-date-lower"):
            return "profile-stats-whole-tables"
        return None
    # (label-filter-series-scan-unbounded - the time_series read of SimpleLabelFilterPlanner - was repaired in /repo: such a failure is a violation again)
    return None


def request_of(l):
    r = {"ep": l["ep"], "zone": l["zone"], "cluster": l["cluster"], "schema": l["schema"], "class": l["class"],
         "from_ns": l["win_from_ns"], "to_ns": l["win_to_ns"]}
    for k in ("gen", "pgen", "port"):     # generated request parameters (tempo_search_gen, prom_gen, portioned search with rows)
        if l.get(k):
            r[k] = l[k]
    return r


def judge(ck, lines, label):
    """evaluates every statement of a readscan run; returns (#statements, failures not explained by a finding)"""
    reqs = [l for l in lines if l["kind"] == "req"]
    stmts = [l for l in lines if l["kind"] == "stmt"]
    unparsed = [l for l in stmts if l.get("parse_err")]
    ck.obligation("%s: every recorded statement is parsed by harness/sqlparse (%d statements)" % (label, len(stmts)), not unparsed,
                  "; ".join("%s: %s :: %.200s" % (l["ep"], l["parse_err"], l["sql"]) for l in unparsed[:3]))
    panics = [r for r in reqs if r.get("panic")]
    ck.obligation("%s: no handler panicked" % label, not panics, "; ".join("%s %s" % (r["ep"], r["panic"]) for r in panics[:3]))
    good = [l for l in stmts if not l.get("parse_err")]
    res, out = eval_ocaml(ck, "scan_" + label, good)
    if res is None or any(l["id"] not in res for l in good):
        ck.obligation("%s: statements evaluated by the extracted oracle" % label, False, (out or "")[-2000:])
        return len(stmts), [], {}, {}
    bad_render = [l for l in good if not res[l["id"]]["render_ok"]]
    ck.obligation("%s: render (parse s) = s for every statement (parse validated by the model's printer)" % label, not bad_render,
                  "; ".join("%s: %.160s" % (l["ep"], l["sql"]) for l in bad_render[:3]))
    bad_wf = [l for l in good if not res[l["id"]]["wf"]]
    ck.obligation("%s: wf_parsed holds of every parse tree (no table read hidden in a raw leaf, CTE references bound)" % label, not bad_wf,
                  "; ".join("%s: %.160s" % (l["ep"], l["sql"]) for l in bad_wf[:3]))
    noscan = [l for l in good if res[l["id"]]["nscans"] == 0]
    ck.obligation("%s: every statement has at least one base-table read" % label, not noscan,
                  "; ".join("%s: %.160s" % (l["ep"], l["sql"]) for l in noscan[:3]))
    unexplained = []
    known = {}
    for l in good:
        for table, codes in res[l["id"]]["report"]:
            info = [c for c in codes if c >= 100]
            for c in codes:
                if c >= 100:
                    continue
                fid = classify_failure(l, table, c, info)
                if fid is None:
                    unexplained.append((l, table, c))
                else:
                    known.setdefault(fid, []).append((l, table, c))
    return len(stmts), unexplained, known, res


def violation_for(ck, fails, part):
    # smallest witness: UTC zone first, single node, fixed window classes, short statements
    def key(f):
        l = f[0]
        return (abs(l["zone"]), l["cluster"], l["class"] == "random", len(l["sql"]))
    l, table, code = min(fails, key=key)
    note = {}
    if table_base(table) == "metrics_15s":
        note["slot_table"] = ("metrics_15s is a slot table: a row stamped S holds the data of [S, S + 15 s), so `timestamp_ns >= lo` first reads the row "
                              "stamped at the next 15-second boundary at or above lo and `< hi` reads data up to the boundary at or above hi; the bounds are "
                              "judged after rounding up to the boundary (Scans.slot_bounded): ts-lower-tight = the slot holding the window start is not read")
    if "hint_from_ms" in l:
        note["selector_window_ms"] = [l["hint_from_ms"], l["hint_to_ms"]]
    ck.violation({"property": "C13", "part": part, "kind": "a base-table read is not confined to the requested window / signal", **note,
                  "failure": CODES[code], "table": table, "endpoint": l["ep"], "api": l["api"], "zone_seconds_east": l["zone"],
                  "cluster": l["cluster"], "window_class": l["class"], "requested_from_ns": l["from_ns"], "requested_to_ns": l["to_ns"],
                  "allowed_widening_ns": [l["widen_lo"], l["widen_hi"]], "statement": l["sql"],
                  "request": request_of(l), "other_failures": len(fails) - 1,
                  "replay": "bin/check C13 --replay <this file>   (re-runs request through harness readscan --cases)"})


def run_harness(ck, args, name):
    outp = os.path.join(ck.work, name + ".jsonl")
    rc, out = ck.go_run("readscan", args + ["--out", outp], timeout=3000)
    if rc != 0:
        ck.obligation("harness readscan ran (%s)" % name, False, out[-1500:])
        return None
    return [json.loads(x) for x in open(outp)]


ALL_FINDINGS = ["tempo-tags-without-window", "trace-by-id-without-window", "profile-stats-whole-tables"]


def report_known(ck, known, listed):
    unlisted = []
    for fid, fs in sorted(known.items()):
        l, table, code = fs[0]
        if fid in listed:
            eps = sorted({f[0]["ep"] for f in fs})
            ck.report_known(fid, "%d scans on %s (%s), e.g. %s zone %+ds window %s: %s" % (
                len(fs), table_base(table), ",".join(sorted({CODES[f[2]] for f in fs})), ",".join(eps[:4]), l["zone"], l["class"], listed[fid][:160]))
        else:
            unlisted += fs
    return unlisted


def theorem_of(l):
    """the theorem of props/C13.v that covers the builder of a recorded statement for ALL its inputs, or None when the
    statement is only judged (per recorded statement) by the oracle"""
    ep, sql = l["ep"], l["sql"]
    if ep in ("loki_tail",) or ep.startswith("loki_range_") or ep.startswith("loki_instant_"):
        return "every_scan_bounded / every_metric_scan_bounded (LogqlPlan)"
    if ep in LV_EPS:
        return "label_values_every_scan_bounded / series_every_scan_bounded (ScansPlanners)"
    if ep in ("loki_labels", "prom_labels"):
        return "label_names_every_scan_bounded (ScansPlanners.labels_query)"
    if ep.startswith("prom_range_") or ep.startswith("prom_instant") or ep == "prom_gen":
        if " FROM time_series" in sql and "JSONExtractKeysAndValues" in sql:
            return "prom_labels_fetch_every_scan_bounded (PromSel.labels_fetch)"
        return "prom_every_scan_bounded (PromSel.querier_transpile)"
    if ep in PROF_EPS:
        return "prof_every_scan_bounded (ReplanProf.pprocess)"
    if ep == "prof_types":
        return "profile_types_every_scan_bounded (ScansProf.profile_types_query)"
    if ep == "tempo_search_traceql_portions_rows":
        return ("traceql_estimate_every_scan_bounded (ScansTq.TE.plan_eval)" if sql.startswith("WITH pre_final") else
                "traceql_every_scan_bounded (TraceqlPlan.plan) + traceql_portions_keep_every_candidate (ScansPortions)")
    if ep in TQ_EPS and not sql.startswith("WITH pre_final"):
        return "traceql_every_scan_bounded (TraceqlPlan.plan)"
    if ep in TQ_EPS:
        return "traceql_estimate_every_scan_bounded (ScansTq.TE.plan_eval)"
    if ep in ("tempo_search_tags", "tempo_search_plain", "tempo_search_gen"):
        return "tempo_search_every_scan_bounded (ScansTempo.search_query)"
    if ep == "tempo_trace":
        return "tempo_trace_every_scan_bounded (ScansTempo.trace_query)"
    if ep in ("tempo_tags_v2", "tempo_values_v2"):
        return "traceql_all_tags_every_scan_bounded (ScansTq.TE.all_tags)"
    return None


def run_scan(ck):
    ok, out = ck.coq_make(["model/ScanCases.vo"])
    if not ok:
        ck.obligation("oracle model builds", False, out[-1500:])
        return
    if not ck.go_build("readscan"):
        ck.obligation("harness readscan builds against the repository", False, ck.build_out[-1500:])
        return
    listed = ck.known_findings()
    total = 0
    all_unexplained = []
    all_known = {}
    # 1. corpus: requests that witnessed the fixed defects (date bounds in the process zone / FormatFromDate(To))
    corpus = os.path.join(VERIF, "corpus", "C13", "fixed_requests.jsonl")
    runs = []
    if ck.replay:
        rp = json.load(open(ck.replay))
        cf = os.path.join(ck.work, "replay.cases")
        open(cf, "w").write(json.dumps(rp["request"]) + "\n")
        runs.append(("replay", ["--cases", cf]))
    else:
        if os.path.exists(corpus):
            runs.append(("corpus", ["--cases", corpus]))
        sweep = ["--seed", ck.seed, "--random-windows", ck.n(3, 40), "--tails", ck.n(2, 6), "--cluster", "both",
                 "--schemas", "new" if ck.quick() else "both", "--tempo-gen", ck.n(60, 1500), "--prom-gen", ck.n(48, 3000), "--port-gen", ck.n(40, 3000)]
        runs.append(("sweep", sweep))
    hist = {}
    split = {"statements_whose_builder_is_under_a_theorem_for_all_inputs": 0, "statements_judged_per_statement_only": 0,
             "by_theorem": {}, "judged_only_endpoints": {}}
    distinct = set()
    sample_lines = []
    coq_sample = []
    for name, args in runs:
        lines = run_harness(ck, args, name)
        if lines is None:
            return
        r = judge(ck, lines, name)
        n, unexplained, known, res = r
        total += n
        all_unexplained += unexplained
        for k, v in known.items():
            all_known.setdefault(k, []).extend(v)
        reqs = [l for l in lines if l["kind"] == "req"]
        if name == "sweep" and res:
            # the model-vs-recorded-text comparisons are independent Coq evaluations: run them side by side
            from concurrent.futures import ThreadPoolExecutor
            with ThreadPoolExecutor(max_workers=8) as ex:
                futs = [ex.submit(run_traceql_tie, ck, lines, res)] + [ex.submit(f, ck, lines) for f in
                        (run_estimate_tie, run_label_tie, run_prof_tie, run_tempo_tie, run_prom_tie, run_prom_window_tie, run_portions_tie)]
                for f in futs:
                    f.result()
        if name != "sweep":
            run_portions_tie(ck, lines, required=False)
        if name == "sweep":
            # every endpoint must have been exercised: a request that stops answering with SQL is a silent loss of coverage
            by_ep = {}
            for q in reqs:
                by_ep.setdefault(q["ep"], []).append(q)
            dead = [ep for ep, qs in by_ep.items() if not any(q.get("nstmts", 0) > 0 for q in qs)]
            ck.obligation("every endpoint of the sweep reached the database (%d endpoints)" % len(by_ep), not dead and len(by_ep) >= 50,
                          "no statement recorded for: %s; %s" % (dead, "; ".join("%s -> %s %s" % (q["ep"], q.get("status"), q.get("body", "")[:80]) for ep in dead for q in by_ep[ep][:1])))
            failed = [q for q in reqs if q.get("status", 0) >= 400]
            ck.obligation("no request of the sweep was rejected", not failed, "; ".join("%s %s %s" % (q["ep"], q["status"], q.get("body", "")[:100]) for q in failed[:3]))
        for l in lines:
            if l["kind"] != "stmt":
                continue
            hist[l["ep"]] = hist.get(l["ep"], 0) + 1
            th = theorem_of(l)
            if th:
                split["statements_whose_builder_is_under_a_theorem_for_all_inputs"] += 1
                split["by_theorem"][th] = split["by_theorem"].get(th, 0) + 1
            else:
                split["statements_judged_per_statement_only"] += 1
                split["judged_only_endpoints"][l["ep"]] = split["judged_only_endpoints"].get(l["ep"], 0) + 1
            if res.get(l["id"], {}).get("nscans", 0) >= 1:
                distinct.add(l["sql"])
            if l.get("tree_coq") and not l["cluster"] and name == "sweep":
                coq_sample.append((l, res.get(l["id"])))
        sample_lines += [l for l in lines if l["kind"] == "stmt"][:2]
    # 2. a sample of the same verdicts computed by the Coq kernel (vm_compute), compared with the extraction's
    coq_sample.sort(key=lambda p: len(p[0]["sql"]))
    seen_ep = set()
    picked = []
    for l, r in coq_sample:
        fam = l["ep"]
        if fam in seen_ep or r is None:
            continue
        seen_ep.add(fam)
        picked.append((l, r))
        if len(picked) >= ck.n(60, 120):
            break
    if picked:
        bp, ub, out = eval_coq(ck, "C13_sample", [l for l, _ in picked])
        if bp is None:
            ck.obligation("sample of statements evaluated inside Coq", False, (out or "")[-1500:])
        else:
            want_ub = sorted(l["id"] for l, r in picked if any(c < 100 for _, cs in r["report"] for c in cs))
            ck.obligation("Coq kernel (vm_compute) and extraction agree on %d sampled statements: parse validated, same unbounded set" % len(picked),
                          bp == [] and sorted(ub) == want_ub, "bad parses %s; unbounded %s vs %s" % (bp, sorted(ub), want_ub))
    # 3. verdict
    unlisted = report_known(ck, all_known, listed)
    all_unexplained += unlisted
    ck.obligation("oracle scan_failures accepts every base-table read of %d recorded statements (recorded findings apart)" % total,
                  not all_unexplained,
                  "; ".join("%s zone %+d %s %s: %s on %s" % (l["ep"], l["zone"], "cluster" if l["cluster"] else "single", l["class"], CODES[c], table_base(t))
                            for l, t, c in all_unexplained[:6]))
    if all_unexplained:
        violation_for(ck, all_unexplained, "recorded statements")
    ck.coverage["evaluations"] += total
    ck.coverage["distinct_nontrivial"] += len(distinct)
    ck.coverage["rule"] += ("readscan: every read endpoint of the reader router (Loki query_range/query/tail/labels/values/series, Prometheus "
                            "labels/values/series/query_range/query with raw, downsampled and range-function selects, Tempo trace/tags/values/search by "
                            "tags and TraceQL, Pyroscope types/labels/values/merge/series/stats/analyze/render-diff) x 5 process time zones x both table "
                            "layouts x 12 fixed windows (midnight, month/year end, leap day, first half hour, sub-second) + seeded random windows; "
                            "non-trivial = statement with at least one base-table read, distinct by SQL text; every statement is judged by the oracle; the builders of the "
                            "LogQL, label names / values / series, Prometheus Select, TraceQL (search, tags, values, complexity estimate), Tempo v1 search / trace by id and "
                            "every Pyroscope statement are in addition under theorems for all inputs (extra.proved_vs_judged has the measured split); judged per statement "
                            "only: the window-less Tempo v1 tag statements, trace by id without window and profile stats (recorded findings). ")
    ck.extra["statements_per_endpoint"] = hist
    ck.extra["proved_vs_judged"] = split
    ck.extra["statements_checked_by_oracle"] = total
    ck.extra["known_finding_hits"] = {k: len(v) for k, v in all_known.items()}
    ck.add_samples([{"endpoint": l["ep"], "zone": l["zone"], "window": [l["from_ns"], l["to_ns"]], "sql": l["sql"][:400]} for l in sample_lines[:3]])


# ---------------------------------------------------------------- TraceQL: planner model vs recorded statement
TQ_EPS = {"tempo_search_traceql": ("RQ.simple", "TraceqlPlan.MSearch", 20),
          "tempo_search_traceql_portions": ("RQ.simple", "TraceqlPlan.MSearch", 20),
          "tempo_search_traceql_attrless": ("RQ.attrless", "TraceqlPlan.MSearch", 20),
          "tempo_search_traceql_complex": ("RQ.complex", "TraceqlPlan.MSearch", 20),
          "tempo_tags_v2_q": ("RQ.a_only", "TraceqlPlan.MTags", 2000),
          "tempo_values_v2_q": ("RQ.a_only", '(TraceqlPlan.MValues ".service.name")', 2000)}
TQ_TABLE = {"tempo_traces": 1, "tempo_traces_attrs_gin": 2, "tempo_traces_kv": 3}


def utc_day(ns):
    import datetime
    return (datetime.datetime(1970, 1, 1) + datetime.timedelta(seconds=ns // 1000000000)).strftime("%Y-%m-%d")


def run_traceql_tie(ck, lines, res):
    """the statement the planner model builds for the TraceQL requests of the sweep gives the same set of
    (table, failures) verdicts through tq_scans as the recorded statement through scans (parse): the planner
    theorems of props/C13.v speak about the statements that were sent"""
    cases, seen = [], set()
    for l in lines:
        if l["kind"] != "stmt" or l["ep"] not in TQ_EPS or l.get("parse_err") or l["id"] not in res:
            continue
        sql = l["sql"]
        if sql.startswith("WITH pre_final"):      # the complexity estimate: another planner (judged per statement)
            continue
        m = re.search(r"cityHash64\(trace_id\) % (\d+)\) == \((\d+)\)", sql)
        rf = (int(m.group(1)), int(m.group(2))) if m else (0, 0)
        exp = sorted({(TQ_TABLE.get(table_base(t), 0), tuple(c for c in cs if c < 100)) for t, cs in res[l["id"]]["report"]})
        key = (l["ep"], l["cluster"], l["from_ns"], l["to_ns"], rf, tuple(exp))
        if key in seen:
            continue
        seen.add(key)
        cases.append((l, rf, exp))
    if not cases:
        ck.obligation("TraceQL statements of the sweep compared with the planner model", False, "no statement found")
        return
    dates = sorted({utc_day(x) for l, _, _ in cases for x in (l["from_ns"], l["to_ns"], l["from_ns"] - 1800 * 10**9, l["to_ns"] - 1800 * 10**9)})
    dn = {d: "d_%d" % i for i, d in enumerate(dates)}
    hdr = ("From Coq Require Import List ZArith NArith String Ascii Bool.\n"
           "From Qryn Require Import lib.Strs model.Sql model.Scans model.ScansTq.\n"
           "From Qryn Require model.TqSql model.Traceql model.TraceqlPlan.\n"
           "Import ListNotations.\nOpen Scope string_scope.\nOpen Scope Z_scope.\n"
           + "".join('Definition %s := "%s".\n' % (n, d) for d, n in dn.items()) +
           "Definition mk (f t : Z) (fd td ffd fft : string) (lim : Z) (cl : bool) (rfm rfi : Z) : TraceqlPlan.ctx :=\n"
           "  {| TraceqlPlan.from_ns := f; TraceqlPlan.to_ns := t; TraceqlPlan.from_date := fd; TraceqlPlan.to_date := td;\n"
           "     TraceqlPlan.ffd_from := ffd; TraceqlPlan.ffd_to := fft; TraceqlPlan.limit := lim; TraceqlPlan.is_cluster := cl;\n"
           "     TraceqlPlan.rf_max := rfm; TraceqlPlan.rf_i := rfi; TraceqlPlan.cached := [];\n"
           '     TraceqlPlan.attrs_table := "tempo_traces_attrs_gin"; TraceqlPlan.attrs_dist_table := "tempo_traces_attrs_gin_dist";\n'
           '     TraceqlPlan.traces_table := "tempo_traces"; TraceqlPlan.traces_dist_table := "tempo_traces_dist";\n'
           '     TraceqlPlan.kv_dist_table := "tempo_traces_kv_dist" |}.\n')
    items = []
    for i, (l, rf, exp) in enumerate(cases):
        q, mode, lim = TQ_EPS[l["ep"]]
        f, t = l["from_ns"], l["to_ns"]
        ctx = "(mk %d %d %s %s %s %s %d %s %d %d)" % (f, t, dn[utc_day(f)], dn[utc_day(t)], dn[utc_day(f - 1800 * 10**9)], dn[utc_day(t - 1800 * 10**9)],
                                                      lim, "true" if l["cluster"] else "false", rf[0], rf[1])
        e = "[" + "; ".join("(%d, [%s])" % (tb, "; ".join(str(c) for c in cs)) for tb, cs in exp) + "]"
        items.append("{| tc_id := %d; tc_ctx := %s; tc_q := %s; tc_mode := %s; tc_expected := %s |}" % (i, ctx, q, mode, e))
    txt = (hdr + "Definition cases : list tq_case := [\n " + ";\n ".join(items) + "].\n"
           "Definition M := Eval vm_compute in tq_case_mismatches cases.\nPrint M.\n"
           "Definition K := Eval vm_compute in tq_ctx_not_ok cases.\nPrint K.\n")
    rc, out = ck.coq_eval("C13_traceql", txt, timeout=600)
    flat = " ".join((out or "").split())
    m = re.search(r"M = \[(.*?)\]\s*: list Z", flat)
    k = re.search(r"K = \[(.*?)\]\s*: list Z", flat)
    if rc != 0 or not m or not k:
        ck.obligation("TraceQL planner model evaluated on the requests of the sweep", False, (out or "")[-1500:])
        return
    bad = [int(x) for x in re.findall(r"-?\d+", m.group(1))]
    notok = [int(x) for x in re.findall(r"-?\d+", k.group(1))]
    ck.obligation("correspondence: tq_scans (TraceqlPlan.plan q mode ctx) and scans (parse of the recorded statement) give the same verdicts "
                  "on %d distinct TraceQL search / tags / values requests (%d endpoints, both layouts, every window class)" % (len(cases), len({c[0]["ep"] for c in cases})),
                  not bad, "; ".join("%s %s [%d,%d): recorded %s" % (cases[i][0]["ep"], "cluster" if cases[i][0]["cluster"] else "single",
                                                                   cases[i][0]["from_ns"], cases[i][0]["to_ns"], cases[i][2]) for i in bad[:4]))
    ck.obligation("the hypothesis tq_ctx_ok of the TraceQL theorems (UTC date texts, window inside 1970..2100) holds of every compared request context",
                  not notok, "; ".join("%s [%d,%d)" % (cases[i][0]["ep"], cases[i][0]["from_ns"], cases[i][0]["to_ns"]) for i in notok[:4]))
    ck.extra["traceql_model_ties"] = len(cases)
    ck.coverage["evaluations"] += len(cases)


def run_estimate_tie(ck, lines):
    """text of the model's complexity-estimate statement (TE.plan_eval) and of the tags statement without a query
    (TE.all_tags) = recorded statement, byte for byte"""
    cases, seen = [], set()
    tcases, tseen = [], set()
    tclasses = ("plain-noon", "cross-midnight", "first-half-hour", "month-end", "two-days", "random", "leap-day", "late-utc")
    for l in lines:
        if l["kind"] != "stmt" or l["zone"] not in (0, 10800):
            continue
        if l["ep"] in TQ_EPS and not l["sql"].startswith("WITH pre_final"):
            # the statement whose rows are returned: one window class per (endpoint, layout, portion)
            m = re.search(r"cityHash64\(trace_id\) % (\d+)\) == \((\d+)\)", l["sql"])
            rf = (int(m.group(1)), int(m.group(2))) if m else (0, 0)
            tkey = (l["ep"], l["cluster"], rf)
            if tkey not in tseen and l["class"] == tclasses[(len(l["ep"]) + rf[1] + (2 if l["cluster"] else 0)) % len(tclasses)]:
                tseen.add(tkey)
                tcases.append((l, rf))
            continue
        est = l["ep"] in TQ_EPS and l["sql"].startswith("WITH pre_final")
        if not est and l["ep"] not in ("tempo_tags_v2", "tempo_values_v2"):
            continue
        key = (l["ep"], l["cluster"], l["class"])
        if key in seen or len([k for k in seen if k[:2] == key[:2]]) >= 3:
            continue
        seen.add(key)
        cases.append((l, est))
    if not cases:
        ck.obligation("TraceQL estimate / tags statements of the sweep compared with the model", False, "no statement found")
        return
    dates = sorted({utc_day(x) for l, _ in cases + tcases for x in (l["from_ns"], l["to_ns"], l["from_ns"] - 1800 * 10**9, l["to_ns"] - 1800 * 10**9)})
    dn = {d: "d_%d" % i for i, d in enumerate(dates)}
    hdr = ("From Coq Require Import List ZArith NArith String Ascii Bool.\n"
           "From Qryn Require Import lib.Strs model.Sql model.Scans model.ScansTq.\n"
           "From Qryn Require model.TqSql model.Traceql model.TraceqlPlan.\n"
           "Import ListNotations.\nOpen Scope string_scope.\nOpen Scope Z_scope.\n"
           + "".join('Definition %s := "%s".\n' % (n, d) for d, n in dn.items()) +
           "Definition mkr (f t : Z) (fd td ffd fft : string) (lim : Z) (cl : bool) (db : string) (rfm rfi : Z) : TraceqlPlan.ctx :=\n"
           "  {| TraceqlPlan.from_ns := f; TraceqlPlan.to_ns := t; TraceqlPlan.from_date := fd; TraceqlPlan.to_date := td;\n"
           "     TraceqlPlan.ffd_from := ffd; TraceqlPlan.ffd_to := fft; TraceqlPlan.limit := lim; TraceqlPlan.is_cluster := cl;\n"
           "     TraceqlPlan.rf_max := rfm; TraceqlPlan.rf_i := rfi; TraceqlPlan.cached := [];\n"
           "     (* tables.PopulateTableNames: the local tables carry no database prefix, the distributed ones do *)\n"
           '     TraceqlPlan.attrs_table := "tempo_traces_attrs_gin"; TraceqlPlan.attrs_dist_table := db ++ (if cl then "tempo_traces_attrs_gin_dist" else "tempo_traces_attrs_gin");\n'
           '     TraceqlPlan.traces_table := "tempo_traces"; TraceqlPlan.traces_dist_table := db ++ (if cl then "tempo_traces_dist" else "tempo_traces");\n'
           '     TraceqlPlan.kv_dist_table := db ++ (if cl then "tempo_traces_kv_dist" else "tempo_traces_kv") |}.\n'
           "Definition mk f t fd td ffd fft lim cl db := mkr f t fd td ffd fft lim cl db 0 0.\n")
    dbof = lambda l: (re.search(r"(`[^`]+`\.)tempo_", l["sql"]) or [None, ""])[1]
    titems = []
    for i, (l, rf) in enumerate(tcases):
        q, mode, lim = TQ_EPS[l["ep"]]
        f, t = l["from_ns"], l["to_ns"]
        ctx = "(mkr %d %d %s %s %s %s %d %s %s %d %d)" % (f, t, dn[utc_day(f)], dn[utc_day(t)], dn[utc_day(f - 1800 * 10**9)], dn[utc_day(t - 1800 * 10**9)],
                                                         lim, "true" if l["cluster"] else "false", coq_string(dbof(l)), rf[0], rf[1])
        titems.append("{| tt_id := %d; tt_ctx := %s; tt_q := %s; tt_mode := %s; tt_sql := %s |}" % (i, ctx, q, mode, coq_string(l["sql"])))
    items = []
    for i, (l, est) in enumerate(cases):
        f, t = l["from_ns"], l["to_ns"]
        db = re.search(r"(`[^`]+`\.)tempo_", l["sql"])
        lim = TQ_EPS[l["ep"]][2] if est else 0
        ctx = "(mk %d %d %s %s %s %s %d %s %s)" % (f, t, dn[utc_day(f)], dn[utc_day(t)], dn[utc_day(f - 1800 * 10**9)], dn[utc_day(t - 1800 * 10**9)],
                                                  lim, "true" if l["cluster"] else "false", coq_string(db.group(1) if db else ""))
        items.append("{| te_id := %d; te_ctx := %s; te_q := %s; te_sql := %s |}" % (
            i, ctx, ("Some " + TQ_EPS[l["ep"]][0]) if est else "None", coq_string(l["sql"])))
    txt = (hdr + "Definition cases : list te_case := [\n " + ";\n ".join(items) + "].\n"
           "Definition M := Eval vm_compute in te_mismatches cases.\nPrint M.\n"
           "Definition K := Eval vm_compute in te_ctx_not_ok cases.\nPrint K.\n"
           "Definition tcases : list tt_case := [\n " + ";\n ".join(titems) + "].\n"
           "Definition T := Eval vm_compute in tt_mismatches tcases.\nPrint T.\n")
    rc, out = ck.coq_eval("C13_estimate", txt, timeout=600)
    flat = " ".join((out or "").split())
    m = re.search(r"M = \[(.*?)\]\s*: list Z", flat)
    k = re.search(r"K = \[(.*?)\]\s*: list Z", flat)
    if rc != 0 or not m or not k:
        ck.obligation("TraceQL estimate model evaluated on the requests of the sweep", False, (out or "")[-1500:])
        return
    bad = [int(x) for x in re.findall(r"-?\d+", m.group(1))]
    notok = [int(x) for x in re.findall(r"-?\d+", k.group(1))]
    eps = {c[0]["ep"] for c in cases}
    ck.obligation("correspondence: TqSql.render (TE.plan_eval q ctx) / render (TE.all_tags ctx) = recorded complexity estimate / tags statement, byte for byte, "
                  "on %d statements (%d endpoints, both layouts)" % (len(cases), len(eps)), not bad and len(eps) >= 8,
                  "; ".join("%s %s %s: %.400s" % (cases[i][0]["ep"], "cluster" if cases[i][0]["cluster"] else "single", cases[i][0]["class"], cases[i][0]["sql"]) for i in bad[:3]))
    ck.obligation("tq_ctx_ok holds of every context of the estimate / tags comparison", not notok, str(notok[:5]))
    tm = re.search(r"T = \[(.*?)\]\s*: list Z", flat)
    tbad = [int(x) for x in re.findall(r"-?\d+", tm.group(1))] if tm else [-1]
    teps = {c[0]["ep"] for c in tcases}
    ck.obligation("correspondence: TqSql.render (TraceqlPlan.plan q mode ctx) = recorded search / tags / values statement, byte for byte, on %d statements "
                  "(%d endpoints incl. the three portions of the portioned search, both layouts)" % (len(tcases), len(teps)),
                  bool(tm) and not tbad and len(teps) == len(TQ_EPS),
                  "; ".join("%s %s %s rf %s: %.300s" % (tcases[i][0]["ep"], "cluster" if tcases[i][0]["cluster"] else "single", tcases[i][0]["class"], tcases[i][1], tcases[i][0]["sql"])
                            for i in tbad[:3] if 0 <= i < len(tcases)))
    ck.coverage["evaluations"] += len(tcases)
    ck.extra["traceql_estimate_ties"] = len(cases)
    ck.coverage["evaluations"] += len(cases)


# ---------------------------------------------------------------- label values / series: planner model vs recorded text
LV_EPS = {  # endpoint -> (key or None for series, selectors [[(name, op, value)]], type)
    "loki_label_values": ("job", [], 1),
    "loki_label_values_match": ("job", [[("a", "MEq", "b")]], 1),
    "loki_series": (None, [[("a", "MEq", "b")], [("c", "MRe", "d.*")]], 1),
    "prom_label_values": ("job", [], 2),
    "prom_label_values_match": ("job", [[("a", "MEq", "b"), ("__name__", "MEq", "up")]], 2),
    "prom_series": (None, [[("__name__", "MEq", "up"), ("a", "MEq", "b")]], 2)}
LV_CLASSES = ("plain-noon", "cross-midnight", "first-half-hour", "sub-second", "month-end", "random")


def run_label_tie(ck, lines):
    """text of the model's ValuesPlanner / SeriesPlanner statement = recorded statement, byte for byte (a sample:
    every endpoint x layout x some window classes; Coq string literals are slow)"""
    cases, seen = [], set()
    for l in lines:
        if l["kind"] != "stmt" or l["ep"] not in LV_EPS or l["zone"] not in (0, -18000):
            continue
        key = (l["ep"], l["cluster"], l["class"])
        if key in seen or l["class"] not in LV_CLASSES or len([k for k in seen if k[:2] == key[:2]]) >= 4:
            continue
        seen.add(key)
        cases.append(l)
    if not cases:
        ck.obligation("label values / series statements of the sweep compared with the planner model", False, "no statement found")
        return
    items = []
    for i, l in enumerate(cases):
        k, sels, ty = LV_EPS[l["ep"]]
        series = k is None
        if l["cluster"]:
            db = re.search(r"`([^`]+)`\.", l["sql"])
            pre = "`%s`." % db.group(1) if db else ""
            gin = pre + "time_series_gin" if series else "time_series_gin_dist"
            ts, tsd = pre + "time_series", pre + "time_series_dist"
        else:
            gin, ts, tsd = "time_series_gin", "time_series", "time_series"
        ctx = ('{| c_from_ns := %d; c_to_ns := %d; c_limit := 10000; c_asc := false; c_cluster := %s; c_type := %d; c_finalize := false; '
               'c_step_ns := 0; t_gin := %s; t_samples := ""; t_ts := %s; t_ts_dist := %s; t_m15 := "" |}' % (
                   l["from_ns"], l["to_ns"], "true" if l["cluster"] else "false", ty, coq_string(gin), coq_string(ts), coq_string(tsd)))
        ms = "[" + "; ".join("[" + "; ".join('{| m_name := %s; m_op := %s; m_val := %s |}' % (coq_string(n), op, coq_string(v)) for n, op, v in sel) + "]" for sel in sels) + "]"
        items.append("{| lv_id := %d; lv_ctx := %s; lv_key := %s; lv_sels := %s; lv_sql := %s |}" % (
            i, ctx, "None" if series else "Some " + coq_string(k), ms, coq_string(l["sql"])))
    txt = ("From Coq Require Import List ZArith NArith String Ascii Bool.\n"
           "From Qryn Require Import lib.Strs model.Sql model.Logql model.LogqlPlan model.ScansPlanners.\n"
           "Import ListNotations.\nOpen Scope string_scope.\nOpen Scope Z_scope.\n"
           "Definition cases : list lv_case := [\n " + ";\n ".join(items) + "].\n"
           "Definition M := Eval vm_compute in lv_mismatches cases.\nPrint M.\n")
    rc, out = ck.coq_eval("C13_labels", txt, timeout=600)
    flat = " ".join((out or "").split())
    m = re.search(r"M = \[(.*?)\]\s*: list Z", flat)
    if rc != 0 or not m:
        ck.obligation("label values / series planner model evaluated on the requests of the sweep", False, (out or "")[-1500:])
        return
    bad = [int(x) for x in re.findall(r"-?\d+", m.group(1))]
    ck.obligation("correspondence: render (values_planner / series_planner) = recorded statement, byte for byte, on %d label-values / series requests "
                  "(%d endpoints, both layouts)" % (len(cases), len({c["ep"] for c in cases})), not bad,
                  "; ".join("%s %s %s: %.300s" % (cases[i]["ep"], "cluster" if cases[i]["cluster"] else "single", cases[i]["class"], cases[i]["sql"]) for i in bad[:3]))
    ck.extra["label_model_ties"] = len(cases)
    ck.coverage["evaluations"] += len(cases)
    # label names: QueryLabelsService.Labels
    ln, seen = [], set()
    for l in lines:
        if l["kind"] != "stmt" or l["ep"] not in ("loki_labels", "prom_labels") or l["zone"] not in (0, 50400):
            continue
        key = (l["ep"], l["cluster"], l["class"])
        if key in seen:
            continue
        seen.add(key)
        ln.append(l)
    items = ["{| ln_id := %d; ln_table := %s; ln_ty := %d; ln_start_ms := %d; ln_end_ms := %d; ln_sql := %s |}" % (
        i, coq_string("time_series_gin_dist" if l["cluster"] else "time_series_gin"), 1 if l["ep"] == "loki_labels" else 2,
        l["from_ns"] // 1000000, l["to_ns"] // 1000000, coq_string(l["sql"])) for i, l in enumerate(ln)]
    txt = ("From Coq Require Import List ZArith NArith String Ascii Bool.\n"
           "From Qryn Require Import lib.Strs model.Sql model.ScansPlanners.\n"
           "Import ListNotations.\nOpen Scope string_scope.\nOpen Scope Z_scope.\n"
           "Definition cases : list ln_case := [\n " + ";\n ".join(items) + "].\n"
           "Definition M := Eval vm_compute in ln_mismatches cases.\nPrint M.\n")
    rc, out = ck.coq_eval("C13_label_names", txt, timeout=600)
    flat = " ".join((out or "").split())
    m = re.search(r"M = \[(.*?)\]\s*: list Z", flat)
    if rc != 0 or not m or not ln:
        ck.obligation("label names query model evaluated on the requests of the sweep", False, (out or "")[-1500:])
        return
    bad = [int(x) for x in re.findall(r"-?\d+", m.group(1))]
    ck.obligation("correspondence: render (labels_query) = recorded statement, byte for byte, on %d label-names requests (Loki and Prometheus, both layouts, "
                  "every window class)" % len(ln), not bad,
                  "; ".join("%s %s %s [%d,%d): %.300s" % (ln[i]["ep"], "cluster" if ln[i]["cluster"] else "single", ln[i]["class"], ln[i]["from_ns"], ln[i]["to_ns"], ln[i]["sql"]) for i in bad[:3]))
    ck.coverage["evaluations"] += len(ln)


# ---------------------------------------------------------------- Pyroscope: planner model vs recorded text
SEL_AB = '[{| sl_name := "a"; sl_op := MEq; sl_val := "b" |}]'
SEL_AC = '[{| sl_name := "a"; sl_op := MEq; sl_val := "c" |}]'
SEL_X2 = '[{| sl_name := "job"; sl_op := MEq; sl_val := "x2" |}]'
PROF_EPS = {  # endpoint -> request as a planner object of ScansProf.preq, per statement index
    "prof_label_names": ["RLabelNames [%s]" % SEL_AB],
    "prof_label_names_nomatch": ["RLabelNames []"],
    "prof_label_values": ['RLabelValues [%s] "job"' % SEL_AB],
    "prof_merge_stacktraces": ["RMergeTraces %s tid0" % SEL_AB],
    "prof_render_diff": ["RMergeTraces %s tid0" % SEL_AB, "RMergeTraces %s tid0" % SEL_AC],
    "prof_select_series": ['RSelectSeries %s tid0 ["a"] false 15' % SEL_AB],
    "prof_merge_profile": ["RMergeProfiles %s tid0" % SEL_AB],
    "prof_series": ['RSeries [%s] ["a"]' % SEL_AB],
    "prof_series_nomatch": ["RSeries [] []"],
    "prof_series_two": ["RSeries [%s; %s] []" % (SEL_AB, SEL_X2)],             # UNION ALL of two time-series selects under a WITH alias
    "prof_label_names_two": ["RLabelNames [%s; %s]" % (SEL_AB, SEL_X2)],        # UNION ALL of two selectors as the fingerprint set
    "prof_analyze": ["RAnalyze %s" % SEL_AB]}
PROF_CLASSES = ("plain-noon", "cross-midnight", "first-half-hour", "sub-second", "month-end", "two-days", "random")


def run_prof_tie(ck, lines):
    """text of the statement the profile planner model (ReplanProf.pprocess / prender, under the theorem
    prof_every_scan_bounded) builds for the request = recorded statement, byte for byte; the oracle accepts every read of
    the model's statement (presult_scans: incl. the UNION ALL members the Sql.v tree keeps aside)"""
    cases, seen, per = [], set(), {}
    for l in lines:
        if l["kind"] != "stmt" or l["ep"] not in PROF_EPS or l["zone"] not in (0, -18000) or l["class"] not in PROF_CLASSES:
            continue
        idx = l.get("idx", 0)
        key = (l["ep"], l["cluster"], idx, l["class"])
        grp = (l["ep"], l["cluster"], idx)
        # two window classes per (endpoint, layout, statement), rotating over the classes so that all of them occur
        want = {PROF_CLASSES[(len(l["ep"]) + k + (1 if l["cluster"] else 0)) % len(PROF_CLASSES)] for k in (0, 3)}
        if key in seen or l["class"] not in want or per.get(grp, 0) >= 2 or idx >= len(PROF_EPS[l["ep"]]):
            continue
        seen.add(key)
        per[grp] = per.get(grp, 0) + 1
        cases.append(l)
    if not cases:
        ck.obligation("Pyroscope statements of the sweep compared with the planner model", False, "no statement found")
        return
    items = []
    for i, l in enumerate(cases):
        f, t = l["from_ns"], l["to_ns"]
        db = re.search(r"`([^`]+)`\.", l["sql"])
        items.append('{| prc_id := %d; prc_ctx := prof_ctx %s %s %d %d; prc_req := %s; prc_sql := %s |}' % (
            i, "true" if l["cluster"] else "false", coq_string(db.group(1) if db else ""), f, t,
            PROF_EPS[l["ep"]][l.get("idx", 0)], coq_string(l["sql"])))
    pt, seen = [], set()
    for l in lines:
        if l["kind"] != "stmt" or l["ep"] != "prof_types" or l["zone"] not in (0, 50400):
            continue
        key = (l["cluster"], l["class"])
        if key in seen:
            continue
        seen.add(key)
        pt.append(l)
    pitems = ["{| ptc_id := %d; ptc_table := %s; ptc_start_ms := %d; ptc_end_ms := %d; ptc_sql := %s |}" % (
        i, coq_string("profiles_series_dist" if l["cluster"] else "profiles_series"), l["from_ns"] // 1000000, l["to_ns"] // 1000000,
        coq_string(l["sql"])) for i, l in enumerate(pt)]
    txt = ("From Coq Require Import List ZArith NArith String Ascii Bool.\n"
           "From Qryn Require Import lib.Strs model.Sql model.Logql model.ProfSel model.ReplanProf model.Scans model.ScansProf.\n"
           "Import ListNotations.\nOpen Scope string_scope.\nOpen Scope Z_scope.\n"
           "Definition cases : list pr_case := [\n " + ";\n ".join(items) + "].\n"
           "Definition M := Eval vm_compute in pr_mismatches cases.\nPrint M.\n"
           "Definition U := Eval vm_compute in pr_unbounded cases.\nPrint U.\n"
           "Definition N := Eval vm_compute in pr_nscans cases.\nPrint N.\n"
           "Definition tcases : list pt_case := [\n " + ";\n ".join(pitems) + "].\n"
           "Definition T := Eval vm_compute in pt_mismatches tcases.\nPrint T.\n")
    rc, out = ck.coq_eval("C13_prof", txt, timeout=600)
    flat = " ".join((out or "").split())
    got = {k: re.search(r"%s = \[(.*?)\]\s*: list Z" % k, flat) for k in "MUNT"}
    if rc != 0 or not all(got.values()):
        ck.obligation("Pyroscope planner model evaluated on the requests of the sweep", False, (out or "")[-1500:])
        return
    ids = {k: [int(x) for x in re.findall(r"-?\d+", m.group(1))] for k, m in got.items()}
    desc = lambda c: "%s[%d] %s %s [%d,%d): %.300s" % (c["ep"], c.get("idx", 0), "cluster" if c["cluster"] else "single", c["class"], c["from_ns"], c["to_ns"], c["sql"])
    ck.obligation("correspondence: prender (pprocess (plan of the request) ctx) = recorded statement, byte for byte, on %d Pyroscope statements "
                  "(%d endpoints incl. both statements of render-diff, both layouts, %d window classes)" % (
                      len(cases), len({c["ep"] for c in cases}), len({c["class"] for c in cases})),
                  not ids["M"] and len({c["ep"] for c in cases}) == len(PROF_EPS), "; ".join(desc(cases[i]) for i in ids["M"][:3]))
    ck.obligation("the oracle accepts every read (presult_scans) of the profile planner model's statement for these requests "
                  "(%d reads with multiplicity)" % sum(x for x in ids["N"] if x > 0), not ids["U"] and all(x > 0 for x in ids["N"]),
                  "; ".join(desc(cases[i]) for i in ids["U"][:3]))
    ck.obligation("correspondence: render (profile_types_query) = recorded statement of ProfileTypes, byte for byte, on %d requests "
                  "(both layouts, every window class)" % len(pt), bool(pt) and not ids["T"],
                  "; ".join(desc(pt[i]) for i in ids["T"][:3]))
    if ids["U"]:
        c = cases[ids["U"][0]]
        ck.violation({"property": "C13", "part": "profile planner model", "kind": "a base-table read of the planner model's statement is not confined to the window",
                      "endpoint": c["ep"], "cluster": c["cluster"], "requested_from_ns": c["from_ns"], "requested_to_ns": c["to_ns"], "statement": c["sql"],
                      "request": request_of(c), "replay": "bin/check C13 --replay <this file>"})
    ck.extra["prof_model_ties"] = len(cases) + len(pt)
    ck.coverage["evaluations"] += len(cases) + len(pt)


# ---------------------------------------------------------------- Prometheus Select / label fetch: C17's model vs recorded text
def _m(n, op, v):
    return '{| m_name := "%s"; m_op := %s; m_val := "%s" |}' % (n, op, v)


UP = _m("__name__", "MEq", "up")
PROM_EPS = {  # endpoint -> (hints.Func, hints.Range ms, matcher list per selector)
    "prom_range_downsample": ("", 0, [[_m("a", "MEq", "b"), UP]]),
    "prom_range_raw_step": ("", 0, [[_m("a", "MEq", "b"), UP]]),
    "prom_range_rate": ("rate", 60000, [[_m("a", "MEq", "b"), UP]]),
    "prom_range_sum_over_time": ("sum_over_time", 300000, [[_m("a", "MEq", "b"), UP]]),
    "prom_range_quantile_over_time": ("quantile_over_time", 120000, [[_m("a", "MEq", "b"), UP]]),
    "prom_range_sum_by": ("sum", 0, [[_m("a", "MRe", "b.*"), _m("c", "MNeq", "d"), UP]]),
    "prom_range_offset_1d": ("", 0, [[_m("a", "MEq", "b"), UP], [_m("a", "MEq", "c"), UP]]),
    "prom_range_offset_36h": ("", 0, [[_m("a", "MEq", "b"), UP], [_m("a", "MEq", "c"), UP]]),
    "prom_range_rate_offset_1w": ("rate", 300000, [[_m("a", "MEq", "b"), UP], [_m("a", "MEq", "c"), UP]]),
    "prom_range_subquery": ("max_over_time", 0, [[_m("a", "MEq", "b"), UP]]),
    "prom_range_subsec_range": ("sum_over_time", 89500, [[_m("a", "MEq", "b"), UP]]),
    "prom_range_subsec_offset": ("", 0, [[_m("a", "MEq", "b"), UP]]),
    "prom_instant_offset_1d": ("", 0, [[_m("a", "MEq", "b"), UP], [_m("a", "MEq", "c"), UP]]),
    "prom_instant": ("", 0, [[_m("a", "MEq", "b"), UP]])}


def run_prom_tie(ck, lines):
    """text of PromSel.select_sql / labels_fetch (C17's transcription, under prom_every_scan_bounded and
    prom_labels_fetch_date_covers) = statement recorded from /api/v1/query(_range), byte for byte, inside C13's own run"""
    step_of = {}
    for l in lines:
        if l["kind"] == "req" and l["ep"] in PROM_EPS:
            m = re.search(r"[?&]step=(\d+)", l.get("url", ""))
            step_of[l["req"]] = int(m.group(1)) * 1000 if m else 0
    sel_cases, fetch_cases, seen, last = [], [], set(), {}
    classes = ("plain-noon", "cross-midnight", "first-half-hour", "month-end", "two-days", "random", "leap-day")
    ghist, gen_sel = {}, 0
    hint_bad = []
    for l in lines:
        if l["kind"] == "stmt" and l["ep"] == "prom_gen" and l.get("pgen") and "JSONExtractKeysAndValues" not in l["sql"]:
            # a generated request: hints from the generated parameters, Start / End as the harness computed them
            g = l["pgen"]
            m = re.search(r"[?&]step=(\d+)", next((q.get("url", "") for q in lines if q["kind"] == "req" and q["req"] == l["req"]), ""))
            step = int(m.group(1)) * 1000 if m else g["step"] * 1000
            ms = l["hint_from_ms"] % 15000
            # every generated statement is judged by the oracle; the byte-exact tie takes the first 28 plus every one whose Start
            # lies 1..999 ms above a slot boundary (Coq string literals are slow)
            if gen_sel < 28 or 0 < ms < 1000:
                sel_cases.append((l, l["hint_from_ms"], l["hint_to_ms"], step, g["func"], g["range_ms"], PROM_EPS["prom_instant"][2][0]))
            gen_sel += 1
            raw = "metrics_15s" not in l["sql"]
            for k in ("start=" + ("slot-boundary" if ms == 0 else "boundary+1..999ms" if ms < 1000 else "other"),
                      "table=" + ("samples_v3" if raw else "metrics_15s"), "func=" + (g["func"] or "none"),
                      "step" + ("<15s" if step < 15000 else ">=15s"), "range=" + ("0" if not g["range_ms"] else "<15s" if g["range_ms"] < 15000 else ">=15s"),
                      "offset=" + ("0" if not g["offset_ms"] else "sub-second-part" if g["offset_ms"] % 1000 else "whole-seconds"),
                      "cluster" if l["cluster"] else "single"):
                ghist[k] = ghist.get(k, 0) + 1
            if ms and ms < 1000 and step >= 15000 and (not g["range_ms"] or g["range_ms"] >= 15000) and g["func"] not in ("quantile_over_time", "stddev_over_time"):
                ghist["eligible-but-for-the-milliseconds"] = ghist.get("eligible-but-for-the-milliseconds", 0) + 1
            continue
        if l["kind"] != "stmt" or l["ep"] not in PROM_EPS or l["zone"] not in (0, 10800):
            continue
        fetch = " FROM time_series" in l["sql"] and "JSONExtractKeysAndValues" in l["sql"]
        sel = l.get("sel", 0)
        if not fetch:
            lo = re.search(r"\(samples\.timestamp_ns\) >=? \((\d+)\)", l["sql"])
            hi = re.search(r"\(samples\.timestamp_ns\) (<=|<) \((\d+)\)", l["sql"])
            if not lo or not hi:
                continue
            start = int(lo.group(1)) // 1000000
            end = int(hi.group(2)) // 1000000 - (1 if hi.group(1) == "<" else 0)
            last[(l["req"], sel)] = (start, end)
            # the window the harness computed for this selector (promHint: the engine's getTimeRangesForSelector) is the one in the text
            if "hint_from_ms" in l and (start, end) != (l["hint_from_ms"], l["hint_to_ms"]):
                hint_bad.append("%s sel %d %s: statement [%d, %d] hints [%d, %d]" % (l["ep"], sel, l["class"], start, end, l["hint_from_ms"], l["hint_to_ms"]))
        want = classes[(len(l["ep"]) + (3 if l["cluster"] else 0)) % len(classes)]
        key = (l["ep"], l["cluster"], sel, fetch)
        if l["class"] != want or key in seen or (l["req"], sel) not in last:
            continue
        seen.add(key)
        start, end = last[(l["req"], sel)]
        if fetch:
            fps = re.search(r"fingerprint IN \(([0-9,]*)\)", l["sql"])
            fetch_cases.append((l, [int(x) for x in fps.group(1).split(",") if x] if fps else [], start, end))
        else:
            fn, rng, mss = PROM_EPS[l["ep"]]
            sel_cases.append((l, start, end, step_of.get(l["req"], 0), fn, rng, mss[min(sel, len(mss) - 1)]))
    if not sel_cases or not fetch_cases:
        ck.obligation("Prometheus statements of the sweep compared with PromSel", False, "no statement found")
        return
    items = ['{| ps_id := %d; ps_cluster := %s; ps_db := "verif"; ps_h := {| h_start := %d; h_end := %d; h_step := %d; h_func := "%s"; h_range := %d |}; '
             'ps_ms := [%s]; ps_sql := %s |}' % (i, "true" if l["cluster"] else "false", st, en, step, fn, rng, "; ".join(ms), coq_string(l["sql"]))
             for i, (l, st, en, step, fn, rng, ms) in enumerate(sel_cases)]
    fitems = ['{| pf_id := %d; pf_cluster := %s; pf_fps := [%s]; pf_from_ms := %d; pf_to_ms := %d; pf_sql := %s |}' % (
        i, "true" if l["cluster"] else "false", "; ".join("%d%%N" % x for x in fps), st, en, coq_string(l["sql"]))
        for i, (l, fps, st, en) in enumerate(fetch_cases)]
    txt = ("From Coq Require Import List ZArith NArith String Ascii Bool.\n"
           "From Qryn Require Import lib.Strs model.Sql model.Logql model.LogqlPlan model.PromSel model.ScansPlanners.\n"
           "Import ListNotations.\nOpen Scope string_scope.\nOpen Scope Z_scope.\n"
           "Definition cases : list ps_case := [\n " + ";\n ".join(items) + "].\n"
           "Definition M := Eval vm_compute in ps_mismatches cases.\nPrint M.\n"
           "Definition fcases : list pf_case := [\n " + ";\n ".join(fitems) + "].\n"
           "Definition F := Eval vm_compute in pf_mismatches fcases.\nPrint F.\n")
    rc, out = ck.coq_eval("C13_prom", txt, timeout=600)
    flat = " ".join((out or "").split())
    m = re.search(r"M = \[(.*?)\]\s*: list Z", flat)
    f = re.search(r"F = \[(.*?)\]\s*: list Z", flat)
    if rc != 0 or not m or not f:
        ck.obligation("PromSel evaluated on the Prometheus requests of the sweep", False, (out or "")[-1500:])
        return
    bad = [int(x) for x in re.findall(r"-?\d+", m.group(1))]
    fbad = [int(x) for x in re.findall(r"-?\d+", f.group(1))]
    eps = {c[0]["ep"] for c in sel_cases}
    eps.discard("prom_gen")
    ck.obligation("the hint window computed by the harness for every Prometheus selector ([start - range or lookback - offset, end - offset], "
                  "start / end snapped to 15 s by the controller) is the window written into its statement", not hint_bad, "; ".join(hint_bad[:4]))
    ck.obligation("correspondence: PromSel.select_sql (hints of the request) = statement Select sent, byte for byte, on %d selects (%d endpoints incl. the "
                  "second selector of the offset queries, both layouts, raw and down-sampled paths; %d generated requests: function, range and offset "
                  "in milliseconds, step - the CHOICE of the table included)" % (len(sel_cases), len(eps), gen_sel),
                  not bad and len(eps) == len(PROM_EPS) and gen_sel >= 30 and ghist.get("eligible-but-for-the-milliseconds", 0) >= 3
                  and ghist.get("table=metrics_15s", 0) >= 3,
                  "; ".join("%s sel %d %s %s hints %s: %.500s" % (sel_cases[i][0]["ep"], sel_cases[i][0].get("sel", 0), "cluster" if sel_cases[i][0]["cluster"] else "single",
                                                                 sel_cases[i][0]["class"], sel_cases[i][1:6], sel_cases[i][0]["sql"]) for i in bad[:3]))
    ck.obligation("correspondence: render (PromSel.labels_fetch) = recorded label fetch of the same Select, byte for byte, on %d statements" % len(fetch_cases),
                  not fbad, "; ".join("%s %s [%d,%d]: %.300s" % (fetch_cases[i][0]["ep"], fetch_cases[i][0]["class"], fetch_cases[i][2], fetch_cases[i][3], fetch_cases[i][0]["sql"]) for i in fbad[:3]))
    ck.extra["prom_model_ties"] = len(sel_cases) + len(fetch_cases)
    ck.extra["prom_select_generated_distribution"] = ghist
    ck.coverage["evaluations"] += len(sel_cases) + len(fetch_cases)


# ---------------------------------------------------------------- from the request to the hint window (round 8)
# the place of every selector in the query text of the fixed Prometheus endpoints: (subqueries around it as (offset ms, range ms),
# range of its matrix selector in ms or 0, its own offset in ms); the generated requests carry theirs in pgen
PROM_SELS = {
    "prom_range_downsample": [([], 0, 0)], "prom_range_raw_step": [([], 0, 0)], "prom_range_sum_by": [([], 0, 0)],
    "prom_range_rate": [([], 60000, 0)], "prom_range_sum_over_time": [([], 300000, 0)], "prom_range_quantile_over_time": [([], 120000, 0)],
    "prom_range_offset_1d": [([], 0, 0), ([], 0, 86400000)], "prom_range_offset_36h": [([], 0, 0), ([], 0, 129600000)],
    "prom_range_rate_offset_1w": [([], 300000, 0), ([], 300000, 604800000)],
    "prom_range_subquery": [([(0, 1800000)], 0, 0)],
    "prom_range_subsec_range": [([], 89500, 0)], "prom_range_subsec_offset": [([], 0, 899500)],
    "prom_instant_offset_1d": [([], 0, 0), ([], 0, 86400000)], "prom_instant": [([], 0, 0)]}


def run_prom_window_tie(ck, lines):
    """ScansPromWindow.req_hint (the controller's snapping + the engine's getTimeRangesForSelector, under
    prom_request_window_covered / prom_request_every_scan_bounded) = Start / End written into the recorded Select statement
    = the window the harness judged that statement against, for every distinct (endpoint, selector, request) of the sweep"""
    urls = {l["req"]: l.get("url", "") for l in lines if l["kind"] == "req" and (l["ep"] in PROM_SELS or l["ep"] == "prom_gen")}
    cases, seen, hist = [], set(), {}
    for l in lines:
        if l["kind"] != "stmt" or l["req"] not in urls or "hint_from_ms" not in l:
            continue
        if " FROM time_series" in l["sql"] and "JSONExtractKeysAndValues" in l["sql"]:
            continue
        lo = re.search(r"\(samples\.timestamp_ns\) >=? \((\d+)\)", l["sql"])
        hi = re.search(r"\(samples\.timestamp_ns\) (<=|<) \((\d+)\)", l["sql"])
        if not lo or not hi:
            continue
        start = int(lo.group(1)) // 1000000
        end = int(hi.group(2)) // 1000000 - (1 if hi.group(1) == "<" else 0)
        u = urls[l["req"]]
        par = {k: re.search(r"[?&]%s=(\d+)" % k, u) for k in ("start", "end", "time")}
        if par["time"]:
            req = "PInstant %d" % (int(par["time"].group(1)) * 10 ** 9)
        elif par["start"] and par["end"]:
            req = "PRange %d %d" % (int(par["start"].group(1)) * 10 ** 9, int(par["end"].group(1)) * 10 ** 9)
        else:
            continue
        sel = l.get("sel", 0)
        if l["ep"] == "prom_gen":
            g = l.get("pgen") or {}
            path, rng, off = [], g.get("range_ms", 0), g.get("offset_ms", 0)
        else:
            sels = PROM_SELS[l["ep"]]
            path, rng, off = sels[min(sel, len(sels) - 1)]
        key = (l["ep"], sel, req, rng, off, start, end)
        if key in seen:
            continue
        seen.add(key)
        for k in ("instant" if par["time"] else "range", "subquery" if path else "no-subquery", "matrix" if rng else "vector",
                  "offset" if off else "no-offset", "sub-second reach" if (rng + off) % 1000 else "whole-second reach",
                  "reach multiple of 15 s" if ((rng or 300000) + off + sum(r for _, r in path)) % 15000 == 0 else "reach off the 15 s grid"):
            hist[k] = hist.get(k, 0) + 1
        cases.append((l, "{| pw_id := %d; pw_req := %s; pw_sel := {| ps_path := [%s]; ps_range := %d; ps_offset := %d |}; pw_start := %d; pw_end := %d; "
                      "pw_hstart := %d; pw_hend := %d |}" % (len(cases), req, "; ".join("{| sq_offset := %d; sq_range := %d |}" % q for q in path), rng, off,
                                                             start, end, l["hint_from_ms"], l["hint_to_ms"])))
    if not cases:
        ck.obligation("Prometheus requests of the sweep compared with ScansPromWindow.req_hint", False, "no statement found")
        return
    cases = cases[:1500]
    txt = ("From Coq Require Import List ZArith.\nFrom Qryn Require Import model.ScansPromWindow.\nImport ListNotations.\nOpen Scope Z_scope.\n"
           "Definition cases : list pw_case := [\n " + ";\n ".join(c for _, c in cases) + "].\n"
           "Definition M := Eval vm_compute in pw_mismatches cases.\nPrint M.\n")
    rc, out = ck.coq_eval("C13_promwin", txt, timeout=300)
    flat = " ".join((out or "").split())
    m = re.search(r"M = \[(.*?)\]\s*: list Z", flat)
    if rc != 0 or not m:
        ck.obligation("ScansPromWindow.req_hint evaluated on the Prometheus requests of the sweep", False, (out or "")[-1500:])
        return
    bad = [int(x) for x in re.findall(r"-?\d+", m.group(1))]
    eps = {c[0]["ep"] for c in cases}
    ck.obligation("correspondence: ScansPromWindow.req_hint (start / end snapped by the controller, getTimeRangesForSelector of the engine) = "
                  "[Start, End] written into the Select statement = the window the statement was judged against, on %d distinct "
                  "(endpoint, selector, request) of %d endpoints incl. subquery, second selectors with offsets, instant queries and "
                  "generated ranges / offsets in milliseconds" % (len(cases), len(eps)),
                  not bad and len(eps) == len(PROM_SELS) + 1 and hist.get("subquery", 0) >= 1 and hist.get("instant", 0) >= 2
                  and hist.get("sub-second reach", 0) >= 3,
                  "; ".join("%s sel %d %s %s: %s" % (cases[i][0]["ep"], cases[i][0].get("sel", 0), cases[i][0]["class"],
                                                      urls[cases[i][0]["req"]], cases[i][1]) for i in bad[:3]) or "distribution %s" % hist)
    ck.extra["prom_request_window_distribution"] = hist
    ck.coverage["evaluations"] += len(cases)


# ---------------------------------------------------------------- portioned TraceQL search: the window of every portion
def run_portions_tie(ck, lines, required=True):
    """ComplexRequestProcessor narrows ctx.From between the portions of a portioned search. The scripted database answers the
    search statement of every portion with generated rows; the lower bounds of the recorded statements are compared with
    ScansPortions.process_froms (model = implementation) and judged by spec_ok (never above the oldest trace the last full
    portion kept, never below the requested From) - proved of the model for every history by traceql_portions_keep_every_candidate"""
    reqs = {l["req"]: l for l in lines if l["kind"] == "req" and l["ep"] == "tempo_search_traceql_portions_rows" and l.get("port")}
    obs = {}
    for l in lines:
        if l["kind"] == "stmt" and l["req"] in reqs and l.get("portion"):
            m = re.search(r"\(traces_idx\.timestamp_ns\) >= \((\d+)\)", l["sql"])
            obs.setdefault(l["req"], []).append(int(m.group(1)) if m else -1)
    if not reqs:
        if required:
            ck.obligation("portioned TraceQL searches with rows ran", False, "no request found")
        return
    zl = lambda xs: "[" + "; ".join(str(x) for x in xs) + "]"
    ids = sorted(reqs)
    items = ["{| pc_id := %d; pc_from := %d; pc_limit := %d; pc_rows := [%s]; pc_obs := %s |}" % (
        i, reqs[i]["from_ns"], reqs[i]["port"]["limit"], "; ".join(zl(r or []) for r in reqs[i]["port"]["rows"]), zl(obs.get(i, []))) for i in ids]
    txt = ("From Coq Require Import List ZArith.\nFrom Qryn Require Import model.ScansPortions.\nImport ListNotations.\nOpen Scope Z_scope.\n"
           "Definition cases : list portion_case := [\n " + ";\n ".join(items) + "].\n"
           "Definition M := Eval vm_compute in pc_mismatches cases.\nPrint M.\n"
           "Definition V := Eval vm_compute in pc_spec_violations cases.\nPrint V.\n")
    rc, out = ck.coq_eval("C13_portions", txt, timeout=600)
    flat = " ".join((out or "").split())
    m = re.search(r"M = \[(.*?)\]\s*: list Z", flat)
    v = re.search(r"V = \[(.*?)\]\s*: list Z", flat)
    if rc != 0 or not m or not v:
        ck.obligation("portion windows evaluated inside Coq", False, (out or "")[-1500:])
        return
    mm = [int(x) for x in re.findall(r"-?\d+", m.group(1))]
    vv = [int(x) for x in re.findall(r"-?\d+", v.group(1))]
    hist = {}
    for i in ids:
        g = reqs[i]["port"]
        nfull = sum(1 for r in g["rows"][:-1] if len(r or []) == g["limit"])
        for k in ("portions=%d" % len(g["rows"]), "limit=%d" % g["limit"], "narrowing-portions=%d" % nfull,
                  "whole-second-start-kept" if any(st % 10**9 == 0 for r in g["rows"] for st in (r or [])) else "no-whole-second-start"):
            hist[k] = hist.get(k, 0) + 1
    short = [i for i in ids if len(obs.get(i, [])) != len(reqs[i]["port"]["rows"])]
    narrowing = sum(v for k, v in hist.items() if k.startswith("narrowing-portions=") and not k.endswith("=0"))
    ck.obligation("every portion of %d portioned searches sent its search statement (2-4 portions, limit 1-5, scripted rows)" % len(ids),
                  not short and (not required or (len(ids) >= 30 and narrowing >= 10)),
                  "; ".join("req %d: %d statements for %d portions" % (i, len(obs.get(i, [])), len(reqs[i]["port"]["rows"])) for i in short[:3]) or "narrowing cases: %d" % narrowing)
    desc = lambda i: "window from %d limit %d rows %s sent with %s" % (reqs[i]["from_ns"], reqs[i]["port"]["limit"], reqs[i]["port"]["rows"], obs.get(i))
    ck.obligation("correspondence: ScansPortions.process_froms = lower bound of the search statement of every portion (%d searches)" % len(ids),
                  not mm, "; ".join(desc(i) for i in mm[:2]))
    ck.obligation("spec: no portion is sent with a lower bound above the oldest trace the last full portion kept, or below the requested From",
                  not vv, "; ".join(desc(i) for i in vv[:2]))
    if vv:
        i = min(vv, key=lambda i: (len(reqs[i]["port"]["rows"]), reqs[i]["port"]["limit"]))
        q = reqs[i]
        ck.violation({"property": "C13", "part": "portioned TraceQL search", "kind": "a portion of the search is sent with a window that leaves out traces of the answer",
                      "requested_from_ns": q["from_ns"], "requested_to_ns": q["to_ns"], "limit": q["port"]["limit"],
                      "rows_returned_per_portion_start_ns": q["port"]["rows"], "lower_bound_of_each_portion_ns": obs.get(i),
                      "request": request_of(q), "replay": "bin/check C13 --replay <this file>"})
    ck.extra["portioned_search_distribution"] = hist
    ck.coverage["evaluations"] += len(ids)


# ---------------------------------------------------------------- Tempo v1: statement model vs recorded text
TV_TAGS = '[{| tg_key := "a"; tg_op := TgEq; tg_val := "b" |}; {| tg_key := "c"; tg_op := TgEq; tg_val := "d" |}]'
TV_EPS = {"tempo_trace": 'TTrace "%s" true' % "0123456789abcdef0123456789abcdef",
          "tempo_trace_nowindow": 'TTrace "%s" false' % "0123456789abcdef0123456789abcdef",
          "tempo_tags": "TTags", "tempo_tag_values": 'TValues "service.name"',
          "tempo_search_tags": "TSearch %s 20 1000000 0 %%s" % TV_TAGS, "tempo_search_plain": "TSearch [] 20 0 0 %s"}


def run_tempo_tie(ck, lines):
    """text of the Tempo v1 statement model (ScansTempo.v, under tempo_search_every_scan_bounded / tempo_trace_every_scan_bounded)
    = recorded statement, byte for byte"""
    cases, seen = [], set()
    gen = [l for l in lines if l["kind"] == "stmt" and l["ep"] == "tempo_search_gen" and l.get("gen")]
    for l in lines:
        if l["kind"] != "stmt" or l["ep"] not in TV_EPS or l["zone"] not in (0, -43200):
            continue
        key = (l["ep"], l["cluster"], l["schema"], l["class"])
        if key in seen or len([k for k in seen if k[:3] == key[:3]]) >= 3:
            continue
        seen.add(key)
        cases.append(l)
    if not cases:
        ck.obligation("Tempo v1 statements of the sweep compared with the model", False, "no statement found")
        return
    items = []
    nfixed = len(cases)
    cases = cases + gen
    TGOP = {"=": "TgEq", "!=": "TgNeq", "=~": "TgRe", "!~": "TgNre"}
    DUR = {"": 0, "1ms": 1000000, "1500us": 1500000, "250ms": 250000000, "2s": 2000000000}
    ghist = {}
    for i, l in enumerate(cases):
        if i >= nfixed:
            g = l["gen"]
            tags = "[" + "; ".join("{| tg_key := %s; tg_op := %s; tg_val := %s |}" % (coq_string(t[0]), TGOP[t[1]], coq_string(t[2])) for t in (g.get("tags") or [])) + "]"
            req = "TSearch %s %d %d %d true" % (tags, int(g["limit"] or "10"), DUR[g["min_dur"]], DUR[g["max_dur"]])
            for k in (["tags=%d" % len(g.get("tags") or []), "limit=" + (g["limit"] or "absent"), "min=" + (g["min_dur"] or "absent"), "max=" + (g["max_dur"] or "absent"),
                       "cluster" if l["cluster"] else "single"] + ["op" + t[1] for t in (g.get("tags") or [])]):
                ghist[k] = ghist.get(k, 0) + 1
        else:
            req = TV_EPS[l["ep"]]
            if "%s" in req:
                req = req % ("true" if l["schema"] != "old" else "false")
        items.append('{| tv_id := %d; tv_db := "verif"; tv_cluster := %s; tv_from := %d; tv_to := %d; tv_req := %s; tv_sql := %s |}' % (
            i, "true" if l["cluster"] else "false", l["from_ns"], l["to_ns"], req, coq_string(l["sql"])))
    txt = ("From Coq Require Import List ZArith NArith String Ascii Bool.\n"
           "From Qryn Require Import lib.Strs model.Sql model.Scans model.ScansTempo.\n"
           "Import ListNotations.\nOpen Scope string_scope.\nOpen Scope Z_scope.\n"
           "Definition cases : list tv1_case := [\n " + ";\n ".join(items) + "].\n"
           "Definition M := Eval vm_compute in tv1_mismatches cases.\nPrint M.\n")
    rc, out = ck.coq_eval("C13_tempo", txt, timeout=600)
    flat = " ".join((out or "").split())
    m = re.search(r"M = \[(.*?)\]\s*: list Z", flat)
    if rc != 0 or not m:
        ck.obligation("Tempo v1 statement model evaluated on the requests of the sweep", False, (out or "")[-1500:])
        return
    bad = [int(x) for x in re.findall(r"-?\d+", m.group(1))]
    eps = {c["ep"] for c in cases}
    eps.discard("tempo_search_gen")
    ck.obligation("correspondence: render (search_query / trace_query / tags_query / values_query) = recorded Tempo v1 statement, byte for byte, on %d statements "
                  "(%d endpoints, both layouts) + %d generated /api/search requests (0-3 tags with = != =~ !~, quoted keys / values with spaces, quotes, "
                  "backslashes and non-ASCII bytes, limit absent / 0 / 1 / 20 / 100, minDuration / maxDuration absent or set)" % (nfixed, len(eps), len(gen)),
                  not bad and len(eps) == len(TV_EPS) and len(gen) >= 40,
                  "; ".join("%s %s %s: %.400s" % (cases[i]["ep"], "cluster" if cases[i]["cluster"] else "single", cases[i]["class"], cases[i]["sql"]) for i in bad[:3]))
    ck.extra["tempo_v1_model_ties"] = len(cases)
    ck.extra["tempo_search_generated_distribution"] = ghist
    ck.coverage["evaluations"] += len(cases)


# ---------------------------------------------------------------- the stored day of trace attribute rows
def run_spandate(ck):
    if not ck.go_build("spandate"):
        ck.obligation("harness spandate builds against the repository", False, ck.build_out[-1500:])
        return
    outp = os.path.join(ck.work, "spandate.jsonl")
    rc, out = ck.go_run("spandate", ["--seed", ck.seed, "--n", ck.n(640, 640), "--out", outp])
    if rc != 0:
        ck.obligation("harness spandate ran", False, out[-1500:])
        return
    cs = [json.loads(x) for x in open(outp)]
    corpus = os.path.join(VERIF, "corpus", "C13", "spandate_fixed.jsonl")
    if os.path.exists(corpus):
        outc = os.path.join(ck.work, "spandate_corpus.jsonl")
        rc, out = ck.go_run("spandate", ["--cases", corpus, "--out", outc])
        if rc != 0:
            ck.obligation("harness spandate ran the corpus", False, out[-1500:])
            return
        cs = [json.loads(x) for x in open(outc)] + cs
    errs = [c for c in cs if c.get("err")]
    ck.obligation("spandate: every span was accepted by the real parsers (%d spans: OTLP and Zipkin, 32 process zones)" % len(cs), not errs and len(cs) >= 600,
                  "; ".join("%s %s" % (c["fmt"], c["err"]) for c in errs[:3]))
    items = ["{| dc_id := %d; dc_off := %d; dc_ts := %d; dc_days := [%s] |}" % (c["id"], c["offset"], c["ts_ns"], "; ".join(str(d) for d in c["days"])) for c in cs]
    txt = ("From Coq Require Import List ZArith NArith String Ascii Bool.\n"
           "From Qryn Require Import model.Scans model.ScanCases.\nImport ListNotations.\nOpen Scope Z_scope.\n"
           "Definition cases : list day_case := [\n " + ";\n ".join(items) + "].\n"
           "Definition M := Eval vm_compute in day_mismatches cases.\nPrint M.\n"
           "Definition V := Eval vm_compute in day_spec_violations cases.\nPrint V.\n")
    rc, out = ck.coq_eval("C13_spandate", txt, timeout=600)
    flat = " ".join((out or "").split())
    m = re.search(r"M = \[(.*?)\]\s*: list Z", flat)
    v = re.search(r"V = \[(.*?)\]\s*: list Z", flat)
    if rc != 0 or not m or not v:
        ck.obligation("stored days evaluated inside Coq", False, (out or "")[-1500:])
        return
    mm = [int(x) for x in re.findall(r"-?\d+", m.group(1))]
    vv = [int(x) for x in re.findall(r"-?\d+", v.group(1))]
    by = {c["id"]: c for c in cs}
    ck.obligation("correspondence: model attrs_stored_day = day of the Date column the real trace write path produces, %d spans under 32 process time zones" % len(cs),
                  not mm, "; ".join("zone %+d ts %d %s: days %s" % (by[i]["offset"], by[i]["ts_ns"], by[i]["fmt"], by[i]["days"]) for i in mm[:4]))
    ck.obligation("spec: every trace attribute row is filed under the UTC day of its span (the day every reader date bound is computed from)",
                  not vv, "; ".join("zone %+d ts %d %s: days %s" % (by[i]["offset"], by[i]["ts_ns"], by[i]["fmt"], by[i]["days"]) for i in vv[:4]))
    if vv:
        c = min((by[i] for i in vv), key=lambda c: (abs(c["offset"]), c["ts_ns"]))
        ck.violation({"property": "C13", "part": "writer-side index date", "kind": "a trace attribute row is filed under a day the reader's date bounds do not cover",
                      "format": c["fmt"], "zone_seconds_east": c["offset"], "span_timestamp_ns": c["ts_ns"], "utc_day": c["ts_ns"] // (86400 * 10**9),
                      "stored_days": c["days"], "replay": "harness spandate: one span with this timestamp under time.Local = FixedZone(offset)"})
    hist = {}
    for c in cs:
        hist[c["class"] + "/" + c["fmt"]] = hist.get(c["class"] + "/" + c["fmt"], 0) + 1
    ck.extra["spandate_classes"] = hist
    ck.coverage["evaluations"] += len(cs)
    ck.coverage["distinct_nontrivial"] += len({(c["offset"], c["ts_ns"], c["fmt"]) for c in cs})


def static_date_sites(ck):
    """every `Format("2006-01-02")` of the reader (the only way a date bound is made) is applied to a UTC time:
    a source-level guard for statement builders the sweep does not reach (plugins, new endpoints)"""
    from vcheck import REPO
    bad, n = [], 0
    for root, _, files in os.walk(os.path.join(REPO, "reader")):
        for fn in files:
            if not fn.endswith(".go") or fn.endswith("_test.go"):
                continue
            path = os.path.join(root, fn)
            for i, ln in enumerate(open(path, errors="replace"), 1):
                for m in re.finditer(r'\.Format\("2006-01-02"\)', ln):
                    n += 1
                    # the receiver chain: back to the start of the call chain on this line
                    k = m.start()
                    depth = 0
                    j = k
                    while j > 0:
                        ch = ln[j - 1]
                        if ch == ")":
                            depth += 1
                        elif ch == "(":
                            if depth == 0:
                                break
                            depth -= 1
                        elif depth == 0 and not (ch.isalnum() or ch in "._"):
                            break
                        j -= 1
                    if ".UTC()" not in ln[j:k]:
                        bad.append("%s:%d: %s" % (os.path.relpath(path, REPO), i, ln.strip()[:120]))
    ck.obligation("every date formatted for a SQL date bound in reader/ is taken in UTC (%d sites)" % n, not bad and n >= 10, "; ".join(bad[:5]))
    if bad:
        ck.violation({"property": "C13", "part": "source sites", "kind": "a date bound is formatted in the process time zone",
                      "sites": bad, "explanation": "date columns hold UTC days; a bound formatted in the local zone is too tight west (upper) or east (lower) of UTC"},
                     no_input=True)


SLOT_NS = 15000000000      # Scans.table_info: metrics_15s = CSlot 15000000000


def static_slot_stamp(ck):
    """the roll-up table is a slot table of exactly the width the oracle assumes: every materialized view that fills metrics_15s
    (ctrl/qryn/sql/*.sql) stamps its rows with intDiv(samples.timestamp_ns, 15000000000) * 15000000000 and groups by that stamp"""
    from vcheck import REPO
    d = os.path.join(REPO, "ctrl", "qryn", "sql")
    views, bad = 0, []
    for fn in sorted(os.listdir(d)) if os.path.isdir(d) else []:
        if not fn.endswith(".sql"):
            continue
        txt = open(os.path.join(d, fn), errors="replace").read()
        for m in re.finditer(r"CREATE MATERIALIZED VIEW[^;]*?\bTO\s+(?:\{\{\.DB\}\}\.)?metrics_15s(?:_dist)?\b([^;]*);", txt, re.S):
            views += 1
            body = " ".join(m.group(1).split())
            if ("intDiv(samples.timestamp_ns, %d) * %d as timestamp_ns" % (SLOT_NS, SLOT_NS)) not in body or not re.search(r"GROUP BY fingerprint, timestamp_ns\b", body):
                bad.append("%s: %.160s" % (fn, body))
    ck.obligation("metrics_15s is filled only by views that stamp a row with the start of its 15-second slot (%d views; the slot width of Scans.table_info)" % views,
                  not bad and views >= 2, "; ".join(bad[:3]) or ("" if views >= 2 else "no view found"))
    if bad:
        ck.violation({"property": "C13", "part": "schema", "kind": "the roll-up table is not stamped on the slot boundaries the read bounds assume", "views": bad},
                     no_input=True)


def run(ck):
    ck.trusted += [
        "C13: ClickHouse semantics of WHERE/PREWHERE conjuncts (a row is returned only if every conjunct holds; SELECT aliases resolve in WHERE) "
        "is the reading behind scan_bounded; window_semantic states it over an abstract row predicate",
        "C13: harness/sqlparse and ocaml/scans_driver.ml are untrusted (every tree is validated: render tree = statement text, wf_parsed); "
        "the normalisation `as ((` -> `as (` of redundant parentheses around a WITH body (checks/c13.py normalize) is trusted",
        "C13: the enumerators scans / tq_scans / presult_scans and the conjunct translation cv are the definition of 'every read of a statement'; the only "
        "statement builder left without a Coq model is ProfService.ProfileStats (no window in its API: recorded finding), judged per recorded statement",
        "C13: a metrics_15s row stamped S holds exactly the samples of [S, S + 15 s) (ClickHouse materialized view semantics; the stamping expression of "
        "the views is checked in the schema text on every run): the reading behind Scans.slot_bounded",
        "C13: stored dates: trace attribute rows tied to the real write path by harness spandate (32 zones); series rows by C04 (fix 433b3ba); "
        "profiles_series dates are computed by a materialized view inside ClickHouse (not modelled)",
    ]
    # the shared sqltext runs use fixed scratch-directory names ("logql", "logqlm") under .build/ocaml/<repo>/:
    # checks of other properties running at the same time build in the same directory. Keep ours apart.
    orig_ocaml_eval = ck.ocaml_eval
    ck.ocaml_eval = lambda name, *a, **k: orig_ocaml_eval("C13_" + name, *a, **k)
    try:
        from checks import sqltext
    except ImportError:
        sqltext = None

    def text_ties():
        if sqltext is not None and not ck.replay:
            # the planner theorems are about LogqlPlan.v: tie it to the Go planners byte for byte
            sqltext.run_logql(ck, n_quick=400, n_thorough=20000)
            if hasattr(sqltext, "run_logql_metric"):
                sqltext.run_logql_metric(ck, n_quick=300, n_thorough=15000)
        if not ck.replay:
            static_date_sites(ck)
            static_slot_stamp(ck)
            run_spandate(ck)

    # three independent parts side by side: the theorems (compiling props/C13.v with Print Assumptions takes ~20 s), the two
    # LogQL text ties + the span dates, and the endpoint sweep. Everything is BUILT first (one scheduler run, a no-op when the
    # .vo files are fresh), so that no part reads a .vo another part is writing.
    ok, out = ck.coq_make(["props/C13.vo", "model/ScanCases.vo", "model/LogqlCases.vo", "model/LogqlMetricSem.vo"])
    if not ok:
        ck.coq_props()      # reports the failing theorems
        return
    from concurrent.futures import ThreadPoolExecutor
    with ThreadPoolExecutor(max_workers=2) as ex:
        futs = [ex.submit(ck.coq_props), ex.submit(text_ties)]
        run_scan(ck)
        for f in futs:
            f.result()
