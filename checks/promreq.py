"""C17, round 6 — PromQL REQUESTS through the real router, overlapping under generated interleavings, and Selects
whose row streams break off (harness/cmd/promreq, coq/model/PromReq.v).

kind "overlap": 2-3 query / query_range requests on ONE reader process (real router, controller, engine, the router's
one CLokiQueriable), gated at Querier(), inside the sample rows and inside the label rows, advanced by a generated
schedule.  Judged per request: (a) every statement and every row read of a request runs under the context of THAT
request, done only when the request itself ended, i.e. its client went away (model PromReq.run = observed trace = the
trace specification spec_looks), (b) the HTTP answer
is exactly what Prometheus answers over the request's stored samples (each selected series once, under its own label
set, all points), or an error when the request's own row stream failed.
kind "stream": one Select whose sample / label row stream reports a driver error after k rows: an error, never a
shorter series set (model select_stream; spec stream_spec_ok on the observation).
"""
import json
import os
import re

from vcheck import VERIF, coq_list, coq_N, coq_Z, coq_string


def nat(n):
    return "%d%%nat" % n


def labels_coq(l):
    return coq_list(["(%s, %s)" % (coq_string(k), coq_string(v)) for k, v in l])


def stream_case(c):
    rows = coq_list(["{| r_fp := %s; r_val := %s; r_ts := %s |}" % (coq_N(r["fp"]), coq_Z(r["val"]), coq_Z(r["ts"])) for r in c.get("rows") or []])
    fetch = coq_list(["(%s, %s)" % (coq_N(f["fp"]), labels_coq(f["labels"])) for f in c.get("fetch") or []])
    cut = lambda k: "None" if k is None or k < 0 else "(Some %s)" % nat(k)
    if c.get("sel_err"):
        obs = "SelErr"
    else:
        obs = "(SelOk %s)" % coq_list([
            "{| o_labels := %s; o_fp := %s; o_samples := %s |}" % (
                labels_coq(o["labels"]), coq_N(o["fp"]), coq_list(["(%s, %s)" % (coq_Z(t), coq_Z(v)) for t, v in o["samples"]]))
            for o in c.get("obs") or []])
    return ("{| tc_id := %d; tc_rows := {| st_rows := %s; st_cut := %s |}; tc_fetch := {| st_rows := %s; st_cut := %s |}; tc_obs := %s |}"
            % (c["id"], rows, cut(c.get("cut_rows")), fetch, cut(c.get("cut_labels")), obs))


EV = {"set": "ESet", "querier": "EQuerier", "look": "ELook", "end": "EEnd"}


def overlap_case(c):
    tr, obs = [], []
    for e in c.get("trace") or []:
        r = e["r"]
        if r < 0:       # a statement whose sender the driver could not name (refused under a done context)
            r = 999
        tr.append("%s %s" % (EV[e["e"]], coq_N(r)))
        if e["e"] == "look":
            cr = e.get("ctx_req", 0)
            obs.append("(%s, %s, %s)" % (coq_N(r), "None" if cr < 0 else "Some %s" % coq_N(cr), "true" if e.get("done") else "false"))
    return "{| oc_id := %d; oc_trace := %s; oc_obs := %s |}" % (c["id"], coq_list(tr), coq_list(obs))


def eval_cases(ck, name, cases):
    ov = [c for c in cases if c["kind"] == "overlap"]
    st = [c for c in cases if c["kind"] == "stream"]
    txt = ("From Coq Require Import List ZArith NArith Bool String.\nFrom Qryn Require Import model.PromSelect model.PromReq.\n"
           "Import ListNotations.\nOpen Scope string_scope.\nOpen Scope Z_scope.\n"
           "Definition ocases : list ocase := [\n  " + ";\n  ".join(overlap_case(c) for c in ov) + "].\n"
           "Definition scases : list stcase := [\n  " + ";\n  ".join(stream_case(c) for c in st) + "].\n"
           "Definition OM := Eval vm_compute in overlap_mismatches ocases.\nPrint OM.\n"
           "Definition OV := Eval vm_compute in overlap_spec_violations ocases.\nPrint OV.\n"
           "Definition OW := Eval vm_compute in overlap_not_wf ocases.\nPrint OW.\n"
           "Definition SM := Eval vm_compute in stream_mismatches scases.\nPrint SM.\n"
           "Definition SV := Eval vm_compute in stream_spec_violations scases.\nPrint SV.\n")
    rc, out = ck.coq_eval(name, txt)
    if rc != 0:
        return None, out
    flat = " ".join(out.split())
    res = {}
    for k in ("OM", "OV", "OW", "SM", "SV"):
        m = re.search(r"\b%s = \[(.*?)\]\s*: list Z" % k, flat)
        if not m:
            return None, out
        res[k] = [int(x) for x in re.findall(r"-?\d+", m.group(1))]
    return res, out


def req_ok(r):
    if r.get("cancelled"):      # its client went away: no answer is owed (its looks are judged by the trace specification)
        return True
    if r.get("want_err"):
        return r["status"] >= 500
    return r["status"] == 200 and r["got"] == r["want"]


def slim_req(r):
    return {k: r.get(k) for k in ("kind", "query", "ms", "start", "end", "step", "db", "parks", "fail", "cancel_after", "cancelled", "status", "err_msg", "got", "want", "want_err", "looks")}


def size(c):
    if c["kind"] == "stream":
        return (0, len(c.get("rows") or []))
    return (len(c["reqs"]), sum(len(s["samples"]) for r in c["reqs"] for s in r["db"]))


def run(ck):
    ck.trusted += [
        "C17 requests: the scripted database/sql driver stands for ClickHouse (it answers a request's statements from the request's stored series by Prometheus' labels.Matcher and ends a row stream with the error of the statement's context when that context is done, as clickhouse-go does); database/sql, net/http (cancels the request context when the handler returns) and the PromQL engine are the real ones",
        "C17 requests: the interleavings are those the gates can produce (park points: inside Querier(), before a sample row, before a label row); PromReq.wf (set-up, Querier(), statements, end per request) is what controller and engine do for one request and is checked on every observed trace",
    ]
    ok, out = ck.coq_make(["model/PromReq.vo"])
    if not ok:
        ck.obligation("request / stream model builds", False, out[-1500:])
        return
    if not ck.go_build("promreq"):
        ck.obligation("harness promreq builds against the repository", False, ck.build_out[-1500:])
        return
    n = ck.n(300, 6000)
    cases = []
    corpus = os.path.join(VERIF, "corpus", "C17", "promreq.jsonl")
    if os.path.exists(corpus):
        outp = os.path.join(ck.work, "promreq_corpus.jsonl")
        rc, out = ck.go_run("promreq", ["--cases", corpus, "--out", outp])
        if rc != 0:
            ck.obligation("harness promreq ran the corpus", False, out[-1500:])
            return
        for i, ln in enumerate(open(outp)):
            c = json.loads(ln)
            c["id"] = 1000000 + i
            c["class"] = (c.get("class") or []) + ["corpus"]
            cases.append(c)
    outp = os.path.join(ck.work, "promreq.jsonl")
    rc, out = ck.go_run("promreq", ["--seed", ck.seed, "--n", n, "--out", outp], timeout=1800)
    if rc != 0:
        ck.obligation("harness promreq ran", False, out[-1500:])
        return
    cases += [json.loads(ln) for ln in open(outp)]
    byid = {c["id"]: c for c in cases}

    broken = [c for c in cases if c.get("err")]
    ck.obligation("every scenario ran as scheduled (%d scenarios)" % len(cases), not broken,
                  "; ".join("%d: %s" % (c["id"], c["err"]) for c in broken[:5]))

    stuck = [c for c in broken if "never answered" in c["err"] or "did not reach" in c["err"]]
    if stuck:       # a request that hangs (e.g. a panic inside database/sql that leaves the pool locked): the scenario IS the failing input
        c = stuck[0]
        ck.violation({"property": "C17", "part": "overlapping requests", "kind": "a request never answered (the reader hangs): " + c["err"],
                      "case": {"id": c["id"], "kind": c["kind"], "class": c.get("class"), "reqs": [slim_req(x) for x in c.get("reqs") or []], "schedule": c.get("schedule"), "trace": c.get("trace")},
                      "replay": "harness promreq --cases <file with .case on one line>"})
        return
    res = {"OM": [], "OV": [], "OW": [], "SM": [], "SV": []}
    shard = 1500
    for k in range(0, len(cases), shard):
        r, out = eval_cases(ck, "C17_promreq_%d" % (k // shard), cases[k:k + shard])
        if r is None:
            ck.obligation("request / stream cases evaluated inside Coq", False, out[-1500:])
            return
        for key in res:
            res[key] += r[key]

    ov = [c for c in cases if c["kind"] == "overlap"]
    st = [c for c in cases if c["kind"] == "stream"]
    bad_req = [(c, i) for c in ov for i, r in enumerate(c["reqs"]) if not req_ok(r)]
    nreq = sum(len(c["reqs"]) for c in ov)
    ck.obligation("observed traces are well-formed (PromReq.wfc: the hypothesis of overlapping_requests_follow_the_trace_specification)", not res["OW"], "case ids %s" % res["OW"][:10])
    ck.obligation("correspondence: PromReq.run (per-request copy of the queryable) = observed contexts of %d overlap scenarios" % len(ov),
                  not res["OM"], "case ids %s" % res["OM"][:10])
    ck.obligation("spec spec_looks: every statement / row read of a request runs under its own context, done only when the request itself ended (its client went away)", not res["OV"], "case ids %s" % res["OV"][:10])
    ck.obligation("every request answers exactly its matching series with all points, or an error when its own stream failed (%d requests)" % nreq,
                  not bad_req, "case ids %s" % [c["id"] for c, _ in bad_req[:10]])
    ck.obligation("correspondence: select_stream = real Select on %d failing / complete row streams" % len(st), not res["SM"], "case ids %s" % res["SM"][:10])
    ck.obligation("spec stream_spec_ok: a stream that broke off is an error, a complete one answers every series", not res["SV"], "case ids %s" % res["SV"][:10])

    if bad_req:
        c, i = min(bad_req, key=lambda ci: (ci[0]["id"] < 1000000, any(r.get("fail") for r in ci[0]["reqs"]) and not ci[0]["reqs"][ci[1]].get("want_err"), size(ci[0])))
        r = c["reqs"][i]
        what = ("the request's own row stream failed (driver error) but it answered %d" % r["status"]) if r.get("want_err") else \
               ("nobody cancelled request %d and its streams did not fail, but it answered %d %s" % (i, r["status"], r.get("err_msg") or "")
                if r["status"] != 200 else "HTTP 200 with other series / points than the stored ones")
        ck.violation({"property": "C17", "part": "overlapping requests", "kind": what, "failing_request": i,
                      "got": r["got"], "want": r["want"], "status": r["status"], "err_msg": r.get("err_msg"),
                      "foreign_or_done_contexts": [l for l in r["looks"] if l["ctx_req"] != i or l["done"]],
                      "clients_that_went_away": [j for j, x in enumerate(c["reqs"]) if x.get("cancelled")],
                      "case": {"id": c["id"], "kind": "overlap", "class": c["class"], "reqs": [slim_req(x) for x in c["reqs"]], "schedule": c["schedule"], "trace": c["trace"]},
                      "replay": "harness promreq --cases <file with .case on one line>"})
    elif res["OV"]:
        c = min((byid[i] for i in res["OV"]), key=size)
        ck.violation({"property": "C17", "part": "overlapping requests", "kind": "a querier ran a statement under another request's context (or a context cancelled by another request's end); the answers happened to be right",
                      "case": {"id": c["id"], "kind": "overlap", "class": c["class"], "reqs": [slim_req(x) for x in c["reqs"]], "schedule": c["schedule"], "trace": c["trace"]},
                      "replay": "harness promreq --cases <file with .case on one line>"})
    elif res["OM"] or res["OW"]:
        c = min((byid[i] for i in res["OM"] + res["OW"]), key=size)
        ck.violation({"property": "C17", "part": "overlapping requests", "kind": "model PromReq.run and the observed trace disagree", "case": c}, no_input=True)
    if res["SV"]:
        c = min((byid[i] for i in res["SV"]), key=size)
        ck.violation({"property": "C17", "part": "row streams", "kind": "Select answered a row stream that broke off as a result (series missing, samples missing or series under the empty label set)"
                      if c.get("cut_rows", -1) >= 0 or c.get("cut_labels", -1) >= 0 else "Select's result on complete streams violates select_spec_ok",
                      "case": c, "replay": "harness promreq --cases <file with .case on one line>"})
    elif res["SM"]:
        c = min((byid[i] for i in res["SM"]), key=size)
        ck.violation({"property": "C17", "part": "row streams", "kind": "model select_stream and Select disagree", "case": c}, no_input=True)

    # coverage
    hist = {}
    distinct = set()
    for c in cases:
        hist[c["kind"]] = hist.get(c["kind"], 0) + 1
        for cl in c.get("class") or []:
            hist[cl] = hist.get(cl, 0) + 1
        if c["kind"] == "overlap":
            if any(len(r["want"]) >= 1 for r in c["reqs"]) and len(set(c["schedule"])) >= 2:
                distinct.add(json.dumps([[slim_req(r)["db"], r["ms"], r["parks"], r.get("fail")] for r in c["reqs"]] + [c["schedule"]], sort_keys=True))
        elif len(c.get("rows") or []) >= 2:
            distinct.add(json.dumps([c["rows"], c["fetch"], c["cut_rows"], c["cut_labels"]], sort_keys=True))
    looks = sum(len(r["looks"]) for c in ov for r in c["reqs"])
    ck.coverage["evaluations"] += len(cases)
    ck.coverage["distinct_nontrivial"] += len(distinct)
    ck.coverage["rule"] += ("requests: 2-3 overlapping query / query_range requests over a plain selector (0-2 further matchers = != =~ !~ on present and absent labels) with 1-4 stored series each, "
                            "park points inside Querier() / before a sample row / before a label row, schedule = random interleaving or the overtaking pattern (Y waits inside Querier(), X runs from set-up to end, "
                            "Y reads its rows), 1 in 6 requests with a driver error inside its own stream, 1 in 5 requests with park points loses its client at one of them; streams: Select over 1-4 series whose sample or label stream breaks off after k rows; "
                            "non-trivial = overlap scenario where some request selects a series and two requests interleave / stream case with >= 2 rows; distinct by content. ")
    ck.extra["promreq_input_classes"] = hist
    ck.extra["promreq_measured"] = {"overlap_scenarios": len(ov), "requests": nreq, "context_looks_observed": looks,
                                    "scenarios_with_seed_C17f_interleaving (class overtaken)": hist.get("overtaken", 0),
                                    "of_those_the_other_request_ended_inside_the_label_rows": hist.get("overtaken-inside-label-rows", 0),
                                    "requests_whose_client_went_away": sum(1 for c in ov for r in c["reqs"] if r.get("cancelled")),
                                    "requests_with_failing_own_stream": hist.get("stream-fails/samples", 0) + hist.get("stream-fails/labels", 0),
                                    "stream_cases": len(st)}
    ck.add_samples([{"kind": "overlap", "queries": [r["query"] for r in c["reqs"]], "parks": [r["parks"] for r in c["reqs"]], "schedule": c["schedule"],
                     "trace": ["%s %d" % (e["e"], e["r"]) for e in c["trace"]]} for c in ov[:1]])
