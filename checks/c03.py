"""C03 — log and metric ingest decodes every entry to exactly one faithful row.

Second session: parseLabelsLokiFormat (model/LokiLabels.v), parseTime (model/LokiTime.v) and the walk of pushRequestDec over the JSON
document (model/LokiJson.v) are transcribed and tied at their own level (run_labels, run_time, the jcase evaluation of every Loki JSON body).

model/Decode.v transcribes the seven decoders of writer/utils/unmarshal down to the onEntries callback and
builder.go onEntries/flush (chunking); props/C03.v proves, for every body, every fingerprint function, every
cache and every value of the two flush thresholds, that the concatenated sample rows are exactly one row per
submitted entry (decode_faithful_<proto>, chunking_irrelevant, decode_total).

Tie to the code, every run:
  * translate/gen_decode_consts re-reads the constants (thresholds, size overheads, type bytes, the
    sanitising patterns) from the Go source into coq/gen/DecodeConsts.v;
  * harness/cmd/decode serialises generated abstract bodies to the real wire formats, runs the seven exported
    parsers, keeps every ParserResponse by reference until the channel is closed (as controller.doParse/doPush
    do) and prints the response sequence as read at the END of the request (plus chunks_stable: a digest taken
    at receive time must still hold); inside Coq (vm_compute) the model's chunk list is compared
    with the observed one (mismatches) and the specification oracle is run on the OBSERVED rows
    (spec_violations): one row per entry, in order, own stream's fingerprint, exact ts/line/value/ttl/type.
"""
import importlib.machinery
import importlib.util
import json
import os
import re

import vcheck

ROOT = os.path.dirname(os.path.dirname(os.path.abspath(__file__)))
PID = "C03"

# the patterns the model's sanitize_go / sanitize_key transcribe
EXPECT_RE = {
    "SANITIZE_RE": "(^[^a-zA-Z_]|[^a-zA-Z0-9_])",
    "METRIC_NAME_RE": "(^[^a-zA-Z_]|[^a-zA-Z0-9_])",
    "OTLP_KEY_RE": "[^a-zA-Z0-9_]",
}

HEADER = ("From Coq Require Import List ZArith NArith Bool String Uint63.\n"
          "From Qryn Require Import model.Decode.\n"
          "Import ListNotations.\nOpen Scope string_scope.\nOpen Scope Z_scope.\n")


def regen(ck):
    rc, out = vcheck.sh([os.path.join(ROOT, "translate", "gen_decode_consts")], timeout=60)
    ck.checker_cmds.append("translate/gen_decode_consts")
    ck.obligation("translator gen_decode_consts: every constant of the decoders found exactly once in the source", rc == 0, out[-1500:])
    if not os.path.exists(os.path.join(vcheck.BUILD, "gen", "DecodeConsts.json")):
        return None
    if rc != 0 and "source_changed_shape" in open(os.path.join(vcheck.COQ, "gen", "DecodeConsts.v")).read():
        return None
    info = json.load(open(os.path.join(vcheck.BUILD, "gen", "DecodeConsts.json")))
    c = info["consts"]
    bad = ["%s is %r, the model transcribes %r" % (k, c.get(k), v) for k, v in EXPECT_RE.items() if c.get(k) != v]
    ck.obligation("sanitising patterns in the source are the ones the model transcribes", not bad, "; ".join(bad))
    ck.extra["decode_consts"] = c
    st = info.get("package_state", [])
    unlisted = [x for x in st if x["kind"] == "other"]
    ck.extra["package_state"] = {"variables": len(st), "not_parser_regexp_or_function": unlisted}
    if unlisted:
        ck.log("package-level variables of writer/utils/unmarshal that are neither parsers, regexps nor function values: %s -- four times as many histories are generated"
               % [x["name"] for x in unlisted])
    c["_more_histories"] = bool(unlisted)
    return c


def eval_cases(ck, name, cases):
    """-> (mismatch ids, spec violation ids, unmodelled ids, coq output)"""
    txt = (HEADER + "Definition cases : list case := [\n  " + ";\n  ".join(c["coq"] for c in cases) + "].\n"
           "Definition R := Eval vm_compute in check_all cases.\n"
           "Definition M := Eval vm_compute in fst (fst R).\nPrint M.\n"
           "Definition V := Eval vm_compute in snd (fst R).\nPrint V.\n"
           "Definition U := Eval vm_compute in snd R.\nPrint U.\n")
    rc, out = ck.coq_eval(name, txt)
    if rc != 0:
        return None, None, None, out
    flat = " ".join(out.split())
    res = []
    for k in "MVU":
        m = re.search(r"%s = \[(.*?)\]\s*: list Z" % k, flat)
        if not m:
            return None, None, None, out
        res.append([int(x) for x in re.findall(r"-?\d+", m.group(1))])
    return res[0], res[1], res[2], out


def case_weight(c):
    return len(c.get("coq", ""))


def shards(cases, max_bytes=700_000, max_n=120):
    cur, size = [], 0
    for c in cases:
        w = case_weight(c)
        if cur and (size + w > max_bytes or len(cur) >= max_n):
            yield cur
            cur, size = [], 0
        cur.append(c)
        size += w
    if cur:
        yield cur


def strip(c):
    """a case as written to replay/corpus files: no Coq text, no wire bytes"""
    return {k: v for k, v in c.items() if k not in ("coq", "coqj", "wire_hex")}


def small(c):
    """the case as written into a replay: always re-runnable (body, wseed, cache, split, ctx_ttl); the observations are
    summarised when they are large"""
    d = strip(c)
    if len(json.dumps(d)) > 20000:
        d = dict(d)
        d["obs"] = {"err": c["obs"]["err"], "errmsg": c["obs"].get("errmsg", ""), "chunks": [], "fptab": [],
                    "responses": len(c["obs"]["chunks"]), "rows_per_response": [len(k["ts"]) for k in c["obs"]["chunks"]],
                    "changed_after_receive": c["obs"].get("changed_after_receive", [])}
        if len(json.dumps(d)) > 4000000:
            d = {"id": c["id"], "proto": c["proto"], "class": c["class"], "wseed": c["wseed"], "nrows": c["nrows"],
                 "note": "very large case: regenerate with harness decode --seed <seed> --n <n>, id as given"}
    return d


def load_jsonl(p):
    import base64
    cs = [json.loads(l) for l in open(p) if l.strip()]
    for c in cs:
        for k in c.get("obs", {}).get("chunks", []):
            if isinstance(k.get("type"), str):          # Go's encoding/json writes []uint8 as base64
                k["type"] = list(base64.b64decode(k["type"]))
            for col in ("ts", "fp", "msg", "val", "ttl", "type"):
                if k.get(col) is None:
                    k[col] = []
    return cs


def run_correspondence(ck, consts):
    henv = {"C03_THRESHOLD": str(consts["THRESHOLD"]), "C03_FLUSH_LIMIT": str(consts["FLUSH_LIMIT"]), "C03_TIER": ck.tier,
            "C03_HISTORY_EVERY": "4" if consts.get("_more_histories") else "16"}
    cases = []
    corpus = os.path.join(ROOT, "corpus", PID, "decode.jsonl")
    if os.path.exists(corpus):
        outp = os.path.join(ck.work, "corpus_out.jsonl")
        rc, out = ck.go_run("decode", ["--cases", corpus, "--out", outp])
        ck.obligation("corpus cases re-run", rc == 0, out[-1500:])
        if rc == 0:
            cs = load_jsonl(outp)
            for i, c in enumerate(cs):
                c["id"] = 1000000 + i
                c["coq"] = re.sub(r"^Case \d+ ", "Case %d " % c["id"], c["coq"])
                if c.get("coqj"):
                    c["coqj"] = re.sub(r"^([JDMW])Case \(Case \d+ ", r"\1Case (Case %d " % c["id"], c["coqj"])
                c["class"] = "corpus:" + c["class"]
            cases += cs
    if ck.replay:
        rp = json.load(open(ck.replay))
        if "case" in rp:
            p = os.path.join(ck.work, "replay_in.jsonl")
            # a step of a history is replayed with the steps before it, in one process
            lines = rp.get("history") or [rp["case"]]
            open(p, "w").write("".join(json.dumps(strip(x)) + "\n" for x in lines))
            outp = os.path.join(ck.work, "replay_out.jsonl")
            rc, out = ck.go_run("decode", ["--cases", p, "--out", outp])
            if rc == 0:
                cs = load_jsonl(outp)
                for i, c in enumerate(cs):
                    c["id"] = 2000000 + i
                    c["coq"] = re.sub(r"^Case \d+ ", "Case %d " % c["id"], c["coq"])
                    if c.get("coqj"):
                        c["coqj"] = re.sub(r"^([JDMW])Case \(Case \d+ ", r"\1Case (Case %d " % c["id"], c["coqj"])
                cases += cs
    n = ck.n(400, 6000)
    outp = os.path.join(ck.work, "decode.jsonl")
    rc, out = ck.go_run("decode", ["--seed", ck.seed, "--n", n, "--out", outp], timeout=1500, env_extra=henv)
    if rc != 0:
        ck.obligation("harness decode ran", False, out[-1500:])
        return
    cases += load_jsonl(outp)
    # more small Loki JSON and Datadog log documents (two of three damaged by one edit) for the walk models
    outp2 = os.path.join(ck.work, "lokidoc.jsonl")
    rc, out = ck.go_run("decode", ["--seed", ck.seed, "--n", ck.n(300, 3000), "--out", outp2], timeout=600, env_extra=dict(henv, C03_ONLY="lokidoc"))
    if rc != 0:
        ck.obligation("harness decode (Loki JSON documents) ran", False, out[-1500:])
        return
    cases += load_jsonl(outp2)
    # a framed snappy stream cut between two chunks is a valid shorter stream (clean EOF): nobody can tell, not judged
    clean_prefix = [c for c in cases if c.get("cut") and c["cut"].get("clean_prefix")]
    cases = [c for c in cases if not (c.get("cut") and c["cut"].get("clean_prefix"))]
    ck.extra["cut_bodies_ending_in_a_clean_eof_not_judged"] = len(clean_prefix)
    byid = {c["id"]: c for c in cases}
    hists = {}
    for c in cases:
        if c.get("hist"):
            hists.setdefault((c["id"] // 1000000, c["hist"]), []).append(c)

    def history_of(c):
        """the steps of c's history up to and including c (None for a body decoded on its own)"""
        if not c.get("hist"):
            return None
        return [small(x) for x in hists[(c["id"] // 1000000, c["hist"])] if x["step"] <= c["step"]]
    mism, viol, unmod = [], [], []
    from concurrent.futures import ThreadPoolExecutor
    # Loki JSON bodies travel with their document tree and are evaluated through the walk of model/LokiJson.v
    jcases = [c for c in cases if c.get("coqj")]
    shs = [("plain", ks) for ks in shards([c for c in cases if not c.get("coqj")])] + \
          [("jcase", ks) for ks in shards([dict(c, coq=c["coqj"]) for c in jcases if c.get("tree_kind") == "jcase"], max_n=80)] + \
          [("dcase", ks) for ks in shards([dict(c, coq=c["coqj"]) for c in jcases if c.get("tree_kind") == "dcase"], max_n=200)] + \
          [("mcase", ks) for ks in shards([dict(c, coq=c["coqj"]) for c in jcases if c.get("tree_kind") == "mcase"], max_n=200)] + \
          [("wcase", ks) for ks in shards([dict(c, coq=c["coqj"]) for c in jcases if c.get("tree_kind") == "wcase"], max_n=200)] + \
          [("fcase", ks) for ks in shards([dict(c, coq=c["coqj"]) for c in jcases if c.get("tree_kind") == "fcase"], max_n=200)] + \
          [("wfcase", ks) for ks in shards([dict(c, coq=c["coqj"]) for c in jcases if c.get("tree_kind") == "wfcase"], max_n=200)] + \
          [("dfcase", ks) for ks in shards([dict(c, coq=c["coqj"]) for c in jcases if c.get("tree_kind") == "dfcase"], max_n=200)]

    def eval_shard(ix):
        i, (kind, ks) = ix
        if kind == "plain":
            return eval_cases(ck, "C03_decode_%d" % i, ks)
        if kind == "jcase":
            m, v, out = eval_two(ck, "C03_decodej_%d" % i, JHEADER, "jcase", ks, "jc_check_all")
        elif kind == "mcase":
            m, v, out = eval_two(ck, "C03_decodem_%d" % i, DHEADER, "mcase", ks, "mc_check_all")
        elif kind == "wcase":
            m, v, out = eval_two(ck, "C03_decodew_%d" % i, WHEADER, "wcase", ks, "wc_check_all")
        elif kind == "fcase":
            m, v, out = eval_two(ck, "C03_decodef_%d" % i, HEADER, "case", ks, "fr_check_all")
        elif kind == "dfcase":
            m, v, out = eval_two(ck, "C03_decodedf_%d" % i, DHEADER, "dcase", ks, "dc_fr_check_all")
        elif kind == "wfcase":
            m, v, out = eval_two(ck, "C03_decodewf_%d" % i, WHEADER, "wcase", ks, "wc_fr_check_all")
        else:
            m, v, out = eval_two(ck, "C03_decoded_%d" % i, DHEADER, "dcase", ks, "dc_check_all")
        return m, v, ([] if m is not None else None), out
    # the heaviest shards first (one body of 40000 samples dominates its shard)
    shs.sort(key=lambda ks: -sum(case_weight(c) for c in ks[1]))
    with ThreadPoolExecutor(max_workers=6) as ex:
        results = list(ex.map(eval_shard, enumerate(shs)))
    for kind, key in (("jcase", "loki_json_documents_walked_in_the_model"), ("dcase", "datadog_log_documents_walked_in_the_model"),
                      ("mcase", "datadog_metric_documents_walked_in_the_model"),
                      ("wcase", "cloudflare_and_elastic_bulk_lines_walked_in_the_model")):
        ks = [c for c in jcases if c.get("tree_kind") == kind]
        ck.extra[key] = {"written": sum(1 for c in ks if not c.get("damage")), "damaged": sum(1 for c in ks if c.get("damage")),
                         "damaged_and_rejected": sum(1 for c in ks if c.get("damage") and c["obs"]["err"]),
                         "free_tags_text": sum(1 for c in ks if "free-tags-text" in c["class"])}
    for m, v, u, out in results:
        if m is None:
            ck.obligation("decode cases evaluated inside Coq", False, out[-2500:])
            return
        mism += m
        viol += v
        unmod += u
    # chunks_stable: a response already sent must not change while the parser goes on (the consumer inserts it later)
    unstable = [c for c in cases if c["obs"].get("changed_after_receive")]
    ck.obligation("chunks_stable: no response changed between the moment it was received and the end of the request (%d bodies with several responses)"
                  % sum(1 for c in cases if len(c["obs"]["chunks"]) > 1), not unstable,
                  "cases: %s" % [(c["id"], c["proto"], c["obs"]["changed_after_receive"]) for c in unstable[:10]])
    known = ck.known_findings()
    # known findings are keyed by proto+class of the generator (the specific input family)
    def finding_of(c):
        for fid in known:
            if fid == "influx-unsigned-field-dropped" and c["proto"] == "influx" and c["class"].endswith("with-unsigned"):
                return fid
        return None
    fresh_viol = []
    for i in viol:
        fid = finding_of(byid[i])
        if fid:
            ck.report_known(fid, known[fid][:200])
        else:
            fresh_viol.append(i)
    fresh_mism = [i for i in mism if not (i in viol and finding_of(byid[i]))]
    nmodelled = len(cases) - len(unmod)
    ck.obligation("correspondence: model Decode.decode = the parsers' response sequence on %d bodies" % nmodelled,
                  not fresh_mism, "mismatching case ids: %s" % fresh_mism[:10])
    ck.obligation("spec oracle (one faithful row per entry) accepts every observed response sequence",
                  not fresh_viol, "violating case ids: %s" % fresh_viol[:10])
    if fresh_viol:
        # one replay per protocol and failure signature, smallest body first
        groups = {}
        for i in fresh_viol:
            c = byid[i]
            got = sum(len(k["ts"]) for k in c["obs"]["chunks"])
            if c.get("hist") and c["step"] > 1 and not c["obs"]["err"] and not c["obs"].get("changed_after_receive"):
                sig = "a body decoded after other bodies in the same process gets rows it does not get on its own (state kept between requests)"
            elif c.get("cut"):
                sig = "a body whose reader failed part-way (%s, %s at byte %d of %d) was answered without an error and with rows other than those of the whole body" % (
                    c["cut"]["enc"], c["cut"]["kind"], c["cut"].get("at", -1), c["cut"].get("of", -1))
            elif c["obs"].get("changed_after_receive"):
                sig = "responses already sent were overwritten while the parser went on (columns read at the end of the request, as the inserting consumer does)"
            elif c["obs"]["err"]:
                sig = "request failed: " + c["obs"]["err"] + " (" + c["obs"].get("errmsg", "")[:80] + ")"
            elif c.get("damage"):
                sig = "a damaged document is accepted with rows other than one per entry the walk finds in it"
            elif got != c["nrows"]:
                sig = "row count differs from the number of submitted entries"
            elif any(len({len(k[col]) for col in ("ts", "fp", "msg", "val", "ttl", "type")}) > 1 for k in c["obs"]["chunks"]):
                sig = "sample columns of one response have different lengths"
            else:
                sig = "a row differs from its entry (fingerprint of another label set, timestamp, line, value, ttl or type)"
            groups.setdefault((c["proto"], sig), []).append(c)
        for (proto, sig), cs in sorted(groups.items())[:12]:
            worst = min(cs, key=lambda c: (c.get("step", 0), c["nrows"], len(json.dumps(c["body"]))))
            if any(c.get("reads") for c in cs):
                sig += "; %d of the %d cases with this signature were delivered to the parser in short reads (1..reads bytes per Read call)" % (sum(1 for c in cs if c.get("reads")), len(cs))
            if any("big-body" in c["class"] for c in cs):
                sig += "; %d of them are bodies longer than the decoder's 64 KiB read buffer" % sum(1 for c in cs if "big-body" in c["class"])
            if worst.get("ttl_multi"):
                sig += "; the body hands a label buffer with a __ttl_days__ label in front of other labels to onEntries more than once (%d of the %d cases with this signature do)" % (
                    sum(1 for c in cs if c.get("ttl_multi")), len(cs))
            ck.violation({"property": PID, "kind": "decoded rows are not one faithful row per submitted entry", "signature": sig,
                          "proto": proto, "class": worst["class"], "case": small(worst), "history": history_of(worst),
                          "history_note": ("step %d of a history: the bodies of 'history' decoded one after another in one process" % worst["step"]) if worst.get("hist") else
                                          "body decoded in a process that had decoded the earlier generated cases; if it does not reproduce alone, run: harness decode --seed %s --n %d" % (ck.seed, worst["id"] + 1),
                          "submitted_entries": worst["nrows"],
                          "observed_rows": sum(len(k["ts"]) for k in worst["obs"]["chunks"]),
                          "observed_column_lengths": [[len(k[col]) for col in ("ts", "fp", "msg", "val", "ttl", "type")] for k in worst["obs"]["chunks"]][:5],
                          "cases_with_this_signature": len(cs),
                          "explanation": "spec_violation (coq/model/Decode.v) rejects the responses of the real parser: expected rows = rows_spec (entries_of body)",
                          "replay": "bin/check C03 --replay <this file>   (or: harness decode --cases <file with the case line>)"})
    elif unstable:
        worst = min(unstable, key=lambda c: (c["nrows"], len(json.dumps(c["body"]))))
        ck.violation({"property": PID, "kind": "a response already sent on the parser channel changed afterwards", "proto": worst["proto"],
                      "class": worst["class"], "case": small(worst), "changed_responses": worst["obs"]["changed_after_receive"],
                      "replay": "bin/check C03 --replay <this file>"})
    elif fresh_mism:
        worst = min((byid[i] for i in fresh_mism), key=lambda c: (c["nrows"], len(json.dumps(c["body"]))))
        ck.violation({"property": PID, "kind": "model/implementation disagree (chunk boundaries, sizes or series rows); rows still faithful",
                      "proto": worst["proto"], "class": worst["class"], "case": small(worst),
                      "broken": "correspondence Decode.decode vs writer/utils/unmarshal"}, no_input=True)
    # coverage
    hist, distinct, errs, caches = {}, set(), {}, {}
    crossed_mib = crossed_1000 = 0
    for c in cases:
        key = c["proto"] + "/" + c["class"]
        hist[key] = hist.get(key, 0) + 1
        caches[c.get("cache") or "never-hit"] = caches.get(c.get("cache") or "never-hit", 0) + 1
        if c["obs"]["err"]:
            errs[key] = errs.get(key, 0) + 1
        if c["nrows"] >= 2:
            distinct.add(json.dumps(c["body"], sort_keys=True))
        if len(c["obs"]["chunks"]) > 1:
            crossed_mib += 1
        if c["proto"] == "prw" and c["nrows"] >= consts["FLUSH_LIMIT"]:
            crossed_1000 += 1
    ck.coverage["evaluations"] += len(cases)
    ck.coverage["distinct_nontrivial"] += len(distinct)
    ck.coverage["rule"] += ("bodies for the seven parsers (Loki JSON both layouts / protobuf, remote write, Influx, Datadog logs/metrics, OTLP logs), "
                            "serialised with random key order, timestamp syntax and layout; every 16th index starts a history of 2..5 bodies over a growing pool of streams "
                            "(same or mixed protocols, known streams in new orders, unseen streams inserted after known ones, announcement cache shared by half of them), all bodies of a run decoded in ONE process; non-trivial = at least 2 submitted entries; distinct by body content. ")
    ck.extra["input_distribution"] = hist
    ck.extra["fingerprint_cache_kinds"] = caches
    ck.extra["bodies_with_more_than_one_chunk"] = crossed_mib
    ck.extra["remote_write_bodies_with_1000_points_or_more"] = crossed_1000
    both = [c for c in cases if c["proto"] == "prw" and c["nrows"] >= consts["FLUSH_LIMIT"] and len(c["obs"]["chunks"]) > 1]
    ndbig = [c for c in cases if c["proto"] in ("ddcf", "esbulk") and len(c["obs"]["chunks"]) > 1]
    ck.extra["remote_write_bodies_crossing_both_thresholds_at_once"] = [{"series": len(c["body"]["prw"]), "points": c["nrows"], "responses": len(c["obs"]["chunks"])} for c in both]
    ck.extra["newline_delimited_bodies_with_more_than_one_chunk"] = len(ndbig)
    ck.obligation("chunking: a multi-series remote-write body crosses the point limit and the size threshold at once (%d bodies), newline-delimited bodies cross the size threshold (%d bodies)" % (len(both), len(ndbig)),
                  bool(both) and bool(ndbig))
    ck.extra["parser_errors_by_class"] = errs
    ck.extra["unmodelled_bodies"] = len(unmod)
    nh = len(hists)
    cuts = {}
    for c in cases:
        if c.get("cut"):
            k = "%s/%s/%s" % (c["proto"], c["cut"]["enc"], c["cut"]["kind"])
            d = cuts.setdefault(k, {"failed": 0, "answered_with_all_rows": 0})
            d["failed" if c["obs"]["err"] else "answered_with_all_rows"] += 1
    ck.extra["bodies_read_through_a_failing_reader"] = cuts
    ck.obligation("bodies read through a reader that fails part-way (truncated / corrupted gzip and snappy streams, broken connection) are part of the run: %d bodies, %d failed, %d answered with the rows of the whole body"
                  % (sum(sum(d.values()) for d in cuts.values()), sum(d["failed"] for d in cuts.values()), sum(d["answered_with_all_rows"] for d in cuts.values())),
                  sum(d["failed"] for d in cuts.values()) > 0)
    ck.extra["histories"] = {"count": nh, "steps": sum(len(v) for v in hists.values()),
                             "with_shared_announcement_cache": sum(1 for v in hists.values() if v[0].get("cache") == "shared"),
                             "mixed_protocols": sum(1 for v in hists.values() if len({x["proto"] for x in v}) > 1)}
    ck.obligation("histories (2..5 bodies decoded one after another in one process) are part of the run: %d histories" % nh, nh > 0)
    sr = {}
    for c in cases:
        if c.get("reads"):
            sr[c["proto"]] = sr.get(c["proto"], 0) + 1
    ck.extra["bodies_delivered_in_short_reads"] = sr
    ddbig = [c for c in cases if c["proto"] == "ddlog" and "big-body" in c["class"] and not c["class"].startswith("corpus:")]
    ck.extra["datadog_log_bodies_longer_than_the_read_buffer"] = [{"entries": c["nrows"], "key_order": c.get("key_order"), "reads": c.get("reads", 0)} for c in ddbig]
    ck.obligation("read-buffer refills: bodies reach the parsers in short reads (%d bodies, every JSON decoder among them), Datadog log bodies longer than the 64 KiB read buffer with message-first entries across every refill (%d bodies)"
                  % (sum(sr.values()), len(ddbig)),
                  all(sr.get(p, 0) > 0 for p in ("loki_json", "ddlog", "ddmet", "ddcf", "esbulk")) and (bool(ddbig) or consts.get("_more_histories") or len(cases) < 300))
    tm = {}
    for c in cases:
        if c.get("ttl_multi"):
            tm[c["proto"]] = tm.get(c["proto"], 0) + 1
    ck.extra["bodies_with_ttl_label_in_front_of_other_labels_on_a_buffer_passed_to_onEntries_twice"] = tm
    ck.extra["bodies_with_a_ttl_label"] = sum(1 for c in cases if "__ttl_days__" in json.dumps(c["body"]))
    ck.obligation("label buffers handed to onEntries more than once carry a __ttl_days__ label in a non-final position (remote write across the flush limit: %d bodies, Influx lines with several numeric fields: %d bodies)"
                  % (tm.get("prw", 0), tm.get("influx", 0)), tm.get("prw", 0) > 0 and tm.get("influx", 0) > 0)
    ck.obligation("both flush thresholds are crossed by generated bodies (%d bytes: %d bodies, %d points: %d bodies)" % (consts["THRESHOLD"], crossed_mib, consts["FLUSH_LIMIT"], crossed_1000),
                  crossed_mib > 0 and crossed_1000 > 0)
    ck.add_samples([small(c) for c in cases if c["nrows"] >= 2 and case_weight(c) < 4000][:3])


JHEADER = ("From Coq Require Import List ZArith NArith Bool String Uint63.\n"
           "From Qryn Require Import model.Decode model.LokiLabels model.LokiTime model.LokiJson.\n"
           "Import ListNotations.\nOpen Scope string_scope.\nOpen Scope Z_scope.\n")

DHEADER = ("From Coq Require Import List ZArith NArith Bool String Uint63.\n"
           "From Qryn Require Import model.Decode model.LokiLabels model.LokiTime model.LokiJson model.DatadogJson.\n"
           "Import ListNotations.\nOpen Scope string_scope.\nOpen Scope Z_scope.\n")

WHEADER = ("From Coq Require Import List ZArith NArith Bool String Uint63.\n"
           "From Qryn Require Import model.Decode model.LokiLabels model.LokiTime model.LokiJson model.NdjsonWalk.\n"
           "Import ListNotations.\nOpen Scope string_scope.\nOpen Scope Z_scope.\n")

LHEADER = ("From Coq Require Import List ZArith NArith Bool String Uint63.\n"
           "From Qryn Require Import model.Decode model.LokiLabels.\n"
           "Import ListNotations.\nOpen Scope string_scope.\nOpen Scope Z_scope.\n")


def eval_two(ck, name, header, ctor_list_type, cases, fn):
    """cases evaluated by <fn> : list case -> list Z * list Z -> (mismatch ids, violation ids, output)"""
    txt = (header + "Definition cases : list %s := [\n  " % ctor_list_type + ";\n  ".join(c["coq"] for c in cases) + "].\n"
           "Definition R := Eval vm_compute in %s cases.\n"
           "Definition M := Eval vm_compute in fst R.\nPrint M.\n"
           "Definition V := Eval vm_compute in snd R.\nPrint V.\n" % fn)
    rc, out = ck.coq_eval(name, txt)
    if rc != 0:
        return None, None, out
    flat = " ".join(out.split())
    res = []
    for k in "MV":
        m = re.search(r"%s = \[(.*?)\]\s*: list Z" % k, flat)
        if not m:
            return None, None, out
        res.append([int(x) for x in re.findall(r"-?\d+", m.group(1))])
    return res[0], res[1], out


def run_labels(ck):
    """parseLabelsLokiFormat (text/scanner + strconv.Unquote) against model/LokiLabels.v parse_labels"""
    cases = []
    corpus = os.path.join(ROOT, "corpus", PID, "labels.jsonl")
    env = {"C03_MODE": "labels"}
    if os.path.exists(corpus):
        outp = os.path.join(ck.work, "labels_corpus_out.jsonl")
        rc, out = ck.go_run("decode", ["--cases", corpus, "--out", outp], env_extra=env)
        ck.obligation("label-string corpus re-run", rc == 0, out[-1500:])
        if rc == 0:
            cs = [json.loads(l) for l in open(outp) if l.strip()]
            for i, c in enumerate(cs):
                c["id"] = 1000000 + i
                c["coq"] = re.sub(r"^LCase \d+ ", "LCase %d " % c["id"], c["coq"])
                c["class"] = "corpus:" + c["class"]
            cases += cs
    if ck.replay:
        rp = json.load(open(ck.replay))
        if "label_case" in rp:
            p = os.path.join(ck.work, "labels_replay_in.jsonl")
            open(p, "w").write(json.dumps({k: v for k, v in rp["label_case"].items() if k != "coq"}) + "\n")
            outp = os.path.join(ck.work, "labels_replay_out.jsonl")
            rc, out = ck.go_run("decode", ["--cases", p, "--out", outp], env_extra=env)
            if rc == 0:
                cs = [json.loads(l) for l in open(outp) if l.strip()]
                for i, c in enumerate(cs):
                    c["id"] = 2000000 + i
                    c["coq"] = re.sub(r"^LCase \d+ ", "LCase %d " % c["id"], c["coq"])
                cases += cs
    n = ck.n(2000, 40000)
    outp = os.path.join(ck.work, "labels.jsonl")
    rc, out = ck.go_run("decode", ["--seed", ck.seed, "--n", n, "--out", outp], timeout=600, env_extra=env)
    if rc != 0:
        ck.obligation("harness decode (label strings) ran", False, out[-1500:])
        return
    cases += [json.loads(l) for l in open(outp) if l.strip()]
    byid = {c["id"]: c for c in cases}
    mism, viol = [], []
    from concurrent.futures import ThreadPoolExecutor
    with ThreadPoolExecutor(max_workers=4) as ex:
        results = list(ex.map(lambda k: eval_two(ck, "C03_labels_%d" % (k // 800), LHEADER, "lcase", cases[k:k + 800], "lc_check_all"),
                              range(0, len(cases), 800)))
    for m, v, out in results:
        if m is None:
            ck.obligation("label-string cases evaluated inside Coq", False, out[-2500:])
            return
        mism += m
        viol += v
    panics = [c for c in cases if c["obs"]["kind"] == "panic"]
    viol = sorted(set(viol) | {c["id"] for c in panics})
    nw = sum(1 for c in cases if c["has_src"])
    ck.obligation("label strings: model LokiLabels.parse_labels = parseLabelsLokiFormat (labels or error) on %d texts" % len(cases),
                  not mism, "mismatching case ids: %s" % mism[:10])
    ck.obligation("label strings: every text written from a label list (%d texts, four writers) is read back as that list behind the labels already in the buffer; accepted texts leave the buffer's labels alone; no panic" % nw,
                  not viol, "violating case ids: %s" % viol[:10])
    if viol:
        worst = min((byid[i] for i in viol), key=lambda c: len(c["text"]) if isinstance(c["text"], str) else 10**6)
        ck.violation({"property": PID, "kind": "a Loki label string is not read back as the label list it was written from (or the parser panicked)",
                      "class": worst["class"], "label_case": {k: v for k, v in worst.items() if k != "coq"},
                      "cases_with_this_failure": len(viol),
                      "explanation": "lc_spec_violation (coq/model/LokiLabels.v): parseLabelsLokiFormat(text, buf) must return buf ++ src",
                      "replay": "bin/check C03 --replay <this file>"})
    elif mism:
        worst = min((byid[i] for i in mism), key=lambda c: len(c["text"]) if isinstance(c["text"], str) else 10**6)
        ck.violation({"property": PID, "kind": "model/implementation disagree on a label string (labels or error)", "class": worst["class"],
                      "label_case": {k: v for k, v in worst.items() if k != "coq"}, "broken": "correspondence LokiLabels.parse_labels vs parseLabelsLokiFormat"},
                     no_input=True)
    hist = {}
    for c in cases:
        key = "labels/" + c["class"] + "/" + c["obs"]["kind"]
        hist[key] = hist.get(key, 0) + 1
    ck.extra["label_string_distribution"] = hist
    ck.coverage["evaluations"] += len(cases)
    ck.coverage["distinct_nontrivial"] += len({json.dumps(c["text"]) for c in cases if c["obs"]["kind"] == "ok" and len(c["obs"]["labels"]) - len(c["buf"]) >= 2})
    ck.coverage["rule"] += ("Label strings for parseLabelsLokiFormat: written from label lists by four writers (strconv.Quote joined by , or ', '; escapes chosen at random per byte "
                            "among raw / simple / \\x / octal / \\u / \\U; white space and comments between tokens), damaged by 1-3 byte edits, token soups; non-trivial = accepted with at least 2 labels; distinct by text. ")
    ck.add_samples([{k: v for k, v in c.items() if k != "coq"} for c in cases if c["has_src"] and len(c["src"]) >= 2][:2])


THEADER = ("From Coq Require Import List ZArith NArith Bool String Uint63.\n"
           "From Qryn Require Import model.Decode model.LokiTime.\n"
           "Import ListNotations.\nOpen Scope string_scope.\nOpen Scope Z_scope.\n")


def run_time(ck):
    """parseTime (dispatch + strconv.ParseInt; time.Parse(RFC3339) is an oracle) against model/LokiTime.v"""
    ok, out = ck.coq_make(["model/LokiTime.vo"])
    if not ok:
        ck.obligation("model/LokiTime.v builds", False, out[-1500:])
        return
    env = {"C03_MODE": "time"}
    cases = []
    corpus = os.path.join(ROOT, "corpus", PID, "time.jsonl")
    srcs = [("corpus", corpus, 1000000)] if os.path.exists(corpus) else []
    if ck.replay:
        rp = json.load(open(ck.replay))
        if "time_case" in rp:
            p = os.path.join(ck.work, "time_replay_in.jsonl")
            open(p, "w").write(json.dumps({k: v for k, v in rp["time_case"].items() if k != "coq"}) + "\n")
            srcs.append(("replay", p, 2000000))
    for tag, path, base in srcs:
        outp = os.path.join(ck.work, "time_%s_out.jsonl" % tag)
        rc, out = ck.go_run("decode", ["--cases", path, "--out", outp], env_extra=env)
        ck.obligation("timestamp %s cases re-run" % tag, rc == 0, out[-1500:])
        if rc == 0:
            cs = [json.loads(l) for l in open(outp) if l.strip()]
            for i, c in enumerate(cs):
                c["id"] = base + i
                c["coq"] = re.sub(r"^TCase \d+ ", "TCase %d " % c["id"], c["coq"])
                c["class"] = tag + ":" + c["class"]
            cases += cs
    n = ck.n(2000, 60000)
    outp = os.path.join(ck.work, "time.jsonl")
    rc, out = ck.go_run("decode", ["--seed", ck.seed, "--n", n, "--out", outp], timeout=600, env_extra=env)
    if rc != 0:
        ck.obligation("harness decode (timestamps) ran", False, out[-1500:])
        return
    cases += [json.loads(l) for l in open(outp) if l.strip()]
    byid = {c["id"]: c for c in cases}
    mism, viol = [], []
    for k in range(0, len(cases), 4000):
        m, v, out = eval_two(ck, "C03_time_%d" % (k // 4000), THEADER, "tcase", cases[k:k + 4000], "tc_check_all")
        if m is None:
            ck.obligation("timestamp cases evaluated inside Coq", False, out[-2500:])
            return
        mism += m
        viol += v
    viol = sorted(set(viol) | {c["id"] for c in cases if c.get("panic")})
    known = ck.known_findings()
    fresh = []
    for i in viol:
        c = byid[i]
        if "negative-integer-timestamp-rejected" in known and c["class"].split(":")[-1].startswith("integer") and c["class"].endswith("negative"):
            ck.report_known("negative-integer-timestamp-rejected", known["negative-integer-timestamp-rejected"][:200])
        else:
            fresh.append(i)
    nw = sum(1 for c in cases if c["has_want"])
    ck.obligation("timestamps: model LokiTime.parse_time = parseTime (nanoseconds or error) on %d texts" % len(cases),
                  not [i for i in mism if i in fresh or i not in viol], "mismatching case ids: %s" % mism[:10])
    ck.obligation("timestamps: every text written from a nanosecond timestamp (%d texts: decimal integers of either sign, RFC 3339 with nanoseconds) is read back as exactly that timestamp" % nw,
                  not fresh, "violating case ids: %s" % fresh[:10])
    if fresh:
        worst = min((byid[i] for i in fresh), key=lambda c: len(c["text"]) if isinstance(c["text"], str) else 10**6)
        ck.violation({"property": PID, "kind": "a timestamp text is not read back as the nanosecond timestamp it was written from",
                      "class": worst["class"], "time_case": {k: v for k, v in worst.items() if k != "coq"},
                      "cases_with_this_failure": len(fresh),
                      "explanation": "tc_spec_violation (coq/model/LokiTime.v): parseTime(text) must return the timestamp; a Loki JSON push whose entry carries this text under ts/timestamp fails as a whole",
                      "replay": "bin/check C03 --replay <this file>"})
    elif [i for i in mism if i not in viol]:
        worst = byid[[i for i in mism if i not in viol][0]]
        ck.violation({"property": PID, "kind": "model/implementation disagree on a timestamp text", "class": worst["class"],
                      "time_case": {k: v for k, v in worst.items() if k != "coq"}, "broken": "correspondence LokiTime.parse_time vs parseTime"}, no_input=True)
    hist = {}
    for c in cases:
        key = "time/" + c["class"] + "/" + ("ok" if c["obs_ok"] else "error")
        hist[key] = hist.get(key, 0) + 1
    ck.extra["timestamp_text_distribution"] = hist
    ck.coverage["evaluations"] += len(cases)
    ck.coverage["distinct_nontrivial"] += len({json.dumps(c["text"]) for c in cases if c["has_want"] and abs(c["want"]) > 10**9})
    ck.coverage["rule"] += ("Timestamp texts for parseTime: decimal nanoseconds (both signs, + sign, leading zeros, int64 bounds), RFC 3339 with nanoseconds and offsets, malformed; "
                            "non-trivial = written from a timestamp more than a second away from the epoch; distinct by text. ")


OHEADER = ("From Coq Require Import List ZArith NArith Bool String Uint63.\n"
           "From Qryn Require Import model.Decode model.LokiTime model.ReqOpts.\n"
           "Import ListNotations.\nOpen Scope string_scope.\nOpen Scope Z_scope.\n")


def run_reqopts(ck):
    """the request options in front of the decoders (X-Ttl-Days through WithOverallContextMiddleware, the precision parameter and
    the whole Influx route through PushInfluxV2) against model/ReqOpts.v"""
    ok, out = ck.coq_make(["model/ReqOpts.vo"])
    if not ok:
        ck.obligation("model/ReqOpts.v builds", False, out[-1500:])
        return
    env = {"C03_MODE": "reqopts"}
    cases = []
    corpus = os.path.join(ROOT, "corpus", PID, "reqopts.jsonl")
    srcs = [("corpus", corpus, 1000000)] if os.path.exists(corpus) else []
    if ck.replay:
        rp = json.load(open(ck.replay))
        if "reqopts_case" in rp:
            p = os.path.join(ck.work, "reqopts_replay_in.jsonl")
            open(p, "w").write(json.dumps({k: v for k, v in rp["reqopts_case"].items() if k != "coq"}) + "\n")
            srcs.append(("replay", p, 2000000))
    for tag, path, base in srcs:
        outp = os.path.join(ck.work, "reqopts_%s_out.jsonl" % tag)
        rc, out = ck.go_run("decode", ["--cases", path, "--out", outp], env_extra=env)
        ck.obligation("request-option %s cases re-run" % tag, rc == 0, out[-1500:])
        if rc == 0:
            cs = [json.loads(l) for l in open(outp) if l.strip()]
            for i, c in enumerate(cs):
                c["id"] = base + i
                c["coq"] = re.sub(r"^OC \d+ ", "OC %d " % c["id"], c["coq"])
                c["class"] = tag + ":" + c["class"]
            cases += cs
    n = ck.n(1000, 30000)
    outp = os.path.join(ck.work, "reqopts.jsonl")
    rc, out = ck.go_run("decode", ["--seed", ck.seed, "--n", n, "--out", outp], timeout=600, env_extra=env)
    if rc != 0:
        ck.obligation("harness decode (request options) ran", False, out[-1500:])
        return
    cases += [json.loads(l) for l in open(outp) if l.strip()]
    byid = {c["id"]: c for c in cases}
    mism, viol = [], []
    for k in range(0, len(cases), 3000):
        m, v, out = eval_two(ck, "C03_reqopts_%d" % (k // 3000), OHEADER, "ocase", cases[k:k + 3000], "oc_check_all")
        if m is None:
            ck.obligation("request-option cases evaluated inside Coq", False, out[-2500:])
            return
        mism += m
        viol += v
    viol = sorted(set(viol) | {c["id"] for c in cases if c.get("panic")})
    nroute = sum(1 for c in cases if c["influx"])
    nrows = sum(1 for c in cases if c["influx"] and c["has_want_rows"])
    ck.obligation("request options: model ReqOpts (ttl_of_header, precision_of_query, influx_request) = WithOverallContextMiddleware / PushInfluxV2 on %d requests (%d through the whole Influx route: status, context values, stored rows)" % (len(cases), nroute),
                  not [i for i in mism if i not in viol], "mismatching case ids: %s" % mism[:10])
    ck.obligation("request options: a header written from a number gives that TTL, a precision written as a unit gives that unit, and the Influx route stores one row per line with the line's timestamp in that unit under that TTL (%d requests with expected rows); a refused request stores nothing" % nrows,
                  not viol, "violating case ids: %s" % viol[:10])
    ck.obligation("request options: the generator reaches every class (header absent / number / out of range / other text; precision absent / unit / other text; lines with their own __ttl_days__ tag)",
                  all(any(t in c["class"] for c in cases) for t in ("hdr-absent", "hdr-number", "hdr-out-of-range", "hdr-other-text", "precision-absent", "precision-unit", "precision-other-text"))
                  and any(c["influx"] and any(t["k"] == "__ttl_days__" for l in c["lines"] for t in l["tags"]) for c in cases), "")
    if viol:
        worst = min((byid[i] for i in viol), key=lambda c: (len(c.get("lines") or []), len(json.dumps(c["hdr"])) + len(json.dumps(c["query"]))))
        ck.violation({"property": PID, "kind": "a request option is not read as written (X-Ttl-Days header / precision parameter), or the rows stored under it are not the lines' own",
                      "class": worst["class"], "reqopts_case": {k: v for k, v in worst.items() if k != "coq"},
                      "cases_with_this_failure": len(viol),
                      "explanation": "oc_spec_violation (coq/model/ReqOpts.v): want_ttl / want_prec / want_rows are what the generator wrote the header text, the precision text and the lines from; obs_ttl / obs_prec are TTL_DAYS / precision of the request context after the real middleware / route, rows the (timestamp, TTL) of the sample rows the route handed to its samples service",
                      "replay": "bin/check C03 --replay <this file>"})
    elif mism:
        worst = byid[mism[0]]
        ck.violation({"property": PID, "kind": "model/implementation disagree on a request option", "class": worst["class"],
                      "reqopts_case": {k: v for k, v in worst.items() if k != "coq"}, "broken": "correspondence ReqOpts vs WithOverallContextMiddleware / PushInfluxV2"}, no_input=True)
    # the ddsource parameter of the Cloudflare-Datadog route (PushCfDatadogV2): the label of the stored series row
    outp = os.path.join(ck.work, "reqopts_ddsource.jsonl")
    env2 = dict(env, C03_REQOPTS="ddsource")
    rc, out = ck.go_run("decode", ["--seed", ck.seed, "--n", ck.n(300, 6000), "--out", outp], timeout=600, env_extra=env2)
    if rc != 0:
        ck.obligation("harness decode (ddsource parameter) ran", False, out[-1500:])
        return
    dcs = [json.loads(l) for l in open(outp) if l.strip()]
    dm, dv, out = eval_two(ck, "C03_reqopts_dd", OHEADER, "dcase", dcs, "dc_check_all")
    if dm is None:
        ck.obligation("ddsource cases evaluated inside Coq", False, out[-2500:])
        return
    dv = sorted(set(dv) | {c["id"] for c in dcs if c.get("panic")})
    dby = {c["id"]: c for c in dcs}
    ck.obligation("request options: the Cloudflare-Datadog route stores every line under the label ddsource = the parameter's own text, or unknown when it is absent or empty (model ReqOpts.ddsource_of_query = PushCfDatadogV2 on %d requests, series rows read off the time-series service)" % len(dcs),
                  not dm and not dv and {c["class"] for c in dcs} >= {"ddsource-route/absent", "ddsource-route/empty", "ddsource-route/written"}, "mismatching / violating case ids: %s %s" % (dm[:10], dv[:10]))
    if dv or dm:
        worst = dby[(dv or dm)[0]]
        ck.violation({"property": PID, "kind": "the Cloudflare-Datadog route stores a line under a ddsource label other than the request's", "class": worst["class"],
                      "ddsource_case": {k: v for k, v in worst.items() if k != "coq"}, "cases_with_this_failure": len(dv or dm),
                      "explanation": "dc_spec_violation (coq/model/ReqOpts.v): one Cloudflare line pushed to /cf/v1/insert?ddsource=<query>; series = the label documents of the time_series rows the route handed over; want = the text the generator wrote (unknown for an absent / empty parameter)",
                      "replay": "C03_MODE=reqopts C03_REQOPTS=ddsource harness decode --seed <seed> --n <id+1>"}, no_input=not dv)
    ck.coverage["evaluations"] += len(dcs)
    hist = {}
    for c in dcs:
        hist["reqopts/" + c["class"]] = hist.get("reqopts/" + c["class"], 0) + 1
    for c in cases:
        key = "reqopts/" + c["class"] + ("/status %d" % c["status"] if c["influx"] else "")
        hist[key] = hist.get(key, 0) + 1
    ck.extra["request_option_distribution"] = hist
    ck.coverage["evaluations"] += len(cases)
    ck.coverage["distinct_nontrivial"] += len({json.dumps([c["hdr"], c["query"], c["lines"]]) for c in cases if c["influx"] and c["has_want_rows"] and c["want_ttl"] > 0})
    ck.coverage["rule"] += ("Request options: X-Ttl-Days texts (absent, decimal numbers 0..65535 with leading zeros, digits out of range, signed / padded / hex / underscore / unicode-digit texts) through the real middleware; "
                            "one request in three through the real Influx route with a precision text (absent, the five spellings, other texts) and 1-3 lines; non-trivial = accepted route request with a TTL > 0 and expected rows; distinct by texts and lines. ")
    ck.add_samples([{k: v for k, v in c.items() if k != "coq"} for c in cases if c["influx"] and c["has_want_rows"] and c["want_ttl"] > 0][:1])



NHEADER = ("From Coq Require Import List ZArith NArith Bool String.\n"
           "From Qryn Require Import model.Ndjson.\n"
           "Import ListNotations.\nOpen Scope Z_scope.\n")


def run_ndjson(ck):
    """the line-by-line decoders (Datadog logs from Cloudflare, Elasticsearch bulk): no line that holds an entry is lost"""
    ok, out = ck.coq_make(["model/Ndjson.vo"])
    if not ok:
        ck.obligation("model/Ndjson.v builds", False, out[-1500:])
        return
    env = {"C03_MODE": "ndjson"}
    cases = []
    srcs = []
    corpus = os.path.join(ROOT, "corpus", PID, "ndjson.jsonl")
    if os.path.exists(corpus):
        srcs.append(("corpus", corpus, 1000000))
    if ck.replay:
        rp = json.load(open(ck.replay))
        if "ndjson_case" in rp:
            p = os.path.join(ck.work, "ndjson_replay_in.jsonl")
            open(p, "w").write(json.dumps({k: v for k, v in rp["ndjson_case"].items() if k != "coq"}) + "\n")
            srcs.append(("replay", p, 2000000))
    for tag, path, base in srcs:
        outp = os.path.join(ck.work, "ndjson_%s_out.jsonl" % tag)
        rc, out = ck.go_run("decode", ["--cases", path, "--out", outp], env_extra=env)
        ck.obligation("newline-delimited %s cases re-run" % tag, rc == 0, out[-1500:])
        if rc == 0:
            cs = [json.loads(l) for l in open(outp) if l.strip()]
            for i, c in enumerate(cs):
                c["id"] = base + i
                c["coq"] = re.sub(r"^NCase \d+ ", "NCase %d " % c["id"], c["coq"])
                c["class"] = tag + ":" + c["class"]
            cases += cs
    outp = os.path.join(ck.work, "ndjson.jsonl")
    rc, out = ck.go_run("decode", ["--seed", ck.seed, "--n", ck.n(120, 2000), "--out", outp], timeout=600, env_extra=env)
    if rc != 0:
        ck.obligation("harness decode (newline-delimited bodies) ran", False, out[-1500:])
        return
    cases += [json.loads(l) for l in open(outp) if l.strip()]
    byid = {c["id"]: c for c in cases}
    m, viol, out = eval_two(ck, "C03_ndjson", NHEADER, "ncase", cases, "n_check_all")
    if m is None:
        ck.obligation("newline-delimited cases evaluated inside Coq", False, out[-2500:])
        return
    viol = sorted(set(viol) | {c["id"] for c in cases if c["err"] == "panic"})
    nlong = sum(1 for c in cases if "over-64KiB" in c["class"])
    ck.obligation("newline-delimited bodies (Datadog logs from Cloudflare, Elasticsearch bulk; %d bodies, %d with a line over 64 KiB): unless the request fails every line that holds an entry is a row, once, in order"
                  % (len(cases), nlong), not viol, "violating case ids: %s" % viol[:10])
    if viol:
        worst = min((byid[i] for i in viol), key=lambda c: (len(c["lines"]), sum(l["len"] for l in c["lines"])))
        ck.violation({"property": PID, "kind": "lines of a newline-delimited body are lost although the request succeeds",
                      "proto": worst["proto"], "class": worst["class"], "ndjson_case": {k: v for k, v in worst.items() if k != "coq"},
                      "lines_holding_an_entry": worst["expected"], "lines_found_in_the_rows": worst["obs_rows"],
                      "cases_with_this_failure": len(viol),
                      "explanation": "n_spec_violation (coq/model/Ndjson.v); the body is the lines of 'lines' (kind, filler length, tag) as written by harness/cmd/decode/ndjson.go",
                      "replay": "bin/check C03 --replay <this file>"})
    hist = {}
    for c in cases:
        key = "ndjson/" + c["proto"] + "/" + ("short-lines" if "over-64KiB" not in c["class"] else "line-over-64KiB") + "/" + (c["err"] or "ok")
        hist[key] = hist.get(key, 0) + 1
    ck.extra["newline_delimited_distribution"] = hist
    ck.coverage["evaluations"] += len(cases)
    ck.coverage["distinct_nontrivial"] += len({json.dumps(c["lines"]) for c in cases if len(c["expected"]) >= 2})
    ck.coverage["rule"] += "Newline-delimited bodies for the Cloudflare-Datadog and Elasticsearch bulk decoders: 1-6 entries, two of three bodies with one line of 64-134 KiB; non-trivial = at least 2 entries. "


def run(ck):
    ck.trusted += [
        "C03: the tokenizers / wire decoders (jx, protobuf, the telegraf Influx parser, the Datadog tag regexp) are crossed by the correspondence only; time.Parse(RFC3339) and unicode.IsLetter/IsDigit are oracles of the text models (tables computed by the harness with the same library calls); the harness's serialisers are trusted except for Loki JSON, whose document tree is walked by the model itself, and Loki label strings / timestamp texts, which the model parses itself",
        "C03: fingerprintLabels and len(encodeLabels) are oracles of the model (theorems hold for every such function); per case they are the table read off the implementation's own time_series rows, label lists compared as multisets (permutation invariance of the fingerprint is C04's theorem)",
        "C03: the fingerprint cache is abstract in the theorems; the harness runs with the never-hit cache of a clustered deployment or a per-request set cache; Go map iteration order (Influx fields, OTLP attributes) is not modelled: rows of one Influx line are compared as a multiset",
        "C03: state kept by the process between requests is looked for by decoding all bodies of a run (and explicit histories) in one process and checking every body against the model of that body alone; package-level variables of writer/utils/unmarshal are listed in the evidence (package_state)",
        "C03: the Cloudflare-Datadog and Elasticsearch bulk decoders: lines as JSON trees walked by model/NdjsonWalk.v (jx trusted; the line text is the harness's rendering of the tree); lines over 64 KiB only at the level of which lines become rows (model/Ndjson.v)",
        "C03: time.Now() is an oracle: the clock readings of a case are read off the observed rows (a row whose timestamp lies between the clock just before the parser was started and just after its channel was closed counts as a reading, any other row gets the start time, so a stamp outside the request shows as a wrong row); wall clock assumed not to step backwards during a request; Influx lines and Datadog metric series get one reading each (an instant of the request whose truncation to the precision is the row's timestamp / the first row's timestamp)",
        "C03: OTLP any-value rendering is model/AnyValue.v (owner C04; double printing = model/GoFloat.v of C15); Influx message lines with a float field next to message are not compared (fmt.Sprint of a float64 not modelled); the order Go's map iteration gives the other fields is read off the row by the harness (rendering with the logfmt library) and only used as the order in which the model renders",
        "C03: request options (model/ReqOpts.v): net/http's header map and url.Query() are trusted (the harness sets the X-Ttl-Days header value as written, without the white-space trimming of a real server, and writes the precision parameter with url.Values.Encode); the route cases run PushInfluxV2 with a recording registry in place of the insert services",
        "C03: bodies read through a failing reader: gzip.NewReader / snappy.NewReader as the middleware wraps them, without helpers.LimitDecoded (C05); a framed snappy stream cut between two chunks is a valid shorter stream and is not judged",
    ]
    consts = regen(ck)
    if consts is None:
        for t in re.findall(r"^\s*(?:Theorem|Corollary)\s+([A-Za-z_][\w']*)", open(os.path.join(vcheck.COQ, "props", PID + ".v")).read(), re.M):
            ck.obligation("theorem " + t, False, "constants translator failed")
        return
    if not ck.coq_props():
        # a proof or a constant no longer fits the source: the models may still build, and a concrete failing input is worth more
        # than the broken proof alone
        ok, out = ck.coq_make(["model/DatadogJson.vo", "model/NdjsonWalk.vo"])
        if not ok:
            return
    ok, out = ck.coq_make(["model/NdjsonWalk.vo"])
    if not ok:
        ck.obligation("model/NdjsonWalk.v builds", False, out[-1500:])
        return
    if not ck.quick():
        ck.coqchk(["Qryn.props.C03"])
    if not ck.go_build("decode"):
        ck.obligation("harness decode builds against the repository", False, ck.build_out[-1500:])
        return
    # the three correspondences (bodies, label strings, timestamp texts) are evaluated side by side
    from concurrent.futures import ThreadPoolExecutor
    with ThreadPoolExecutor(max_workers=5) as ex:
        fs = [ex.submit(run_correspondence, ck, consts), ex.submit(run_labels, ck), ex.submit(run_time, ck), ex.submit(run_ndjson, ck), ex.submit(run_reqopts, ck)]
        for f in fs:
            f.result()
