"""C10, tree-level tie of the Prometheus label-matcher and Pyroscope selector statements (helper of checks/c10.py).

Hostile strings (the values harness sqlinject generated for the PromQL / Pyroscope / label-API positions) are placed as matcher
values and label names of requests to C17's harness `promsel` (read-only reuse: real TranspileLabelMatchers /
TranspileLabelMatchersDownsample and the real profile selector parser + StreamSelectorPlanner); the planner MODELS of C17
(model/PromSel.v, model/ProfSel.v: trees of model/Sql.v) plan the same matchers inside the OCaml extraction and
model/SqlPieces.v renders the tree into the segmented text.  Obligations: flat(pieces) = the real SQL byte for byte, pok holds
(theorems rendered_statement_tokens / request_values_keep_statement_structure and their corollaries
promql_selection_values_keep_statement_structure / profile_selection_values_keep_statement_structure apply to the very tree),
no hostile value occurs in a text piece, and the pieces are those of the marker request with the marker replaced by the value
whenever the planner took the same branch (the matcher accepts the empty string or not, as for the marker).
"""
import json
import os

from checks import promsel as p17   # line format of the extracted selection models (read-only reuse)

MARKER = "zqxmark"
SPECIAL = b"'\\\x00\n\r\x08\t\x1a"
HINTS = {"start": 1700000000000, "end": 1700003600000, "step": 15000, "func": "rate", "range": 60000}
OPS = ["=", "!=", "=~", "!~"]



def vcheck_lock():
    """one process-wide lock for the counters of the check object (the three tree-level ties run side by side)"""
    import threading
    import builtins
    if not hasattr(builtins, "_c10_lock"):
        builtins._c10_lock = threading.Lock()
    return builtins._c10_lock


def go_quote(v):
    """a double-quoted literal both the Pyroscope selector lexer and strconv.Unquote accept: raw UTF-8, \\\\ \\" and \\u00XX escapes"""
    out = ['"']
    for ch in v:
        if ch in '"\\':
            out.append("\\" + ch)
        elif ord(ch) < 0x20 or ord(ch) == 0x7f:
            out.append("\\u%04x" % ord(ch))
        else:
            out.append(ch)
    return "".join(out) + '"'


def requests(values, idents, all_ops=False):
    """[(case for harness promsel, position name, value, base id or None)]"""
    out = []

    def ctx(cluster):
        return {"from_ns": HINTS["start"] * 10**6, "to_ns": HINTS["end"] * 10**6, "limit": 0, "type": 2, "cluster": cluster}

    def prom(pos, sub, op, name, val, cluster, v):
        out.append(({"kind": "sql", "sub": sub, "class": ["c10"], "hints": HINTS, "ctx": ctx(cluster),
                     "ms": [{"n": "__name__", "op": "=", "v": "up"}, {"n": name, "op": op, "v": val}]}, pos, v))

    def prof(pos, op, name, val, cluster, v):
        q = '{service_name="svc", %s%s%s}' % (name, op, go_quote(val))
        out.append(({"kind": "prof", "class": ["c10"], "ctx": ctx(cluster), "query": q}, pos, v))
    k = 0
    for v in [MARKER] + values:
        for op in OPS:
            if v != MARKER and not all_ops and (k % 4) != OPS.index(op):
                continue      # every value under one operator (rotating), the marker under all
            prom("promsel.val" + op, "raw", op, "job", v, False, v)
            prof("profsel.val" + op, op, "job", v, False, v)
            for cluster in (False, True):
                if v != MARKER and not all_ops and cluster != (k % 3 == 0):
                    continue  # a third of the values in cluster mode, the marker in both
                cl = ".cluster" if cluster else ""
                prom("promsel.down%s.val%s" % (cl, op), "down", op, "job", v, cluster, v)
                prof("profsel.pseudo%s%s" % (cl, op), op, "__name__", v, cluster, v)
        k += 1
    for v in [MARKER] + idents:
        prom("promsel.name", "raw", "=", v, "x", False, v)
        prom("promsel.down.name", "down", "=~", v, "x.*", False, v)
    return out


# ---------------------------------------------------------------------- Tempo v1 (round 4)
TBASE = 2 * 10**7
T_FROM, T_TO = 1700000000 * 10**9, 1700003600 * 10**9
QRYN = "h" + b"qryn".hex()
TEMPO_SITES = {
    # site of harness sqlinject -> the request the service built, as a row of model/ScansTempo.v (V = the value under test)
    "tempo.search.val.quoted": lambda V: "(tv1 %%d %s f %d %d (search ((%s TgEq %s) (%s TgNeq %s)) 20 0 0 f))" % (QRYN, T_FROM, T_TO, p17.sx_str("svc"), V, p17.sx_str("x"), p17.sx_str("y")),
    "tempo.search.val.re": lambda V: "(tv1 %%d %s f %d %d (search ((%s TgRe %s)) 20 0 0 f))" % (QRYN, T_FROM, T_TO, p17.sx_str("svc"), V),
    "tempo.search.name.quoted": lambda V: "(tv1 %%d %s f %d %d (search ((%s TgEq %s)) 20 0 0 f))" % (QRYN, T_FROM, T_TO, V, p17.sx_str("y")),
    # round 5 (seeded C10-e): the value in a later tag = inside a JOINed sub-select of the index query
    "tempo.search.val.2nd": lambda V: "(tv1 %%d %s f %d %d (search ((%s TgNeq %s) (%s TgEq %s)) 20 0 0 f))" % (QRYN, T_FROM, T_TO, p17.sx_str("x"), p17.sx_str("y"), p17.sx_str("svc"), V),
    "tempo.search.val.re.3rd": lambda V: "(tv1 %%d %s f %d %d (search ((%s TgEq %s) (%s TgNeq %s) (%s TgRe %s)) 20 0 0 f))" % (QRYN, T_FROM, T_TO, p17.sx_str("x"), p17.sx_str("y"), p17.sx_str("w"), p17.sx_str("z"), p17.sx_str("svc"), V),
    "tempo.search.name.2nd": lambda V: "(tv1 %%d %s f %d %d (search ((%s TgEq %s) (%s TgNeq %s)) 20 0 0 f))" % (QRYN, T_FROM, T_TO, p17.sx_str("x"), p17.sx_str("y"), V, p17.sx_str("z")),
    "tempo.sqlindexquery.2nd": lambda V: "(tvi %%d %s f ((%s TgEq %s) (%s TgRe %s) (%s TgNeq %s)) %d %d 0 0 10 t)" % (QRYN, p17.sx_str("a"), p17.sx_str("b"), p17.sx_str("k"), V, p17.sx_str("c"), p17.sx_str("d"), T_FROM, T_TO),
    "tempo.search.val.bare": lambda V: "(tv1 %%d %s f %d %d (search ((%s TgEq %s)) 20 0 0 f))" % (QRYN, T_FROM, T_TO, p17.sx_str("svc"), V),
    "tempo.values.tag": lambda V: "(tv1 %%d %s f 0 0 (values %s))" % (QRYN, V),
    "tempo.query.traceid": lambda V: "(tv1 %%d %s f 1 2 (trace %s t))" % (QRYN, V),
    "tempo.sqlindexquery": lambda V: "(tvi %%d %s t ((%s TgNre %s)) %d %d 5 500 10 t)" % (QRYN, p17.sx_str("k"), V, T_FROM, T_TO),
}


def lv_ctx(cluster, tp):
    return "(%d %d 10000 %s %d %s %s %s %s %s)" % (T_FROM, T_TO, p17.sx_bool(cluster), tp, p17.sx_str("time_series_gin_dist" if cluster else "time_series_gin"),
                                                 p17.sx_str("samples"), p17.sx_str("time_series"), p17.sx_str("time_series_dist"), p17.sx_str("m15"))


def lv_m(n, op, v):
    return "(%s %s %s)" % (n if n.startswith("h") else p17.sx_str(n), op, v if v.startswith("h") else p17.sx_str(v))


LBASE = 3 * 10**7
LABEL_SITES = {
    # the label-values / series requests of harness sqlinject as rows of model/ScansPlanners.v (V = the value under test)
    "labels.values.label": lambda V: "(lv %%d %s %s ())" % (lv_ctx(False, 1), V),
    "labels.values.label.cluster": lambda V: "(lv %%d %s %s ((%s)))" % (lv_ctx(True, 1), V, lv_m("a", "MEq", "b")),
    # round 6 (seeded C10-f): the URL label name beside selectors holding the driver's bind placeholders
    "labels.values.label.placeholders": lambda V: "(lv %%d %s %s ((%s %s)))" % (lv_ctx(False, 1), V, lv_m("a", "MEq", "x$1y"), lv_m("b", "MRe", "$1|z")),
    "labels.promvalues.label.placeholders": lambda V: "(lv %%d %s %s ((%s %s)))" % (lv_ctx(False, 2), V, lv_m("job", "MEq", "x$1y"), lv_m("__name__", "MEq", "up")),
    "labels.values.match": lambda V: "(lv %%d %s %s ((%s) (%s)))" % (lv_ctx(False, 1), p17.sx_str("lbl"), lv_m("a", "MEq", V), lv_m("c", "MRe", "d")),
    "labels.values.match.re": lambda V: "(lv %%d %s %s ((%s)))" % (lv_ctx(False, 1), p17.sx_str("lbl"), lv_m("a", "MRe", V)),
    "labels.series.match": lambda V: "(lv %%d %s - ((%s)))" % (lv_ctx(False, 1), lv_m("a", "MRe", V)),
    "labels.promvalues.match": lambda V: "(lv %%d %s %s ((%s %s)))" % (lv_ctx(False, 2), p17.sx_str("lbl"), lv_m("job", "MEq", V), lv_m("__name__", "MEq", "up")),
    "labels.promvalues.match.re=~": lambda V: "(lv %%d %s %s ((%s %s)))" % (lv_ctx(False, 2), p17.sx_str("lbl"), lv_m("job", "MRe", V), lv_m("__name__", "MEq", "up")),
    "labels.promvalues.match.re!~": lambda V: "(lv %%d %s %s ((%s %s)))" % (lv_ctx(False, 2), p17.sx_str("lbl"), lv_m("job", "MNre", V), lv_m("__name__", "MEq", "up")),
}


def tempo_rows(sq_cases, SITES=None, BASE=None):
    SITES = TEMPO_SITES if SITES is None else SITES
    BASE = TBASE if BASE is None else BASE
    return _model_rows(sq_cases, SITES, BASE)


def _model_rows(sq_cases, TEMPO_SITES, TBASE):
    """[(row id, data row, sqlinject record, value bytes)]: for every Tempo v1 case of harness sqlinject (first statement) and for its
    baseline, the request as a term of model/ScansTempo.v.  The value the request means is the case's `want` (for a shaped case: inside
    the shape, whose bytes are ASCII)."""
    out, seen_base = [], {}
    for c in sq_cases:
        mk = TEMPO_SITES.get(c["site"])
        if not mk or c.get("stmt") != 0 or not c.get("_base"):
            continue
        val, want = bytes.fromhex(c["val"]), bytes.fromhex(c["want"])
        marker = bytes.fromhex(c["_base"]["marker"])
        if c.get("shaped"):
            npre, npost = c["shape"]
            pre, post = val[:npre], val[len(val) - npost:]
        else:
            pre, post = b"", b""
        bkey = (c["site"], c["_base"]["sql"])
        if bkey not in seen_base:
            seen_base[bkey] = TBASE + len(out)
            out.append((seen_base[bkey], mk(p17.sx_str(pre + marker + post)) % seen_base[bkey], c["_base"], None))
        i = TBASE + len(out)
        out.append((i, mk(p17.sx_str(pre + want + post)) % i, c, seen_base[bkey]))
    return out


def tempo_judge(ck, tag, trows, res, title="Tempo v1", model="model/ScansTempo.v", real="the real TempoService / SQLIndexQuery", SITES=None,
                thm="tempo_v1_statements_are_value_independent", key="tempo_v1_"):
    TEMPO_SITES_ = TEMPO_SITES if SITES is None else SITES
    mism, notok, notsubst, nst, ncmp = [], [], [], 0, 0
    by_site = {}
    for i, row, rec, bi in trows:
        r = res.get(i)
        sql = bytes.fromhex(rec["sql"])
        nst += 1
        if r is None or r[2] != sql or not r[1]:
            mism.append((rec, r))
            continue
        if not r[0]:
            notok.append(rec)
        if bi is None:
            continue
        bs = by_site.setdefault(rec["site"], [0, 0])
        bs[0] += 1
        b = res.get(bi)
        if b is None:
            continue
        marker, want = bytes.fromhex(rec["_base"]["marker"]), bytes.fromhex(rec["want"])
        exp = [(k, body.replace(marker, want) if k in ("L", "Q") else body) for k, body in b[3]]
        ncmp += 1
        bs[1] += 1
        if exp != r[3]:
            notsubst.append(rec)
    show = lambda rec: "%s %r" % (rec.get("site"), bytes.fromhex(rec.get("val", rec.get("marker", "")))[:60])
    missing = sorted(set(TEMPO_SITES_) - set(by_site))
    ck.obligation("%s (%s): flat(pieces(%s tree)) = the SQL %s issued, byte for byte, on %d statements (hostile requests and baselines; every position: %s)"
                  % (title, tag, model, real, nst, sorted(by_site)), not mism and not missing, "; ".join(show(rec) for rec, _ in mism[:3]) + (" no case for %s" % missing if missing else ""))
    ck.obligation("%s (%s): every tree passes pok (%s / request_values_keep_statement_structure apply)" % (title, tag, thm),
                  not notok, "; ".join(show(rec) for rec in notok[:3]))
    ck.obligation("%s (%s): the segmented text for the hostile request is the marker's with the marker replaced, on %d (request, baseline) pairs" % (title, tag, ncmp),
                  not notsubst, "; ".join(show(rec) for rec in notsubst[:3]))
    if notok or notsubst:
        rec = (notok or notsubst)[0]
        ck.violation({"property": "C10", "kind": title + ": the segmented text of the statement fails pok or is not the marker's text with other values",
                      "case": {k: v for k, v in rec.items() if not k.startswith("_")}})
    elif mism:
        rec, r = mism[0]
        ck.violation({"property": "C10", "kind": "flat(pieces) of %s differs from the SQL of %s" % (model, real),
                      "case": {k: v for k, v in rec.items() if not k.startswith("_")}, "model": r[2].decode("utf8", "replace") if r else None,
                      "broken": "correspondence %s + model/SqlPieces.v vs the reader code" % model}, no_input=True)
    ck.extra.setdefault("selection_tree_level_tie", {})[key + tag] = {
        "statements": nst, "pairs_compared_piecewise": ncmp, "per_site_[cases,compared]": by_site}
    with vcheck_lock():
        ck.coverage["evaluations"] += nst


def run(ck, sq_cases, tag, values=None):
    vals, idents = list(values or []), list(values or [])
    seen = set()
    for c in sq_cases:
        if not any(c["site"].startswith(p) for p in ("promql.", "prof.", "labels.")):
            continue
        try:
            v = bytes.fromhex(c["val"]).decode("utf8")
        except UnicodeDecodeError:
            continue
        if v in seen or v == MARKER:
            continue
        seen.add(v)
        (idents if (".name" in c["site"] or ".label" in c["site"]) else vals).append(v)
    vals, idents = vals[:int(ck.n(260, 6000))], idents[:int(ck.n(60, 1500))]
    reqs = requests(vals, idents, all_ops=values is not None)
    ok, out = ck.coq_make(["model/SqlPiecesSel.vo"])
    if not ck.obligation("model/SqlPiecesSel.v builds", ok, out[-1500:]):
        return
    if not ck.go_build("promsel"):
        ck.obligation("harness promsel (C17) builds against the repository", False, ck.build_out[-1500:])
        return
    inp = os.path.join(ck.work, "sel_%s_in.jsonl" % tag)
    with open(inp, "w") as f:
        for i, (c, pos, v) in enumerate(reqs):
            c["id"] = i
            f.write(json.dumps(c) + "\n")
    outp = os.path.join(ck.work, "sel_%s_out.jsonl" % tag)
    rc, out = ck.go_run("promsel", ["--cases", inp, "--out", outp], env_extra={"TZ": "UTC"})
    if rc != 0:
        ck.obligation("harness promsel ran the hostile matchers", False, out[-1500:])
        return
    obs = {}
    for l in open(outp):
        o = json.loads(l)
        obs[o["id"]] = o
    lines, sqls, rejected = [], {}, {}
    FLIP = 10**7

    def flipped(ms):
        """the same matchers with the oracle answer 'accepts the empty string' of the LAST regex matcher negated: C17's harness asks
        Prometheus (labels.NewMatcher) and records false when Prometheus refuses the matcher, while the planners ask Go's regexp about
        "^(?:" + v + ")$" (a value like `') /*x\\` closes the group itself: Prometheus refuses it, Go compiles it); the planner models
        take the oracle as a parameter, so the tie looks for the oracle value under which model and code agree"""
        out = [dict(m) for m in ms or []]
        for m in reversed(out):
            if m["op"] in ("=~", "!~"):
                m["e"] = not m.get("e")
                return out
        return None

    def line(i, c, o, ms):
        t = o["tables"]
        if c["kind"] == "sql":
            return "(sql %d %s %s %s %s %s)" % (i, {"raw": "KRaw", "down": "KDownsample"}[c["sub"]], p17.sx_hints(o["hints"]),
                                                p17.sx_ctx(o["ctx"], t), p17.sx_matchers(ms), p17.sx_empty_table(ms))
        return "(prof %d %s %d %d %s %s %s)" % (i, p17.sx_str(t["prof_gin"]), o["ctx"]["from_ns"], o["ctx"]["to_ns"], p17.sx_bool(o["ctx"]["cluster"]),
                                                p17.sx_list(["(%s %s %s)" % (p17.sx_str(x["n"]), p17.OPS[x["op"]], p17.sx_str(x["v"])) for x in ms or []]),
                                                p17.sx_empty_table(ms))
    for i, (c, pos, v) in enumerate(reqs):
        o = obs.get(i)
        if not o or o.get("err") or not o.get("sql") or not o.get("tables"):
            rejected[pos] = rejected.get(pos, 0) + 1
            continue
        sqls[i] = o["sql"].encode("utf8", "surrogateescape")
        ms = o.get("ms") if c["kind"] == "sql" else o.get("sels")
        lines.append(line(i, c, o, ms))
        fl = flipped(ms)
        if fl is not None:
            lines.append(line(i + FLIP, c, o, fl))
    trows = tempo_rows(sq_cases) if values is None else []
    lrows = tempo_rows(sq_cases, LABEL_SITES, LBASE) if values is None else []
    lines += [r for _, r, _, _ in trows] + [r for _, r, _, _ in lrows]
    data = os.path.join(ck.work, "sel_%s_cases.txt" % tag)
    open(data, "w").write("\n".join(lines) + "\n")
    rc, out = ck.ocaml_eval("c10sel_" + tag, "ExtractC10Sel.v", "c10sel", "let data_file = %s\n" % json.dumps(data), "c10sel_driver.ml")
    if rc != 0:
        ck.obligation("PromQL / Pyroscope selection trees evaluated by the extracted planner models + segmented renderer", False, out[-2000:])
        return
    res = {}
    for ln in out.splitlines():
        p = ln.split(" ")
        if len(p) == 2 and p[0].isdigit() and p[1] != "-":
            okf, same, flat, pcs = p[1].split("/")
            res[int(p[0])] = (okf == "1", same == "1", bytes.fromhex(flat), [(x[0], bytes.fromhex(x[1:])) for x in pcs.split(",") if x])
    if trows:
        tempo_judge(ck, tag, trows, res)
    if lrows:
        tempo_judge(ck, tag, lrows, res, title="Label values / series", model="model/ScansPlanners.v", real="the real QueryLabelsService", SITES=LABEL_SITES,
                    thm="label_values_statement_is_value_independent / series_statement_is_value_independent", key="label_endpoints_")
    mism, notok, leaked, notsubst = [], [], [], []
    base = {}
    for i, (c, pos, v) in enumerate(reqs):
        if v == MARKER and i in res:
            base[pos] = i
    npieces = nvals = located = nsame = 0
    by_pos = {}
    accepts_empty = lambda i: [bool(m.get("e")) for m in (obs[i].get("ms") or obs[i].get("sels") or [])]
    nflip = 0
    flipped_ids = set()
    for i, sql in sqls.items():
        c, pos, v = reqs[i]
        r = res.get(i)
        if (r is None or r[2] != sql) and res.get(i + FLIP) is not None and res[i + FLIP][2] == sql:
            r = res[i] = res[i + FLIP]       # model = code under the other answer of the regex oracle
            nflip += 1
            flipped_ids.add(i)
        if r is None or r[2] != sql or not r[1]:
            mism.append(i)
            continue
        if not r[0]:
            notok.append(i)
        want = v.encode("utf8")
        npieces += len(r[3])
        found = False
        for k, body in r[3]:
            if k in ("L", "Q"):
                nvals += 1
                if want and want in body:
                    found = True
            elif len(want) >= 3 and any(ch in want for ch in SPECIAL) and want in body:
                # a text piece of the marker's statement is the planner's own text, not request bytes
                bb = base.get(pos)
                if bb is None or body not in set(x for kk, x in res[bb][3] if kk == "T"):
                    leaked.append((i, body))
        located += 1 if found else 0
        bp = by_pos.setdefault(pos, [0, 0, 0])
        bp[0] += 1
        bp[1] += 1 if found else 0
        b = base.get(pos)
        if b is not None and b != i and i not in flipped_ids and accepts_empty(b) == accepts_empty(i):
            # same planner branch as the marker: the pieces are the marker's with the marker replaced by the value
            exp = [(k, body.replace(MARKER.encode(), want) if k in ("L", "Q") else body) for k, body in res[b][3]]
            nsame += 1
            bp[2] += 1
            if exp != r[3]:
                notsubst.append(i)
    show = lambda i: "%s %s" % (reqs[i][1], json.dumps(reqs[i][2])[:80])
    if values is None:
        empty = sorted(set(pos for _, pos, _ in reqs) - set(by_pos))
        ck.obligation("PromQL/Pyroscope selection (%s): every position has planned statements" % tag, not empty, "none for: %s" % empty)
    ck.obligation("PromQL/Pyroscope selection tree-level correspondence (%s): flat(pieces(model plan)) = SQL of the real planners, byte for byte, on %d statements"
                  % (tag, len(sqls)), not mism, "; ".join(show(i) for i in mism[:3]))
    ck.obligation("every PromQL/Pyroscope selection tree passes pok (%s): promql_selection_/profile_selection_values_keep_statement_structure apply (%d trees)"
                  % (tag, len(sqls)), not notok, "; ".join(show(i) for i in notok[:3]))
    ck.obligation("PromQL/Pyroscope selection (%s): no hostile string occurs in a text piece" % tag, not leaked,
                  "; ".join("%s in %r" % (show(i), b[:60]) for i, b in leaked[:3]))
    ck.obligation("PromQL/Pyroscope selection (%s): the segmented text for the hostile value is the marker's with the marker replaced, on %d requests planned on the marker's branch"
                  % (tag, nsame), not notsubst, "; ".join(show(i) for i in notsubst[:3]))
    if notok or leaked or notsubst:
        i = (notok or [x for x, _ in leaked] or notsubst)[0]
        ck.violation({"property": "C10", "kind": "PromQL/Pyroscope selection: the segmented text of the planned tree fails pok, carries request bytes in a text piece, or is "
                      "not the marker's text with other values (model/SqlPieces.v over model/PromSel.v / model/ProfSel.v)",
                      "position": reqs[i][1], "value": reqs[i][2], "request": reqs[i][0]})
    elif mism:
        i = mism[0]
        ck.violation({"property": "C10", "kind": "flat(pieces) of the planner model differs from the real planner's SQL", "position": reqs[i][1], "value": reqs[i][2],
                      "broken": "correspondence model/PromSel.v / model/ProfSel.v + model/SqlPieces.v vs reader/promql/transpiler, reader/prof/transpiler"}, no_input=True)
    t = ck.extra.setdefault("selection_tree_level_tie", {})
    t[tag] = {"requests": len(reqs), "statements": len(sqls), "rejected_by_parser_or_planner": rejected, "pieces": npieces, "value_pieces": nvals,
              "requests_whose_value_is_located_in_a_value_piece": located,
              "statements_matched_under_the_other_answer_of_the_regex_oracle_(Prometheus_refuses_the_matcher,_Go_regexp_accepts_the_anchored_text)": nflip, "requests_on_the_markers_branch_compared_piecewise": nsame,
              "per_position_[statements,value_located,compared_with_marker]": by_pos}
    with vcheck_lock():
        ck.coverage["evaluations"] += len(sqls)
