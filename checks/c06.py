"""C06 — a stored span reads back as the span that was pushed.

model/Spans.v transcribes the trace write path (OTLP protobuf, Zipkin JSON array, Zipkin NDJSON ->
TempoSamples / TempoTag rows via onSpan) and the trace read path (OutputQuery -> parseZipkinJSON /
parseOTLP); props/C06.v proves, for every request, that the rows are in bijection with the pushed
spans, that a span's tag rows are its flattened attributes with its ids and times, and that the read
path returns the pushed span.  Correspondence: harness/cmd/spans drives the real parsers and the real
OutputQuery (rows replayed through a scripted database/sql driver) on generated requests; inside Coq
the observations are compared with the model (mismatches) and with the property's oracle spec_ok
(spec_violations), which does not use the decoders' model.
"""
import json
import os
import re

from vcheck import coq_list, coq_string

PID = "C06"
HERE = os.path.dirname(os.path.dirname(os.path.abspath(__file__)))


# ----------------------------------------------------------------------------- JSON -> Coq terms
# Every string / id literal is interned as a top-level Definition of the case file: Coq string literals are
# costly to elaborate (one constructor per bit) and the same keys and ids recur in rows, tag rows and read-backs.
class Interner:
    def __init__(self):
        self.names = {}
        self.defs = []

    def get(self, kind, content):
        key = (kind, content)
        nm = self.names.get(key)
        if nm is None:
            nm = "%s%d" % (kind, len(self.names))
            self.names[key] = nm
            if kind == "s" and isinstance(content, str) and len(content) > 1000 and len(set(content)) == 1 and 32 < ord(content[0]) < 127 and content[0] != '"':
                self.defs.append('Definition %s : string := rep_char "%s" %d%%N.' % (nm, content[0], len(content)))
            elif kind == "s":
                self.defs.append("Definition %s : string := %s." % (nm, coq_string(content)))
            else:
                self.defs.append('Definition %s : string := Eval vm_compute in hx "%s".' % (nm, content))
        return nm


IN = Interner()


ARMOR = "\x00hex:"


def S(x):
    """a string of a case; the harness prints byte strings that are not UTF-8 as "\\x00hex:<hex>" (encoding/json would replace the bytes)"""
    if x is None:
        x = ""
    if x.startswith(ARMOR):
        x = bytes.fromhex(x[len(ARMOR):])
    return IN.get("s", x)


def Z(n):
    return "%d" % n if n >= 0 else "(%d)" % n


def HX(h):
    return IN.get("h", h or "")


def aval(v):
    t = v["t"]
    if t == "s":
        return "(AStr %s)" % S(v.get("s", ""))
    if t == "i":
        return "(AInt %s)" % Z(v.get("i", 0))
    if t == "b":
        return "(ABool %s)" % ("true" if v.get("b") else "false")
    if t == "d":
        return "(ADouble %s)" % Z(v.get("m", 0))
    if t == "y":
        return "(ABytes %s)" % HX(v.get("s", ""))
    if t == "e":
        return "AEmpty"
    if t == "n":
        return "ANil"
    if t == "l":
        return "(AList %s)" % coq_list([aval(x) for x in (v.get("l") or [])])
    if t == "m":
        return "(AMap %s)" % kvs(v.get("kv") or [])
    raise ValueError(t)


def kvs(l):
    return coq_list(["(%s, %s)" % (S(kv["k"]), aval(kv["v"])) for kv in (l or [])])


def ospan(s):
    return "(Build_ospan %s %s %s %s %s %s %s %s)" % (
        HX(s["tid"]), HX(s["sid"]), HX(s["pid"]), S(s["name"]), Z(s["start"]), Z(s["end"]), Z(s["kind"]), kvs(s["attrs"]))


def oextra(s):
    evs = coq_list(["(Build_oevent %s %s %s %s)" % (Z(e["t"]), S(e["n"]), kvs(e.get("attrs") or []), Z(e.get("dropped", 0))) for e in (s.get("events") or [])])
    st = s.get("status")
    return "(Build_oextra %s %s)" % (evs, "(Some (Build_ostatus %s %s))" % (S(st["msg"]), Z(st["code"])) if st else "None")


def xread(c):
    """per stored row: (events as (time, name), status code) of the span OutputQuery returned"""
    return coq_list(["(Some (%s, %s))" % (coq_list(["(%d, %s)" % (e["t"], S(e["n"])) for e in (r.get("ev") or [])]), Z(r.get("status", 0)))
                     if r.get("ok") else "None" for r in (c["read"] or [])])


def omore(m):
    """SpansWireY.omore: trace_state, dropped counts, links, flags of a span (None = none of them set)"""
    if not m:
        return "no_more"
    links = coq_list(["(Build_olink %s %s %s %s %s %s)" % (HX(l["tid"]), HX(l["sid"]), S(l["state"]), kvs(l.get("attrs") or []), Z(l["dropped"]), Z(l["flags"]))
                      for l in (m.get("links") or [])])
    return "(Build_omore %s %s %s %s %s %s)" % (S(m["state"]), Z(m["dattrs"]), Z(m["devents"]), links, Z(m["dlinks"]), Z(m["flags"]))


def yread(c):
    """per stored row: the further fields of the span OutputQuery returned"""
    return coq_list(["(Some (%s, %s))" % (omore(r.get("more")), coq_list([Z(e.get("d", 0)) for e in (r.get("ev") or [])])) if r.get("ok") else "None"
                     for r in (c["read"] or [])])


def ores(r):
    return "(Build_ores %s %s %s)" % (
        "true" if r["has_res"] else "false", kvs(r["attrs"]),
        coq_list([coq_list([ospan(s) for s in (sc or [])]) for sc in (r["scopes"] or [])]))


def jv(v):
    t = v["t"]
    if t == "s":
        return "(JStr %s)" % S(v.get("s", ""))
    if t == "i":
        return "(JInt %s)" % Z(int(v["i"]))
    if t in ("f", "n"):     # a JSON number that is not an integer literal (f: 1.5, n: the text in "s": exponent / fraction forms)
        return "JFloat"
    if t == "b":
        return "(JBool %s)" % ("true" if v.get("b") else "false")
    if t == "z":
        return "JNull"
    if t == "o":
        return "(JObj %s)" % coq_list(["(%s, %s)" % (S(kv["k"]), jv(kv["v"])) for kv in (v.get("o") or [])])
    if t == "a":
        return "(JArr %s)" % coq_list([jv(x) for x in (v.get("a") or [])])
    raise ValueError(t)


TOKS = {"{": "TObjS", "}": "TObjE", "[": "TArrS", "]": "TArrE", "t": "TTrue", "f": "TFalse", "z": "TNull", "!": "TBad"}


def tok(t):
    """one token of the harness (jx tokenizer) as a SpansJson.tok"""
    if t in TOKS:
        return TOKS[t]
    if t.startswith(ARMOR):     # a token whose string is not UTF-8: the kind letter is inside the armour
        b = bytes.fromhex(t[len(ARMOR):])
        k = {"k": "TKey", "s": "TStr", "n": "TNum"}[chr(b[0])]
        return "(%s %s)" % (k, IN.get("s", b[1:]))
    k = {"k": "TKey", "s": "TStr", "n": "TNum"}[t[0]]
    return "(%s %s)" % (k, S(t[1:]))


def toks(c):
    return coq_list([coq_list([tok(t) for t in ts]) for ts in (c.get("toks") or [])])


def events(c):
    """per stored row: the events OutputQuery returned (None: no span)"""
    return coq_list(["(Some %s)" % coq_list(["(%d, %s)" % (e["t"], S(e["n"])) for e in (r.get("ev") or [])]) if r.get("ok") else "None"
                     for r in (c["read"] or [])])


def payload(p, idx):
    k = p["kind"]
    if k == "empty":
        return "PEmpty"
    if k == "self":
        return "(PRef %d%%N)" % idx
    if k == "ref":
        return "(PRef %d%%N)" % p["ref"]
    if k == "otlp":
        return "(POtlp %s)" % ospan(p["span"])
    return "POther"


def trow(r, idx):
    return "(Build_trow %s %s %s %s %s %s %s %s %s)" % (
        HX(r["tid"]), HX(r["sid"]), HX(r["pid"]), S(r["name"]), Z(r["ts"]), Z(r["dur"]), S(r["svc"]), Z(r["ptype"]), payload(r["payload"], idx))


def arows(tags):
    """run-length form (lossless): consecutive rows with identical ids and times share one tag_run"""
    runs = []
    for a in tags or []:
        key = (a["tid"], a["sid"], a["ts"], a["dur"], a["date"])
        if not runs or runs[-1][0] != key:
            runs.append((key, []))
        runs[-1][1].append("(%s, %s)" % (S(a["k"]), S(a["v"])))
    if not runs:
        return "[]"
    return "(" + " ++ ".join("tag_run %s %s %s %s %s %s" % (HX(k[0]), HX(k[1]), Z(k[2]), Z(k[3]), Z(k[4]), coq_list(kv)) for k, kv in runs) + ")%list"


def rspan(r):
    if not r.get("ok"):
        return "None"
    return "(Some (Build_rspan %s %s %s %s %s %s %s %s %s))" % (
        HX(r["tid"]), HX(r["sid"]), HX(r["pid"]), S(r["name"]), Z(r["start"]), Z(r["end"]), Z(r["kind"]), kvs(r["attrs"]), S(r["svc"]))


def case_to_coq(c):
    if c["fmt"] == "otlp":
        inp = "(InOtlp %s)" % coq_list([ores(r) for r in c["otlp"]])
    else:
        # the request the token streams denote (SpansJson.zin): computed inside Coq from the tokenizer's output, not from the generator's tree
        inp = "c%d_in" % c["id"]
    return "(Build_case %d %s (Build_delivery %d %d)\n     %s %s\n     %s\n     %s)" % (
        c["id"], inp, c.get("seg_mode", 0), c.get("seg_seed", 0), "true" if c["err"] else "false",
        coq_list([trow(r, i) for i, r in enumerate(c["spans"] or [])]),
        arows(c["tags"]),
        coq_list([rspan(r) for r in (c["read"] or [])]))


HEADER = ("From Coq Require Import List ZArith NArith Bool String Ascii Uint63.\nFrom Qryn Require Import model.Spans model.SpansChunk model.SpansWire model.SpansStore model.SpansJson model.SpansWireX model.SpansWireY model.SpansZone model.SpansSvc.\n"
          "Import ListNotations.\nOpen Scope string_scope.\nOpen Scope Z_scope.\n")


def flushed_error(c):
    """the request ended with an error AFTER a mid-request flush: rows exist although it was refused.  Such a case is judged by the
    chunked model only (chunk_matches compares the error flag, the flushed trace rows and, per response, the tag rows)."""
    return bool(c["err"] and c["spans"])


def cases_file(cases):
    """c<id> : case for every request; [cases] = those compared with the unchunked model (all but flushed_error ones);
    [ccases] = every request with the parser's responses (trace rows, tag rows per response) and the Zipkin text lengths"""
    global IN
    IN = Interner()
    one = []
    for c in cases:
        if c["fmt"] != "otlp":
            one.append("Definition c%d_toks : list (list tok) := %s." % (c["id"], toks(c)))
            one.append("Definition c%d_in : input := zin %s c%d_toks." % (c["id"], "true" if c["fmt"] == "znd" else "false", c["id"]))
        one.append("Definition c%d : case := %s." % (c["id"], case_to_coq(c)))
    tc = "Definition tcases : list tcase := %s.\n" % coq_list(
        ["(Build_tcase c%d %s c%d_toks %s)" % (c["id"], "true" if c["fmt"] == "znd" else "false", c["id"], events(c)) for c in cases if c["fmt"] != "otlp"])
    lst = "Definition cases : list case := %s.\n" % coq_list(["c%d" % c["id"] for c in cases if not flushed_error(c)])
    cc = "Definition ccases : list ccase := %s.\n" % coq_list(
        ["(Build_ccase c%d %s %s)" % (c["id"], coq_list([Z(n) for n in c.get("text_lens") or []]),
                                      coq_list(["(%d, %d)" % (a, b) for a, b in c.get("resp") or []])) for c in cases])
    wc = "Definition ycases : list ycase := %s.\nDefinition xcases : list xcase := map yc_x ycases.\n" % coq_list(
        ["(Build_ycase (Build_xcase %d (c_in c%d) %s %s %s) %s %s)" % (c["id"], c["id"],
            coq_list([oextra(sp) for r in c["otlp"] for sc in (r["scopes"] or []) for sp in (sc or [])]),
            coq_list(["(%d, (%d%%uint63, %d%%uint63))" % (n, fp[0], fp[1]) for n, fp in zip(c.get("pay_lens") or [], c.get("pay_fp") or [])]),
            xread(c),
            coq_list([omore(sp.get("more")) for r in c["otlp"] for sc in (r["scopes"] or []) for sp in (sc or [])]),
            yread(c))
         for c in cases if c["fmt"] == "otlp"])
    qc = "Definition qcases : list qcase := %s.\n" % coq_list(
        ["(Build_qcase c%d %d%%nat %s %s)" % (c["id"], c["query_k"], coq_list([HX(x) for x in c.get("query_bad") or []]),
                                             coq_list([HX(x) for x in c.get("query_type3") or []]))
         for c in cases if c.get("query_k", -1) >= 0 and not flushed_error(c)])
    # every request with the zone of the writer process it was parsed and stored under (seconds east of UTC)
    zc = "Definition zncases : list zncase := %s.\n" % coq_list(["(Build_zncase c%d %s)" % (c["id"], Z(c.get("tz", 0))) for c in cases])
    return HEADER + "\n".join(IN.defs) + "\n" + "\n".join(one) + "\n" + lst + cc + wc + tc + qc + zc


def ids(s):
    return [int(x) for x in re.findall(r"-?\d+", s)]


def eval_text(ck, name, cases_txt):
    txt = (cases_txt +
           "Definition M := Eval vm_compute in mismatches cases.\nPrint M.\n"
           "Definition V := Eval vm_compute in spec_violations cases.\nPrint V.\n"
           "Definition R := Eval vm_compute in regressions cases.\nPrint R.\n"
           "Definition CM := Eval vm_compute in chunk_mismatches (fun c => psz_store (cc_lens c)) ccases.\nPrint CM.\n"
           "Definition WM := Eval vm_compute in (wirey_mismatches ycases ++ wirex_read_mismatches xcases)%list.\nPrint WM.\n"
           "Definition WR := Eval vm_compute in wirey_roundtrip_failures ycases.\nPrint WR.\n"
           "Definition YV := Eval vm_compute in yread_violations ycases.\nPrint YV.\n"
           "Definition QM := Eval vm_compute in query_mismatches qcases.\nPrint QM.\n"
           "Definition CV := Eval vm_compute in chunk_spec_violations ccases.\nPrint CV.\n"
           "Definition TM := Eval vm_compute in tok_mismatches tcases.\nPrint TM.\n"
           "Definition TI := Eval vm_compute in tok_illformed tcases.\nPrint TI.\n"
           "Definition TV := Eval vm_compute in tok_spec_violations tcases.\nPrint TV.\n"
           "Definition XV := Eval vm_compute in xread_violations xcases.\nPrint XV.\n"
           "Definition ZM := Eval vm_compute in zone_mismatches zncases.\nPrint ZM.\n"
           "Definition ZD := Eval vm_compute in zone_local_explains zncases.\nPrint ZD.\n"
           "Definition ZV := Eval vm_compute in zone_spec_violations zncases.\nPrint ZV.\n"
           "Definition SV := Eval vm_compute in svc_violations cases.\nPrint SV.\n"
           "Definition SO := Eval vm_compute in svc_counts cases.\nPrint SO.\n")
    rc, out = ck.coq_eval(name, txt)
    if rc != 0:
        return None, out
    flat = " ".join(out.split())
    res = {}
    for nm in ("M", "V", "CM", "CV", "WM", "WR", "TM", "TI", "TV", "XV", "YV", "QM", "ZM", "ZD", "ZV", "SV", "SO"):
        m = re.search(r"(?<![A-Z])" + nm + r" = \[(.*?)\]\s*: list Z", flat)
        if not m:
            return None, out
        res[nm] = ids(m.group(1))
    m = re.search(r"R = \[(.*?)\]\s*: list \(Z \* Z\)", flat)
    if not m:
        return None, out
    r = ids(m.group(1))
    res["R"] = list(zip(r[0::2], r[1::2]))
    return res, out


QUIRKS = {0: "OTLP list-valued attributes yield no tag rows (fixed defect otlp-list-attrs-dropped)",
          1: "Zipkin remoteEndpoint service name overrides the local one (fixed defect zipkin-remote-service-inverted)",
          2: "NDJSON framing keeps decoder state across lines / stores no payload (fixed defect zipkin-ndjson-state)",
          3: "read path prefers peer.service and rewrites service.name (fixed defect otlp-read-peer-service)",
          4: "read path takes a Zipkin parent only from a 16-digit payload parentId (fixed defect zipkin-short-parent-id)",
          5: "Zipkin microseconds * 1000 wrap around int64 instead of being refused (fixed defect zipkin-time-overflow)",
          6: "an OTLP export with a resource group lacking the resource message is refused as a whole (fixed defect otlp-group-without-resource)"}


SEG = {0: "one Read over the whole body", 1: "one byte per Read", 2: "1..1500 bytes per Read", 3: "1..64 bytes per Read"}


def delivery_of(ck, c):
    """how the body of this request was delivered, and the body itself (re-rendered by the harness) when it is not huge"""
    d = {"insert_step": ("first insert failed: ProcessRequest run twice on the same request object, rows of the retried block judged; " +
                         (c.get("retry_diff") or "blocks identical")) if c.get("retry") else "ProcessRequest run once",
         "mode": SEG.get(c.get("seg_mode", 0)), "seg_seed": c.get("seg_seed"), "body_len": c.get("body_len"),
         "read_calls": c.get("reads"), "first_segment_sizes": c.get("seg_head")}
    try:
        inp = os.path.join(ck.work, "body_in.jsonl")
        outp = os.path.join(ck.work, "body_out.jsonl")
        open(inp, "w").write(json.dumps({k: c.get(k) for k in ("id", "class", "fmt", "otlp", "zip", "sep", "trail_nl", "esc", "tails", "seg_mode", "seg_seed", "retry", "tz")}) + "\n")
        rc, _ = ck.go_run("spans", ["--cases", inp, "--out", outp], env_extra={"SPANS_DUMP_BODY": "1", "SPANS_CONC": "0"})
        if rc == 0:
            o = json.loads(open(outp).readline())
            if o.get("body_b64") and len(o["body_b64"]) < 600000:
                d["body_base64"] = o["body_b64"]
                d["all_segment_sizes"] = o.get("seg_all")
    except Exception as ex:   # the replay stays usable without the rendered body
        d["body_note"] = "body not rendered: %s" % ex
    return d


def size_of(c):
    return len(json.dumps([c["otlp"], c["zip"]]))


def slim(c):
    """a case without its bulky observations (a replay needs the input only)"""
    if size_of(c) < 200000:
        return c
    return {k: c.get(k) for k in ("id", "class", "fmt", "otlp", "zip", "sep", "trail_nl", "esc", "tails", "seg_mode", "seg_seed", "retry", "tz", "err", "errmsg", "resp")}


def nontrivial(c):
    """accepted request with >= 2 spans, or 1 span with >= 2 tag rows beyond name/service.name"""
    if c["err"] or not c["spans"]:
        return False
    return len(c["spans"]) >= 2 or len(c["tags"]) >= 4


INPUT_KEYS = ("id", "class", "fmt", "otlp", "zip", "sep", "trail_nl", "esc", "tails", "seg_mode", "seg_seed", "retry", "tz")


def rspan_field_diff(a, b):
    """first field in which two read-back spans differ (a = read alone, b = read while other requests were in flight)"""
    if not a or not b:
        return ""
    for k in ("tid", "sid", "pid", "start", "end", "name", "svc", "kind", "status", "ev", "more"):
        if a.get(k) != b.get(k):
            return "%s: read alone %s, in flight %s" % (k, json.dumps(a.get(k))[:200], json.dumps(b.get(k))[:200])
    aa, bb = a.get("attrs") or [], b.get("attrs") or []
    for i in range(max(len(aa), len(bb))):
        x = aa[i] if i < len(aa) else None
        y = bb[i] if i < len(bb) else None
        if x != y:
            return "attribute %d: read alone %s, in flight %s" % (i, json.dumps(x)[:200], json.dumps(y)[:200])
    return ""


def judge_in_flight(ck, outp, cases, label, replay_mode=False, died=""):
    """trace requests in flight at the same time (harness concPhase): every answer = the spans its rows give when read alone.
    cases: the harness' output cases in the order of the run (case_index of the report indexes it)"""
    path = outp + ".conc"
    if not os.path.exists(path):
        ck.obligation("%s: the harness ran the trace requests in flight at the same time" % label, False, "no %s" % path)
        return None
    rep = json.load(open(path))["conc"]
    if rep.get("started") and not rep["ran"]:
        # the harness process died while the requests were in flight (the plan was written before the first call)
        used = sorted({i for t in rep["traces"] for i in t["cases"]})
        pos = {i: k for k, i in enumerate(used)}
        ck.obligation("%s: the reader process survives overlapping trace requests" % label, False, died[-600:])
        ck.violation({"property": PID, "kind": "the process died while trace requests over stored Zipkin rows were in flight at the same time "
                      "(one at a time every one of these rows reads back right)", "output_tail": died[-3000:],
                      "traces": [{"rows": t["rows"], "requests": [pos[i] for i in t["cases"]]} for t in rep["traces"]],
                      "trace_set": [{k: cases[i].get(k) for k in INPUT_KEYS} for i in used if i < len(cases)],
                      "replay": "bin/check C06 --replay <this file> (a race: several runs may be needed)"})
        return None
    mm, unst = rep["mismatches"], rep.get("rows_unstable_when_read_alone") or []
    ok = rep["ran"] and not mm and not unst and rep["answers_wrong"] == 0
    ck.obligation("%s: overlapping trace requests (OutputQuery calls whose row streams are all in flight, 2 to %d at a time, started one after the other and "
                  "all at once, GOMAXPROCS %d) each return, span for span, what their stored Zipkin rows give when read one at a time "
                  "(%d rounds, %d calls, %d spans compared; traces of %s rows made of the stored rows of %d requests)"
                  % (label, len(rep["traces"]), rep["gomaxprocs"], rep["rounds"], rep["calls"], rep["spans_compared"],
                     "/".join(str(t["rows"]) for t in rep["traces"]), rep["pool_cases"]), ok,
                  (rep.get("why") or "") + " %d of %d answers wrong; rows unstable when read alone: %s; first: %s"
                  % (rep["answers_wrong"], rep["calls"], unst[:3], json.dumps({k: v for k, v in mm[0].items() if k not in ("read_alone", "read_in_flight")})[:600] if mm else ""))
    ck.coverage["evaluations"] += rep["calls"]
    if (mm or unst) and rep["ran"]:
        # the replay: the trace set (input of every request whose rows make the traces, in the order that rebuilds the same traces) + the mismatching span
        with_span = [m for m in mm if m.get("read_alone")]
        w = (with_span or mm or [None])[0]
        used = sorted({i for t in rep["traces"] for i in t["cases"]})
        pos = {i: k for k, i in enumerate(used)}
        obj = {"property": PID, "kind": "a stored span is not read back as the span that was pushed when trace requests overlap "
               "(one at a time every one of these rows reads back right)",
               "mismatch": w, "difference": rspan_field_diff(w.get("read_alone"), w.get("read_in_flight")) if w else "",
               "other_mismatches": [{k: v for k, v in m.items() if k not in ("read_alone", "read_in_flight")} for m in mm if m is not w][:8],
               "answers_wrong": rep["answers_wrong"], "calls": rep["calls"], "gomaxprocs": rep["gomaxprocs"], "rows_unstable_when_read_alone": unst[:5],
               "traces": [{"rows": t["rows"], "requests": [pos[i] for i in t["cases"]]} for t in rep["traces"]],
               "trace_set": [{k: cases[i].get(k) for k in INPUT_KEYS} for i in used],
               "pushed_span": (cases[w["case_index"]].get("zip") or [None] * (w["row"] + 1))[w["row"]] if w and w["case_index"] < len(cases) and w["row"] < len(cases[w["case_index"]].get("zip") or []) else None,
               "replay": "bin/check C06 --replay <this file> (harness spans --cases <trace_set, one request per line> --out <file>: the harness rebuilds "
                         "the same traces from the stored rows and reads them in flight; a race: the spans hit differ from run to run)"}
        if not replay_mode or True:
            ck.violation(obj)
    return rep



def run_spans(ck):
    if not ck.go_build("spans"):
        ck.obligation("harness spans builds against the repository", False, ck.build_out[-1500:])
        return
    n = ck.n(400, 12000)
    cases = []
    corpus = os.path.join(HERE, "corpus", PID, "spans.jsonl")
    if os.path.exists(corpus):
        outp = os.path.join(ck.work, "spans_corpus.jsonl")
        if os.path.exists(outp + ".conc"):
            os.remove(outp + ".conc")
        rc, out = ck.go_run("spans", ["--cases", corpus, "--out", outp])
        if rc != 0:
            ck.obligation("harness spans ran the corpus", False, out[-1500:])
            if os.path.exists(outp + ".conc"):
                judge_in_flight(ck, outp, [json.loads(l) for l in open(outp)], "corpus", died=out)
            return
        cs = [json.loads(l) for l in open(outp)]
        repc = judge_in_flight(ck, outp, cs, "corpus")
        for i, c in enumerate(cs):
            c["id"] = 1000000 + i
            c["class"] = "corpus:" + c.get("class", "")
        cases += cs
    outp = os.path.join(ck.work, "spans.jsonl")
    # quick tier: of the 17 large fixed requests (ids 7-23) one per class stays (OTLP > 1 MiB, array / NDJSON beyond the read buffers, hundreds of
    # small spans, long line in both framings, two flushes, exactly 1 MiB, 1 MiB + 1, failure after a flush in Zipkin and OTLP); the thorough tier runs all
    env = {"SPANS_DEPTH": "3" if ck.quick() else "4", "SPANS_SKIP": "9,12,13,15,18,21" if ck.quick() else ""}
    env["SPANS_CONC"] = "24" if ck.quick() else "200"
    if os.path.exists(outp + ".conc"):
        os.remove(outp + ".conc")
    rc, out = ck.go_run("spans", ["--seed", ck.seed, "--n", n, "--out", outp], env_extra=env)
    if rc != 0:
        ck.obligation("harness spans ran", False, out[-1500:])
        if os.path.exists(outp + ".conc"):
            if judge_in_flight(ck, outp, [json.loads(l) for l in open(outp)], "generated requests", died=out) is None and ck.violations:
                return
        if "panic" in out or "goroutine" in out:
            ck.violation({"property": PID, "kind": "harness process died while driving the write/read path (panic outside recover)",
                          "output_tail": out[-3000:], "replay": "harness spans --seed %s --n %s" % (ck.seed, n)}, no_input=True)
        return
    gen_cases = [json.loads(l) for l in open(outp)]
    repg = judge_in_flight(ck, outp, gen_cases, "generated requests")
    if repg:
        ck.extra["trace_requests_in_flight"] = {k: repg[k] for k in ("gomaxprocs", "rounds", "calls", "spans_compared", "pool_rows", "pool_cases", "answers_wrong")}
        ck.extra["trace_requests_in_flight"]["trace_rows"] = [t["rows"] for t in repg["traces"]]
    cases += gen_cases
    # a panic of the insert service on rows the parser accepted is outside the model's observation alphabet
    panics = [c for c in cases if c.get("panic")]
    ck.obligation("the insert services take every TempoSamples/TempoTag the parsers produce (no panic, no lost row)", not panics,
                  "case ids: %s; %s" % ([c["id"] for c in panics[:10]], panics[0]["panic"][:300] if panics else ""))
    if panics:
        w = min(panics, key=size_of)
        ck.violation({"property": PID, "kind": "accepted spans are not stored: the insert service panicked on the parser's output", "case": w,
                      "replay": "harness spans --cases <file holding the 'case' object on one line> --out /dev/stdout"})
    # process_request_leaves_request_unchanged: controller.doPush re-submits the SAME request object after a failed insert
    changed = [c for c in cases if c.get("retry_diff")]
    ck.obligation("process_request_leaves_request_unchanged: a second ProcessRequest of the same TempoSamples/TempoTag builds the same block "
                  "(%d requests processed twice)" % sum(1 for c in cases if c.get("retry")), not changed,
                  "case ids: %s; %s" % ([c["id"] for c in changed[:10]], changed[0]["retry_diff"][:300] if changed else ""))
    cases = [c for c in cases if not c.get("panic")]
    byid = {c["id"]: c for c in cases}
    tot = {"M": [], "V": [], "R": [], "CM": [], "CV": [], "WM": [], "WR": [], "TM": [], "TI": [], "TV": [], "XV": [], "YV": [], "QM": [], "ZM": [], "ZD": [], "ZV": [], "SV": [], "SO": []}
    # Coq spends ~0.1 s per request elaborating the literal: shards are evaluated by parallel coqc processes
    shard = 100
    heavy = [c for c in cases if size_of(c) > 40000]           # the > 64 KiB / > 1 MiB requests: a shard each
    light = [c for c in cases if size_of(c) <= 40000]
    groups = [[c] for c in heavy] + [light[k:k + shard] for k in range(0, len(light), shard)]
    texts = [(k, cases_file(g)) for k, g in enumerate(groups)]
    from concurrent.futures import ThreadPoolExecutor
    with ThreadPoolExecutor(max_workers=8) as ex:
        results = list(ex.map(lambda kt: eval_text(ck, "C06_spans_%d" % kt[0], kt[1]), texts))
    for res, out in results:
        if res is None:
            ck.obligation("span cases evaluated inside Coq", False, out[-1500:])
            return
        for key in tot:
            if key == "SO":
                tot[key] = [a + b for a, b in zip(tot[key] or [0, 0, 0], res[key])]
            else:
                tot[key] += res[key]
    # a lone \uD800-\uDFFF escape in a Zipkin string: jx (write side) decodes U+FFFD, fastjson (read side) keeps the escape as text
    known_ids = set()
    sur = [c for c in cases if c.get("pay_tok_surrogate")]
    if sur and "zipkin-lone-surrogate" in ck.known_findings():
        known_ids = {c["id"] for c in sur}
        ck.report_known("zipkin-lone-surrogate", "the tag-index value and the value read back differ for a string with an unpaired surrogate escape "
                        "(case ids %s: %s)" % (sorted(known_ids)[:5], sur[0]["pay_tok_diff"][:160]))
    for key in ("M", "V", "TM", "TV", "SV"):
        tot[key] = [i for i in tot[key] if i not in known_ids]
    tot["R"] = [(i, q) for (i, q) in tot["R"] if i not in known_ids]
    mism, viol = tot["M"], tot["V"]
    ck.obligation("correspondence: model Spans.decode/read_row = implementation on %d requests (rows, tag rows, payloads, read-back)" % len(cases),
                  not mism, "mismatching case ids: %s; legacy-defect diagnosis (case, defect): %s" % (mism[:10], tot["R"][:10]))
    ck.obligation("spec oracle spec_ok accepts every observed request (one row per span, tag rows of span, read back)",
                  not viol, "violating case ids: %s" % viol[:10])
    # ---- one service name on both sides of the store (model/SpansSvc.v; theorems read_service_is_row_service, model_meets_service_spec)
    sv = tot["SV"]
    s_in, s_out, s_diff = (tot["SO"] + [0, 0, 0])[:3]
    ck.obligation("spec oracle on the service name: for every span inside SpansSvc.svc_guard (Zipkin: all; OTLP: the stored service.name attribute is a non-empty string "
                  "and no attribute is named 'service') the name OutputQuery reports for the stored row = the service_name column of the trace row = the pushed span's "
                  "service name (%d spans inside the domain; %d outside, of which %d with two DIFFERENT names on the implementation: service_names_differ_outside replayed)"
                  % (s_in, s_out, s_diff), not sv, "violating case ids: %s" % sv[:10])
    if sv:
        w = min((byid[i] for i in sv), key=size_of)
        names = [(r.get("svc"), (rd or {}).get("svc")) for r, rd in zip(w.get("spans") or [], w.get("read") or [])]
        ck.violation({"property": PID, "kind": "the service name the read path reports for a stored span (the name the trace answer groups it under) is not the service_name "
                                               "column of its trace row / the service name that was pushed",
                      "case": slim(w), "service_name_column_vs_read_back": names[:8], "delivery": delivery_of(ck, w),
                      "explanation": "svc_ok (model/SpansSvc.v) rejects these observations of the real write/read path; proved of the model for every request "
                                     "(model_meets_service_spec, read_service_is_row_service)",
                      "replay": "harness spans --cases <file holding the 'case' object on one line> --out /dev/stdout"})
    ck.extra["service_name_domain"] = {"spans_inside_svc_guard": s_in, "spans_outside": s_out, "outside_with_two_different_names_observed": s_diff}
    # ---- the zone of the writer process (model/SpansZone.v): every request was parsed and its blocks built with time.Local = FixedZone(tz)
    zm, zd, zv = tot["ZM"], set(tot["ZD"]), tot["ZV"]
    zones = {}
    for c in cases:
        zones[c.get("tz", 0)] = zones.get(c.get("tz", 0), 0) + 1

    def other_local_day(c):
        """tag rows of this case whose span starts on another calendar day in the writer's zone than in UTC"""
        return sum(1 for a in (c["tags"] or []) if a["ts"] >= 0 and (a["ts"] // 10**9) // 86400 != (a["ts"] // 10**9 + c.get("tz", 0)) // 86400)
    nlocal = sum(other_local_day(c) for c in cases)
    ck.obligation("correspondence: model SpansZone.span_date (onSpan's time.Unix(ts/1e9, 0).UTC() through ch-go's ToDate, in the zone of the writer process) = the date "
                  "cell of every tag row, %d requests parsed and stored under %d process zones (%d under a zone other than UTC; %d tag rows of spans whose LOCAL "
                  "calendar day differs from the UTC day)" % (len(cases), len(zones), sum(n for z, n in zones.items() if z), nlocal), not zm,
                  "mismatching case ids: %s; of these the observed days are the writer's LOCAL calendar days (MDate built without .UTC()): %s"
                  % (zm[:10], [i for i in zm if i in zd][:10]))
    ck.obligation("spec oracle on the day: every tag row of a span that starts at or after 1970 bears the UTC day of its timestamp_ns, whatever the zone of the "
                  "writer process (tag_date_is_utc_day; the day every reader planner restricts date to)", not zv, "violating case ids: %s" % zv[:10])
    if zv:
        w = min((byid[i] for i in zv), key=lambda c: (c["id"] not in zd, size_of(c)))
        bad = [a for a in w["tags"] if a["ts"] >= 0 and a["date"] != ((a["ts"] // 10**9) // 86400) % 65536]
        a = bad[0]
        ck.violation({"property": PID, "kind": "the tag-index rows of a stored span do not bear the day of the span: date cell %d, but timestamp_ns %d is on UTC day %d "
                                               "(writer process zone: %+d s east of UTC%s); a search around the span restricts date to the UTC days of its window and "
                                               "never finds these rows" % (a["date"], a["ts"], (a["ts"] // 10**9) // 86400, w.get("tz", 0),
                                                                           "; the stored day is the writer's LOCAL calendar day" if w["id"] in zd else ""),
                      "case": slim(w), "writer_zone_seconds_east_of_utc": w.get("tz", 0), "tag_rows_with_wrong_day": bad[:6], "delivery": delivery_of(ck, w),
                      "replay": "harness spans --cases <file holding the 'case' object on one line> --out /dev/stdout"})
    elif zm and not viol and not mism:
        w = min((byid[i] for i in zm), key=size_of)
        ck.violation({"property": PID, "kind": "model/implementation disagree on the date cell of the tag rows", "case": slim(w),
                      "broken": "correspondence SpansZone.span_date vs builder.go onSpan / ch-go ToDate"}, no_input=True)
    ck.extra["writer_process_zones"] = {("%+d" % z): n for z, n in sorted(zones.items())}
    ck.extra["tag_rows_of_spans_on_another_local_day"] = nlocal
    ck.extra["requests_with_such_rows"] = sum(1 for c in cases if other_local_day(c))
    # ---- the Zipkin payload as a token stream (model/SpansJson.v): the tokenizers are the oracle, everything above them is model
    zcases = [c for c in cases if c["fmt"] != "otlp"]
    tm = tot["TM"]
    ck.obligation("correspondence: the token-level streaming walk SpansJson.zt_decode (decodeSpan over jx tokens: member names, repeated members, raw number "
                  "texts through ParseInt, skipped values) = the tree-level decoder on what the tokens denote, and SpansJson.read_row_tok / read_events "
                  "(fastjson parse of the stored token stream, fields, kind, annotations -> events) = OutputQuery, on %d Zipkin requests" % len(zcases),
                  not tm, "mismatching case ids: %s" % tm[:10])
    tv = tot["TV"]
    ck.obligation("spec oracle on kind and events: every span read back carries the kind its stored text names and, when every annotation denotes an "
                  "event (integer microseconds 0 < us, nanoseconds inside uint64, string value), exactly those events in order", not tv,
                  "violating case ids: %s" % tv[:10])
    nilstatus = [c for c in cases if any(r.get("ok") and r.get("status", 0) < 0 for r in c["read"])]
    ck.obligation("every span read back has a status (UNSET when the payload carries none)", not nilstatus, "case ids: %s" % [c["id"] for c in nilstatus[:10]])
    if tv and not viol:
        w = min((byid[i] for i in tv), key=size_of)
        ck.violation({"property": PID, "kind": "a stored Zipkin span reads back with another kind or other events than its text denotes", "case": slim(w),
                      "read": w["read"], "delivery": delivery_of(ck, w),
                      "replay": "harness spans --cases <file holding the 'case' object on one line> --out /dev/stdout"})
    diff = [c for c in zcases if c.get("pay_tok_diff") and c["id"] not in known_ids]
    ck.obligation("the write side's tokenizer (jx) and the read side's (fastjson) read the same token stream from every stored Zipkin payload "
                  "(%d payloads)" % sum(len(c["spans"] or []) for c in zcases), not diff,
                  "case ids: %s; %s" % ([c["id"] for c in diff[:10]], diff[0]["pay_tok_diff"][:200] if diff else ""))
    if diff and not viol:
        w = min(diff, key=size_of)
        ck.violation({"property": PID, "kind": "a stored Zipkin payload reads differently on the read side: the two JSON tokenizers disagree on it",
                      "case": slim(w), "difference": w["pay_tok_diff"], "delivery": delivery_of(ck, w),
                      "replay": "harness spans --cases <file holding the 'case' object on one line> --out /dev/stdout"})
    elif tm and not viol and not mism:
        w = min((byid[i] for i in tm), key=size_of)
        ck.violation({"property": PID, "kind": "token-level model and implementation (or the two models) disagree", "case": slim(w),
                      "broken": "correspondence SpansJson.zt_decode / read_row_tok / read_events vs decodeSpan / parseZipkinJSON"}, no_input=True)
    illf = set(tot["TI"])
    acc_ill = [c["id"] for c in zcases if c["id"] in illf and not c["err"] and c["id"] not in known_ids]
    ck.obligation("every accepted Zipkin request of the run consists of well-formed token streams (stream_wf, the hypothesis of read_back_token_streams): "
                  "%d of %d Zipkin requests have a stream that is not one JSON value, all of them refused" % (len(illf), len(zcases)), not acc_ill,
                  "accepted although ill-formed: %s" % acc_ill[:10])
    ck.extra["zipkin_requests_with_a_line_that_is_not_one_json_value"] = len(illf)
    ck.extra["zipkin_such_requests_refused"] = sum(1 for c in zcases if c["id"] in illf and c["err"])
    # the parser's responses (mid-request flush): model of onSpan's Size bookkeeping vs the observed responses, and the whole-span oracle
    cm, cv = tot["CM"], tot["CV"]
    nresp = sum(1 for c in cases if len(c.get("resp") or []) > 1)
    ck.obligation("correspondence: model SpansChunk.decode_chunked (onSpan sizes, flush above 1 MiB, responses before an error) = the parser's "
                  "responses on %d requests (%d answered in several responses, %d failing after a flush)" % (
                      len(cases), nresp, sum(1 for c in cases if flushed_error(c))), not cm, "mismatching case ids: %s" % cm[:10])
    ck.obligation("spec oracle chunk_spec_ok: every response of an accepted request carries whole spans (its tag rows are those of its trace rows), "
                  "all responses together one trace row per pushed span", not cv, "violating case ids: %s" % cv[:10])
    # the stored OTLP payload as bytes: SpansWire.enc_span of the model's payload span = proto.Marshal's output (length + two 53-bit
    # fingerprints of every stored payload), and the round trip dec_span (enc_span s) = s evaluated on every payload of the run
    wm, wr = tot["WM"], tot["WR"]
    notlp = sum(len(c.get("pay_fp") or []) for c in cases if c["fmt"] == "otlp")
    ck.obligation("correspondence: model SpansWireY.enc_spany (protobuf wire encoding of the stored span with ALL its fields: events, status, trace_state, dropped "
                  "counts, links, flags, in field-number order) = the bytes of the payload column (length and two 53-bit fingerprints) for %d stored OTLP payloads, "
                  "and the model's read-back of events, status and the further fields = OutputQuery's" % notlp, not wm, "mismatching case ids: %s" % wm[:10])
    ck.obligation("every stored OTLP payload of the run lies in the domain of dec_enc_spany and dec_spany (enc_spany s x y) = (s, x, y) evaluates to true",
                  not wr, "case ids: %s" % wr[:10])
    if wm and not viol and not mism and not tot["YV"] and not tot["XV"]:
        w = min((byid[i] for i in wm), key=size_of)
        ck.violation({"property": PID, "kind": "model/implementation disagree on the bytes of the stored OTLP payload", "case": slim(w),
                      "payload_lengths": w.get("pay_lens"), "broken": "correspondence SpansWireY.enc_spany vs proto.Marshal in OTLPDecoder.Decode"},
                     no_input=True)
    notpb = [c["id"] for c in cases if c["fmt"] == "otlp" and any(b != 10 for b in (c.get("pay_first") or []))]
    ck.obligation("every stored OTLP payload begins with 0x0A (stored_payload_never_legacy_json: parseOTLP never takes a row of this writer for the legacy JSON form)",
                  not notpb, "case ids: %s" % notpb[:10])
    xv = tot["XV"]
    nextra = sum(1 for c in cases if c["fmt"] == "otlp" for r in c["otlp"] for sc in (r["scopes"] or []) for sp in (sc or []) if sp.get("events") or sp.get("status"))
    ck.obligation("spec oracle on OTLP events and status: the k-th stored span of every request reads back with the events (time, name) and the status code "
                  "of the k-th pushed span, UNSET when it has none (%d pushed spans carry events or a status)" % nextra, not xv, "violating case ids: %s" % xv[:10])
    if xv and not viol:
        w = min((byid[i] for i in xv), key=size_of)
        ck.violation({"property": PID, "kind": "a stored OTLP span reads back with other events or another status than were pushed", "case": slim(w),
                      "read": w["read"], "replay": "harness spans --cases <file holding the 'case' object on one line> --out /dev/stdout"})
    yv = tot["YV"]
    nmore = sum(1 for c in cases if c["fmt"] == "otlp" for r in c["otlp"] for sc in (r["scopes"] or []) for sp in (sc or []) if sp.get("more"))
    nlinks = sum(len(sp["more"].get("links") or []) for c in cases if c["fmt"] == "otlp" for r in c["otlp"] for sc in (r["scopes"] or []) for sp in (sc or []) if sp.get("more"))
    ck.obligation("spec oracle on the further span fields: the k-th stored span of every request reads back with the trace_state, dropped attribute / event / link "
                  "counts, flags and links (ids, trace_state, attributes, dropped count, flags) of the k-th pushed span (%d pushed spans carry such fields, %d links)"
                  % (nmore, nlinks), not yv, "violating case ids: %s" % yv[:10])
    if yv and not viol:
        w = min((byid[i] for i in yv), key=size_of)
        ck.violation({"property": PID, "kind": "a stored OTLP span reads back with another trace_state, other dropped counts, flags or links than were pushed", "case": slim(w),
                      "read": w["read"], "replay": "harness spans --cases <file holding the 'case' object on one line> --out /dev/stdout"})
    ck.extra["otlp_spans_with_trace_state_counts_links_flags"] = nmore
    ck.extra["otlp_links_pushed"] = nlinks
    # the legacy JSON form of OTLP payloads (parseOTLPJson; the JS writer stored it): every stored span of the run, re-written in that form, must read
    # back like its protobuf form (whose read-back the model and spec_ok judge), outside the three recorded divergences
    jd = [c for c in cases if c.get("json_diff")]
    jrows = sum(c.get("json_rows", 0) for c in cases)
    ck.obligation("legacy JSON payload form (parseOTLPJson): each of %d stored OTLP spans with scalar attribute values, re-written as the JS writer stored it "
                  "(base64 ids, decimal-string times and integers, numeric kind and status code, events), reads back with the same ids, parent, name, kind, "
                  "times, attributes (other than the recomputed service names), events and status as its protobuf form" % jrows, not jd,
                  "case ids: %s; %s" % ([c["id"] for c in jd[:10]], jd[0]["json_diff"][:400] if jd else ""))
    if jd and not viol:
        w = min(jd, key=size_of)
        ck.violation({"property": PID, "kind": "a span stored in the legacy JSON payload form does not read back as the same span stored as protobuf",
                      "case": slim(w), "difference": w["json_diff"], "replay": "harness spans --cases <file holding the 'case' object on one line> --out /dev/stdout"})
    jk = {}
    for c in cases:
        for k in c.get("json_known") or []:
            jk[k] = jk.get(k, 0) + 1
    if jk:
        if "otlp-json-legacy-divergences" in ck.known_findings():
            ck.report_known("otlp-json-legacy-divergences", "observed on requests re-written in the legacy JSON payload form: %s" % jk)
        else:
            w = min((c for c in cases if c.get("json_known")), key=size_of)
            ck.obligation("legacy JSON payload form: no divergence from the protobuf form", False, str(jk))
            ck.violation({"property": PID, "kind": "legacy JSON payload form reads back differently (service names recomputed / repeated key loses its value / time clipped)",
                          "case": slim(w), "observed": w.get("json_known")})
    ck.extra["legacy_json_payload_rows_compared"] = jrows
    ck.extra["legacy_json_payload_rows_skipped_non_scalar_values"] = sum(c.get("json_skipped", 0) for c in cases)
    ck.extra["legacy_json_known_divergences_observed"] = jk
    ck.extra["otlp_spans_with_events_or_status"] = nextra
    ck.extra["otlp_payloads_compared_bytewise"] = notlp
    if cv:
        w = min((byid[i] for i in cv), key=size_of)
        ck.violation({"property": PID, "kind": "a span is split between two responses (INSERTs) or lost at a mid-request flush",
                      "case": slim(w), "responses": w.get("resp"), "delivery": delivery_of(ck, w),
                      "replay": "harness spans --cases <file holding the 'case' object on one line> --out /dev/stdout"})
    elif cm and not viol and not mism:
        w = min((byid[i] for i in cm), key=size_of)
        ck.violation({"property": PID, "kind": "model/implementation disagree on the parser's responses (flush points, rows kept after an error)",
                      "case": slim(w), "responses": w.get("resp"), "broken": "correspondence SpansChunk.decode_chunked vs builder.go onSpan / doParseSpans"},
                     no_input=True)
    if viol:
        worst = min((byid[i] for i in viol), key=size_of)
        diag = sorted({QUIRKS[q] for (i, q) in tot["R"] if i == worst["id"]})
        ck.violation({"property": PID, "kind": "a stored span does not read back as the span that was pushed",
                      "case": worst, "diagnosis": diag, "delivery": delivery_of(ck, worst),
                      "explanation": "spec_ok (model/Spans.v) rejects these observations of the real write/read path: "
                                     "rows_ok (one trace row per span with its ids/times/name/service/payload), tags_ok (tag rows = flattened attributes "
                                     "with the span's ids and times) or reads_ok (OutputQuery returns the pushed span) is false",
                      "replay": "harness spans --cases <file holding the 'case' object on one line> --out /dev/stdout"})
    elif changed and not mism:
        w = min(changed, key=size_of)
        ck.violation({"property": PID, "kind": "ProcessRequest changes the request it is given: a retried insert stores different rows", "case": w,
                      "delivery": delivery_of(ck, w)})
    elif mism and not set(mism) <= set(sv):         # a mismatch of a request the service-name oracle rejects is reported there, with its replay
        worst = min((byid[i] for i in mism), key=size_of)
        diag = sorted({QUIRKS[q] for (i, q) in tot["R"] if i == worst["id"]})
        ck.violation({"property": PID, "kind": "model/implementation disagree; the property's oracle still accepts the observations",
                      "case": worst, "diagnosis": diag, "delivery": delivery_of(ck, worst), "broken": "correspondence Spans.decode / Spans.read_row vs the Go code"}, no_input=True)
    # one OutputQuery over all rows of a request returns as many spans as the rows decoded one by one
    short = [c for c in cases if not c["err"] and c.get("read_all", -1) >= 0 and c["read_all"] != sum(1 for r in c["read"] if r.get("ok"))
             and all(r.get("ok") for r in c["read"])]
    ck.obligation("a trace of N decodable stored spans is read back as N spans by one OutputQuery call", not short,
                  "case ids: %s" % [c["id"] for c in short[:10]])
    if short:
        w = min(short, key=size_of)
        ck.violation({"property": PID, "kind": "OutputQuery over all rows of the request returned %d spans for %d rows" % (w["read_all"], len(w["read"])),
                      "case": w, "replay": "harness spans --cases <file holding the 'case' object on one line> --out /dev/stdout"})
    # the spans of ONE call, all gathered before any is looked at, are the spans of the rows decoded one by one (a span keeping a reference into the
    # parser OutputQuery reuses for every row would be overwritten by the rows after it)
    rad = [c for c in cases if c.get("read_all_diff")]
    ck.obligation("one OutputQuery call over all rows of a request returns, in order, exactly the spans its rows give when decoded one by one "
                  "(ids, parent, name, kind, times, attributes, events, status, further fields; %d requests with >= 2 rows)"
                  % sum(1 for c in cases if c.get("read_all", -1) >= 2), not rad,
                  "case ids: %s; %s" % ([c["id"] for c in rad[:10]], rad[0]["read_all_diff"][:300] if rad else ""))
    if rad and not viol:
        w = min(rad, key=size_of)
        ck.violation({"property": PID, "kind": "a span returned by a query over several stored rows differs from the span its row holds", "case": slim(w),
                      "difference": w["read_all_diff"], "replay": "harness spans --cases <file holding the 'case' object on one line> --out /dev/stdout"})
    qm = tot["QM"]
    nq = sum(1 for c in cases if c.get("query_k", -1) >= 0)
    ck.obligation("correspondence: model Spans.output_query (OutputQuery's loop: a row of an unknown payload type is passed over, the first row that does not decode "
                  "ends the output) = the span ids one OutputQuery call returns when one stored row is made undecodable / given payload type 3 (%d requests x 2 variants)" % nq,
                  not qm, "mismatching case ids: %s" % qm[:10])
    if qm and not viol and not mism:
        w = min((byid[i] for i in qm), key=size_of)
        ck.violation({"property": PID, "kind": "model/implementation disagree on which spans a query returns when a stored row does not decode", "case": slim(w),
                      "row": w.get("query_k"), "returned_with_bad_payload": w.get("query_bad"), "returned_with_type_3": w.get("query_type3"),
                      "broken": "correspondence Spans.output_query vs TempoService.OutputQuery"}, no_input=True)
    ck.extra["requests_with_query_loop_variants"] = nq
    # coverage
    distinct = set()
    hist = {}
    for c in cases:
        hist[c["class"]] = hist.get(c["class"], 0) + 1
        if nontrivial(c):
            distinct.add(json.dumps([c["fmt"], c["otlp"], c["zip"]], sort_keys=True))
    ck.coverage["evaluations"] += len(cases)
    ck.coverage["distinct_nontrivial"] += len(distinct)
    ck.coverage["rule"] += ("span requests: OTLP protobuf (1-3 resources x 0-2 scopes x 0-3 spans, attributes of every AnyValue kind nested to depth %s, "
                            "repeated and special keys, zero/max ids, end<start and >2^63 times, missing resource, missing value; 3%% with one string that is not UTF-8 -- a span name, an "
                            "attribute key or string value, top level or nested, of a span or a resource: refused by proto.Unmarshal; strings at U+10FFFF and around the surrogates), Zipkin JSON array and NDJSON "
                            "(1-4 spans, shuffled fields, 1-37 digit ids, string/number times incl. the *1000 overflow edge, endpoints, string and non-string "
                            "tags, repeated fields, one malformed field in 20%% incl. integers above 2^64, exponent/fraction forms and microseconds whose nanoseconds leave int64; "
                            "strings and member names written with encoding/json's escapes (50%%), with every non-ASCII character, '/' and control character as an escape "
                            "incl. surrogate pairs (30%%) or additionally every third character as \\u00XX (20%%); one Zipkin string in twelve and one tag name in 25 is NOT UTF-8 "
                            "(lone continuation byte, truncated sequence, Latin-1, encoded surrogate, overlong form, 0xFE 0xFF: written into the text as raw bytes; transported "
                            "from the harness hex-armoured); the number -0; ports and annotation timestamps in "
                            "fraction / exponent / out-of-range forms; kind; 0-3 annotations with proper and improper members; on one NDJSON request in eight a tail "
                            "after a span object: garbage, a second object, a comma, a bracket, a scalar or whitespace), 30%% of the OTLP spans with 0-2 events "
                            "(time, name, attributes) and a status, 20%% with trace_state, dropped counts (0, 2^32-1, small, random), flags and 0-2 links (ids, state, attributes, count, flags; "
                            "one link in six an empty message), resource groups without the resource message mixed with ordinary ones (8%% of the OTLP requests), scope message absent / empty / "
                            "with name, version and a service.name attribute that must not leak, schema urls, "
                            "the requests around and above the 1 MiB flush threshold (accumulated size exactly 1 MiB, 1 MiB + 1, 2.4 MiB, failures after a flush in Zipkin and "
                            "OTLP; quick tier: one per class, thorough: seven), Zipkin requests of 40-320 spans with bodies of 74-180 kB (beyond the decoders' 64 KiB "
                            "read buffers) in both framings (quick: four, thorough: six) and lines beyond 64 KiB; every body is delivered to the parser either in one piece (35%%), byte by byte (10%%), in 1..1500-byte "
                            "(40%%) or 1..64-byte (15%%) Reads; for 40%% of the requests the insert step is run as after a failed insert (ProcessRequest twice on the same request "
                            "object, the second block judged); each request goes through the real parser, every produced row through the real "
                            "OutputQuery; non-trivial = accepted with >= 2 spans or >= 4 tag rows; distinct by content. " % env["SPANS_DEPTH"])
    ck.extra["input_distribution"] = hist
    # what the tokenizer delivered to the token-level model (measured on the jx streams of the run)
    lex = {"string_writing_mode": {}, "number_tokens": {}, "tokens": 0, "requests_with_a_line_tail": 0, "requests_with_annotations": 0}
    for c in cases:
        if c["fmt"] == "otlp":
            continue
        m = {0: "encoding/json", 1: "non-ASCII and / escaped", 2: "every third character escaped"}[c.get("esc", 0)]
        lex["string_writing_mode"][m] = lex["string_writing_mode"].get(m, 0) + 1
        if any(c.get("tails") or []):
            lex["requests_with_a_line_tail"] += 1
        ann = False
        for ts in c.get("toks") or []:
            lex["tokens"] += len(ts)
            for t in ts:
                if t == "kannotations":
                    ann = True
                if t[:1] == "n":
                    x = t[1:]
                    k = ("-0" if x == "-0" else "exponent or fraction" if re.search(r"[.eE]", x) else "integer beyond int64" if len(x.lstrip("-")) > 18 and not (-2**63 <= int(x) < 2**63)
                         else "negative integer" if x.startswith("-") else "integer")
                    lex["number_tokens"][k] = lex["number_tokens"].get(k, 0) + 1
        lex["requests_with_annotations"] += 1 if ann else 0
    nonutf = [c for c in cases if c["fmt"] != "otlp" and any(t.startswith(ARMOR) for ts in (c.get("toks") or []) for t in ts)]
    lex["requests_with_strings_that_are_not_utf8"] = len(nonutf)
    lex["such_requests_accepted"] = sum(1 for c in nonutf if not c["err"])
    lex["tag_rows_with_a_key_or_value_that_is_not_utf8"] = sum(1 for c in nonutf for a in (c["tags"] or []) if a["k"].startswith(ARMOR) or a["v"].startswith(ARMOR))
    ck.extra["zipkin_token_streams"] = lex
    ck.extra["requests_with_retried_insert"] = sum(1 for c in cases if c.get("retry"))
    ck.extra["delivery_modes"] = {SEG[k]: sum(1 for c in cases if c.get("seg_mode", 0) == k) for k in SEG}
    ck.extra["requests_answered_in_several_responses"] = sum(1 for c in cases if len(c.get("resp") or []) > 1)
    ck.extra["requests_failing_after_a_flush"] = sum(1 for c in cases if flushed_error(c))
    ck.extra["bodies_over_64KiB"] = sum(1 for c in cases if c.get("body_len", 0) > 65536)
    ck.extra["accepted_requests"] = sum(1 for c in cases if not c["err"])
    ck.extra["rows_read_back"] = sum(len(c["read"] or []) for c in cases)
    ck.add_samples([{"fmt": c["fmt"], "input": c["otlp"] or c["zip"], "rows": c["spans"], "tags": c["tags"][:6], "read": c["read"]}
                    for c in cases if nontrivial(c) and size_of(c) < 1500][:3])
    run_utf8(ck)


POOL_DIRS = ["reader/service", "reader/tempo", "reader/controller"]


def run_pool_order(ck):
    """generated obligation (harness poolorder, go/ast; shared with C15): in the packages of the trace read path nothing is used after it was handed back
    to a pool: no use after an explicit give-back in the same function, and no give-back deferred in a function whose goroutine still uses the value
    (OutputQuery returns as soon as it has started the goroutine that decodes the rows: seeded change C06-g)"""
    import vcheck
    if not ck.go_build("poolorder"):
        ck.obligation("poolorder builds", False, ck.build_out[-800:])
        return
    rc, out = ck.go_run("poolorder", [os.path.join(vcheck.REPO, d) for d in POOL_DIRS])
    try:
        res = json.loads(out.strip().splitlines()[-1])
    except Exception:
        ck.obligation("poolorder ran", False, out[-800:])
        return
    bad = res["violations"]
    ck.extra["pool_order"] = {"files": res["files"], "explicit_give_back_sites": res["sites"], "deferred": res["deferred"]}
    ck.obligation("pool order: nothing is used after it was given back to a pool (explicit give-back followed by a use; give-back deferred in a function whose "
                  "goroutine uses the value) in %s (%d files, %d explicit + %d deferred sites)" % (", ".join(POOL_DIRS), res["files"], res["sites"], res["deferred"]),
                  not bad and res["files"] > 0,
                  "; ".join("%s:%d %s: %s" % (os.path.relpath(v["file"], vcheck.REPO), v["line"], v["func"], v["what"]) for v in bad[:5]))


def run_zone_census(ck):
    """the modelling assumption behind SpansZone.decode_in_zone: on the span write path the only time.Time is the one onSpan builds with time.Unix
    (modelled), and nothing reads the zone of the process or the clock; a source census over the files of the path (reads $VERIF_REPO)"""
    import vcheck
    zone_read = re.compile(r"\btime\.(Now|Local|LoadLocation|FixedZone|Date|Since|Until)\b|\.(Local|In|Zone|Location)\(")
    found = []

    def code_lines(path):
        try:
            txt = open(os.path.join(vcheck.REPO, path)).read()
        except OSError as ex:
            found.append("%s: %s" % (path, ex))
            return []
        return [(n + 1, l.split("//")[0]) for n, l in enumerate(txt.split("\n"))]
    for path in ("writer/utils/unmarshal/otlpUnmarshal.go", "writer/utils/unmarshal/zipkinJsonUnmarshal.go", "writer/service/impl/tempoInsertService.go",
                 "writer/service/colAdaptors.go"):
        for n, l in code_lines(path):
            if zone_read.search(l) or re.search(r"\btime\.Unix\w*\(", l):
                found.append("%s:%d: %s" % (path, n, l.strip()[:120]))
    body, inside = [], False
    for n, l in code_lines("writer/utils/unmarshal/builder.go"):
        if l.startswith("func (p *parserDoer) onSpan("):
            inside = True
        elif inside and l.startswith("}"):
            break
        if inside:
            body.append((n, l))
    makers = [(n, l) for n, l in body if re.search(r"\btime\.\w+\(", l)]
    for n, l in body:
        if zone_read.search(l) or re.search(r"\btime\.(?!Unix\()\w+\(", l):
            found.append("writer/utils/unmarshal/builder.go:%d: %s" % (n, l.strip()[:120]))
    ck.obligation("census: on the span write path (OTLP and Zipkin decoders, onSpan, the Tempo insert services, DateAppender) the only time.Time is built by onSpan with "
                  "time.Unix (%d line(s), modelled: SpansZone.span_date_time) and nothing else reads the zone of the process or the clock -- the assumption under which "
                  "decode_in_zone is the write path in a process of another zone" % len(makers), bool(body) and len(makers) >= 1 and not found, "; ".join(found[:6]) or "onSpan not found")


def run_replay(ck):
    """bin/check C06 --replay <file>: re-run the request of a replay file through the real code and both comparisons"""
    obj = json.load(open(ck.replay))
    if obj.get("trace_set"):
        if not ck.go_build("spans"):
            ck.obligation("harness spans builds against the repository", False, ck.build_out[-1500:])
            return
        inp = os.path.join(ck.work, "replay_in.jsonl")
        outp = os.path.join(ck.work, "replay_out.jsonl")
        open(inp, "w").write("".join(json.dumps(c) + "\n" for c in obj["trace_set"]))
        if os.path.exists(outp + ".conc"):
            os.remove(outp + ".conc")
        rc, out = ck.go_run("spans", ["--cases", inp, "--out", outp], env_extra={"SPANS_CONC": "200"})
        if rc != 0:
            ck.obligation("harness spans ran the replay", False, out[-1500:])
            if os.path.exists(outp + ".conc"):
                judge_in_flight(ck, outp, [json.loads(l) for l in open(outp)], "replay", died=out)
            return
        judge_in_flight(ck, outp, [json.loads(l) for l in open(outp)], "replay", replay_mode=True)
        return
    c = obj.get("case")
    if not c:
        ck.obligation("replay file holds a request", False, "no 'case' in %s" % ck.replay)
        return
    if not ck.go_build("spans"):
        ck.obligation("harness spans builds against the repository", False, ck.build_out[-1500:])
        return
    inp = os.path.join(ck.work, "replay_in.jsonl")
    outp = os.path.join(ck.work, "replay_out.jsonl")
    open(inp, "w").write(json.dumps({k: c.get(k) for k in ("id", "class", "fmt", "otlp", "zip", "sep", "trail_nl", "esc", "tails", "seg_mode", "seg_seed", "retry", "tz")}) + "\n")
    rc, out = ck.go_run("spans", ["--cases", inp, "--out", outp], env_extra={"SPANS_CONC": "0"})
    if rc != 0:
        ck.obligation("harness spans ran the replay", False, out[-1500:])
        return
    cs = [json.loads(l) for l in open(outp)]
    if cs and cs[0].get("panic"):
        ck.obligation("replay: the insert services take the parser's output", False, cs[0]["panic"][:300])
        ck.violation({"property": PID, "kind": "accepted spans are not stored: the insert service panicked on the parser's output (replayed)", "case": cs[0]})
        return
    res, out = eval_text(ck, "C06_replay", cases_file(cs))
    if res is None:
        ck.obligation("replayed request evaluated inside Coq", False, out[-1500:])
        return
    ck.coverage["evaluations"] += len(cs)
    ck.obligation("replay: model = implementation", not res["M"], "legacy-defect diagnosis: %s" % [QUIRKS[q] for (_, q) in res["R"]])
    ck.obligation("replay: spec oracle accepts the observed behaviour", not res["V"], "rows/tags/read-back of this request violate spec_ok")
    if res["V"]:
        ck.violation({"property": PID, "kind": "a stored span does not read back as the span that was pushed (replayed)", "case": cs[0],
                      "diagnosis": [QUIRKS[q] for (_, q) in res["R"]]})
    elif res["M"]:
        ck.violation({"property": PID, "kind": "model/implementation disagree (replayed)", "case": cs[0]}, no_input=True)
    ck.obligation("replay: the service name read back = the service_name column = the pushed service name (svc_ok)", not res["SV"], "svc_ok rejects the observations")
    if res["SV"] and not res["V"]:
        ck.violation({"property": PID, "kind": "the service name the read path reports is not the service_name column of the trace row (replayed)", "case": cs[0]})


def run_utf8(ck):
    """Spans.utf8_valid (the model of proto.Unmarshal's string check) against Go's utf8.Valid on byte strings over the bytes at which UTF-8 decides"""
    n = ck.n(1500, 20000)
    outp = os.path.join(ck.work, "utf8.jsonl")
    rc, out = ck.go_run("spans", ["--seed", ck.seed, "--out", outp], env_extra={"SPANS_UTF8": str(n)})
    if rc != 0:
        ck.obligation("harness spans ran the UTF-8 probe", False, out[-800:])
        return
    rows = [json.loads(l) for l in open(outp)]
    distinct = sorted({(r["hex"], r["valid"]) for r in rows})
    txt = (HEADER + "Definition P : list (string * bool) := %s.\n" % coq_list(['(hx "%s", %s)' % (h, "true" if v else "false") for h, v in distinct]) +
           "Definition U := Eval vm_compute in List.length (filter (fun p => negb (Bool.eqb (utf8_valid (fst p)) (snd p))) P).\nPrint U.\n")
    rc, out = ck.coq_eval("C06_utf8", txt)
    m = re.search(r"U = (\d+)", out) if rc == 0 else None
    ck.obligation("correspondence: model Spans.utf8_valid = utf8.Valid (what proto.Unmarshal applies to the strings of an OTLP request) on %d distinct byte strings "
                  "over the bytes at which UTF-8 decides (%d of them valid)" % (len(distinct), sum(1 for _, v in distinct if v)),
                  m is not None and int(m.group(1)) == 0, out[-600:])
    ck.extra["utf8_probe_strings"] = len(distinct)


def run(ck):
    if ck.replay:
        run_replay(ck)
        return
    ck.trusted += [
        "C06: the OTLP payload is concrete (SpansWireY.enc_spany = proto.Marshal byte for byte on every stored payload of the run: events, status, trace_state, dropped "
        "counts (those of events included), links and flags: every field of trace.v1.Span; dec_spany (enc_spany s x y) = (s, x, y) proved); proto.Unmarshal's refusal of strings that are not UTF-8 is modelled for the "
        "strings the model sees (span name, attribute keys and string values of spans and resources; utf8_valid = utf8.Valid compared on a probe set), the strings of events, "
        "status, links and trace_state are UTF-8 in the generator; the legacy JSON form of OTLP payloads (parseOTLPJson, written by the JS writer only) is not modelled in Coq: "
        "it is compared, span by span, with the read-back of the protobuf form outside Coq",
        "C06: the Zipkin payload is a JSON TOKEN STREAM (SpansJson: the write path's walk, the read path's parse, fields, kind, annotations are Gallina over tokens); "
        "the tokenizers themselves (bytes -> tokens: whitespace, escape decoding, number scanning, UTF-8) are the oracle: jx on every element text, fastjson on every "
        "stored payload, the two streams compared, strings that are not UTF-8 included (both readers hand the bytes on; one generated string in twelve); an unpaired surrogate escape is the one known disagreement (finding zipkin-lone-surrogate)",
        "C06: rows are observed as the ch-go columns (by column name) that the real insert services' AcquireColumns/ProcessRequest build from the "
        "parsers' output, and replayed as database rows to the read path; block transport and ClickHouse storage are not modelled (a stored row is "
        "assumed to be read back as written); the Date column is computed with zone offset 0 (UTC)",
        "C06: ids are 16/8 bytes wide and present (requests violating this belong to C05/C12); JSON objects have no repeated member names in the theorems' domain; "
        "doubles are multiples of 1/8 below 2^53 (exact in binary and in six decimals)",
    ]
    ck.coq_props()
    run_zone_census(ck)
    run_pool_order(ck)
    run_spans(ck)
