"""C10 — request strings can never change the structure of SQL sent to ClickHouse.

Theorems (props/C10.v): StringVal.String's escape loop is a per-byte map; its output is exactly one
ClickHouse string literal decoding to the input, for every byte string; at statement level the token
skeleton around a quoted value does not depend on the value; doLike's literal always closes; every SQL
construction site of the reader (regenerated from the source into gen/GenC10Sites.v) formats only
classified material.
Correspondence (harness sqlinject): the real planners are driven with hostile strings in one position
at a time; the SQL they hand to the session is lexed by model/ChLex.v inside Coq and compared with the
SQL for a harmless marker in the same position (token skeleton equal, literals = baseline literals with
the marker replaced by the intended bytes, model-predicted literal text present).
Tree level (run_tree_tie): the LogQL requests of those cases are planned by the extracted model/LogqlPlan.v and rendered
into the segmented text of model/SqlPieces.v; flat(pieces) = the real planner's SQL byte for byte, and pok holds, so
theorems rendered_statement_tokens / request_values_keep_statement_structure apply to the very trees the planners build.
"""
import hashlib
import json
import os
import re
import subprocess

import vcheck
from vcheck import coq_list
from checks import c10tq
from checks import c10sel

VERIF = vcheck.VERIF
CODE = {1: "statement does not lex (unterminated literal/comment or stray byte)",
        2: "token skeleton differs from the skeleton for a harmless string in the same position",
        4: "a string literal does not decode to the intended bytes",
        5: "the LIKE pattern written for a line filter does not mean 'the line contains the value'",
        7: "the statement is not the baseline shape instantiated with the model's text for the value (model/Quote.v, model/Like.v)",
        8: "baseline statement does not lex",
        10: "the baseline statement is not a shape covered by theorem template_skeleton_invariant"}
MODE = {"raw": "MRaw", "plain": "MPlain", "like": "MLike"}
# every kind of request string named in the property text -> the positions (site-name fragments) of harness sqlinject
# that place hostile strings there; the check requires evaluated cases for each of them
PROPERTY_CLASSES = {
    "label values": ["logql.sel", "logql.lblf", "logql.drop.", "logql.rate.sel", "logql.unwrap.sel", "logql.topk.sel",
                     "logql.quantile.sel", "promql.val.", "promql.down.val"],
    "regular expressions": ["=~", "!~", "|~", "logql.regexp", "tempo.search.val.re", "logql.sel.cluster", "logql.topk.sel"],
    "line filters": ["logql.line", "logql.sumby.line"],
    "JSON paths": ["logql.json.path"],
    "templates": ["logql.lineformat.", "logql.labelformat."],
    "trace tag names and values": ["tempo.", "traceql."],
    "profile selectors": ["prof."],
    "label names in URLs": ["labels.values.label", "labels.promvalues.label", "prof.labelvalues.name", "tempo.values.tag", "tempo.valuesv2.key"],
    "match[] parameters": ["labels.values.match", "labels.series.match", "labels.promvalues.match"],
    "label/attribute names inside queries": [".ident.", "promql.name", "promql.down.name"],
}



def vcheck_lock():
    """one process-wide lock for the counters of the check object (the three tree-level ties run side by side)"""
    import threading
    import builtins
    if not hasattr(builtins, "_c10_lock"):
        builtins._c10_lock = threading.Lock()
    return builtins._c10_lock


def pack(hexs):
    b = bytes.fromhex(hexs)
    out = [str(len(b))]
    for i in range(0, len(b), 7):
        out.append(str(int.from_bytes(b[i:i + 7], "little")))
    return "[" + ";".join(out) + "]"


def common(b, q):
    """lengths of the common prefix and (non-overlapping) common suffix of two byte strings"""
    n = min(len(b), len(q))
    p = 0
    while p < n and b[p] == q[p]:
        p += 1
    s = 0
    while s < n - p and b[len(b) - 1 - s] == q[len(q) - 1 - s]:
        s += 1
    return p, s


MARGIN = 16


def eval_cases(ck, name, bases, cases):
    """-> dict id -> verdict code (non-zero only), or None.
    Each statement is sent as the bytes between a prefix and a suffix it shares with its baseline; the cut
    points are fixed per baseline (the shortest common prefix/suffix over this shard's cases, minus a margin),
    Coq lexes prefix ++ middle ++ suffix (model/SqlCase.v case_toks)."""
    # only the baselines this shard refers to travel (each costs a lexer run over the whole statement inside Coq)
    used = sorted(set(c["base"] for c in cases if c["base"] >= 0))
    remap = {b: i for i, b in enumerate(used)}
    bases = [bases[b] for b in used]
    cases = [dict(c, base=remap.get(c["base"], -1)) for c in cases]
    bsql = [bytes.fromhex(b["sql"]) for b in bases]
    cut = {}
    for c in cases:
        if c["base"] < 0:
            continue
        p, s = common(bsql[c["base"]], bytes.fromhex(c["sql"]))
        op, os_ = cut.get(c["base"], (1 << 30, 1 << 30))
        cut[c["base"]] = (min(op, p), min(os_, s))
    rows = []
    for i, b in enumerate(bases):
        p, s = cut.get(i, (0, 0))
        p, s = max(0, p - MARGIN), max(0, s - MARGIN)
        cut[i] = (p, s)
        rows.append("(%s, %s, %d, %d, %s)" % (pack(b["marker"]), pack(b["sql"]), p, s, "true" if b.get("mode") == "like" else "false"))
    rows.append("([0], [0], 0, 0, false)")  # baseline of the stand-alone escaper cases
    raw_base = len(bases)
    crow = []
    for c in cases:
        q = bytes.fromhex(c["sql"])
        if c["base"] < 0:
            bi, mid = raw_base, q
        else:
            bi = c["base"]
            p, s = cut[bi]
            mid = q[p:len(q) - s]
            assert bsql[bi][:p] + mid + bsql[bi][len(bsql[bi]) - s:] == q
        crow.append("{| c_id := %d%%Z; c_mode := %s; c_want := %s; c_base := %d%%Z; c_mid := %s |}" % (
            c["id"], MODE[c["mode"]], pack(c["want"]), bi, pack(mid.hex())))
    txt = ("From Coq Require Import List ZArith Uint63.\nFrom Qryn Require Import model.SqlCase.\n"
           "Import ListNotations.\nOpen Scope uint63_scope.\n"
           "Definition bases : list rbase := [\n  " + ";\n  ".join(rows) + "].\n"
           "Definition cases : list case := [\n  " + ";\n  ".join(crow) + "].\n"
           "Definition R := Eval vm_compute in verdicts bases cases.\nPrint R.\n")
    rc, out = ck.coq_eval(name, txt)
    if rc != 0:
        return None, out
    flat = " ".join(out.split())
    m = re.search(r"R = (\[.*?\]|nil)\s*: list \(Z \* Z\)", flat)
    if not m:
        return None, out
    return {int(a): int(b) for a, b in re.findall(r"\((-?\d+)(?:%Z)?, (-?\d+)(?:%Z)?\)", m.group(1))}, out


def load(path):
    bases, cases, rej = [], [], []
    for l in open(path):
        o = json.loads(l)
        if o["kind"] == "placeholders":
            continue
        (bases if o["kind"] == "base" else cases if o["kind"] == "case" else rej).append(o)
    return bases, cases, rej


def load_placeholders(path):
    """round 7: the placeholder words harness sqlinject read from the string constants of the repository (one record per run)"""
    for l in open(path):
        if l.startswith('{"kind":"placeholders"') or '"kind":"placeholders"' in l[:60]:
            return list(json.loads(l).get("words") or [])
    return None


def describe(c):
    d = {k: v for k, v in c.items() if not k.startswith("_")}
    for k in ("val", "want", "sql", "pre"):
        if d.get(k):
            d[k + "_text"] = bytes.fromhex(d[k]).decode("utf8", "backslashreplace")
    return d


def in_join_clause(sql, marker):
    """does the marker occur inside the parenthesised table expression / ON condition that follows a JOIN keyword?  (baseline
    statements only: the marker is harmless, so brackets are balanced outside literals and inside the wrapped regex literals)"""
    k = 0
    while True:
        j = sql.find(b" JOIN ", k)
        if j < 0:
            return False
        # the clause = everything up to the next keyword of the enclosing select at the same bracket depth
        depth, i, n = 0, j + 6, len(sql)
        while i < n:
            ch = sql[i:i + 1]
            if ch == b"(":
                depth += 1
            elif ch == b")":
                depth -= 1
                if depth < 0:
                    break
            elif depth == 0 and any(sql.startswith(kw, i) for kw in (b" WHERE ", b" PREWHERE ", b" GROUP BY ", b" ORDER BY ", b" LIMIT ", b" HAVING ", b" UNION ")):
                break
            i += 1
        if marker in sql[j:i]:
            return True
        k = j + 6


DIRECTIVE = b"%$?{@:"


def run_correspondence(ck, known):
    if not ck.go_build("sqlinject"):
        ck.obligation("harness sqlinject builds against the repository", False, ck.build_out[-1500:])
        return
    runs = []
    corpus = os.path.join(VERIF, "corpus", "C10", "cases.jsonl")
    if os.path.exists(corpus):
        outp = os.path.join(ck.work, "corpus_out.jsonl")
        rc, out = ck.go_run("sqlinject", ["--cases", corpus, "--out", outp])
        if rc != 0:
            ck.obligation("harness sqlinject ran the corpus", False, out[-1500:])
            return
        runs.append(("corpus", outp))
    outp = os.path.join(ck.work, "gen_out.jsonl")
    rc, out = ck.go_run("sqlinject", ["--seed", ck.seed, "--n", ck.n(3400, 100000), "--out", outp])
    if rc != 0:
        ck.obligation("harness sqlinject ran", False, out[-1500:])
        return
    runs.append(("gen", outp))

    total, verd_all, by_id, hist, sites, rejs = 0, {}, {}, {}, {}, {}
    shaped_sites, shaped_cls, whole_cls, re_sites, grid = {}, {}, {}, set(), {}
    distinct = set()
    dgrid, join_sites, directive_in_join = {}, {}, {}
    nbad_base = 0
    tq_pairs = []
    for tag, path in runs:
        bases, cases, rej = load(path)
        off = 0 if tag == "gen" else 10_000_000
        for c in cases:
            c["id"] += off
        for r in rej:
            rejs[r["site"]] = rejs.get(r["site"], 0) + 1
        nobase = [c for c in cases if c["mode"] != "raw" and c["base"] < 0]
        nbad_base += len(nobase)
        for c in nobase[:1]:
            ck.violation({"property": "C10", "kind": "no baseline statement for this site (marker rejected or statement count differs)",
                          "case": describe(c)}, no_input=True)
        cases = [c for c in cases if c not in nobase]
        # shards are evaluated side by side; a shard takes the cases of whole sites (cases sorted by baseline) so that each baseline
        # statement is lexed in one shard only
        from concurrent.futures import ThreadPoolExecutor
        order = sorted(cases, key=lambda c: (c["base"], c["id"]))
        nsh = max(1, min(4, len(order) // 600)) if len(order) <= 12000 else (len(order) + 2999) // 3000
        # measured: a baseline costs about seven cases; equal-cost parts, cut between baselines
        cost, seen_b, acc = [], set(), 0
        for c in order:
            acc += 1 if c["base"] in seen_b else 8
            seen_b.add(c["base"])
            cost.append(acc)
        parts = [[] for _ in range(nsh)]
        for c, a in zip(order, cost):
            parts[min(nsh - 1, ((a - 1) * nsh) // max(1, acc))].append(c)
        parts = [pt for pt in parts if pt]
        with ThreadPoolExecutor(max_workers=4) as ex:
            outs = list(ex.map(lambda kp: eval_cases(ck, "C10_%s_%d" % (tag, kp[0]), bases, kp[1]), enumerate(parts)))
        for v, out in outs:
            if v is None:
                ck.obligation("sqlinject cases evaluated inside Coq", False, out[-1500:])
                return
            verd_all.update(v)
        for c in cases:
            if 0 <= c["base"] < len(bases):
                c["_base"] = bases[c["base"]]
            if c.get("tq") and 0 <= c["base"] < len(bases) and bases[c["base"]].get("tq"):
                tq_pairs.append((c, bases[c["base"]]))
        for c in cases:
            by_id[c["id"]] = c
            total += 1
            hist[c["class"]] = hist.get(c["class"], 0) + 1
            sites[c["site"]] = sites.get(c["site"], 0) + 1
            if c.get("shape"):
                re_sites.add(c["site"])
                if c.get("shaped"):
                    shaped_sites[c["site"]] = shaped_sites.get(c["site"], 0) + 1
                    shaped_cls[c["class"]] = shaped_cls.get(c["class"], 0) + 1
                    if c["class"].startswith("grid:"):
                        grid.setdefault(c["site"], set()).add((c["class"], tuple(c["shape"]), c["val"][:2 * c["shape"][0]]))
                else:
                    whole_cls[c["class"]] = whole_cls.get(c["class"], 0) + 1
            v = bytes.fromhex(c["val"])
            if c["class"] == "grid:directive" and c["stmt"] == 0:
                dgrid.setdefault(c["site"], set()).add(c["val"])
            b = c.get("_base")
            if b is not None and c["mode"] != "raw":
                if "_in_join" not in b:
                    mkb = bytes.fromhex(b["marker"])
                    b["_in_join"] = bool(mkb) and in_join_clause(bytes.fromhex(b["sql"]), mkb)
                if b["_in_join"]:
                    join_sites[c["site"]] = join_sites.get(c["site"], 0) + 1
                    if any(ch in v for ch in DIRECTIVE):
                        directive_in_join[c["site"]] = directive_in_join.get(c["site"], 0) + 1
            if any(ch in v for ch in b"'\\\x00\n\r\x08\t\x1a%_-/*#") or any(ch >= 0x80 for ch in v):
                distinct.add(c["site"] + "|" + c["val"])
    run_fmt_tie(ck)
    run_fmt_int_tie(ck)
    run_bind_tie(ck)
    ck.obligation("every site has a baseline statement", nbad_base == 0, "%d cases without baseline" % nbad_base)
    # round 6 (seeded C10-f): statements handed to a session are recorded at the wire, behind the repository's StableSqlxDBWrapper and the
    # REAL clickhouse-go driver (its client-side bind rewrites `$n` / `?` / `@name` inside literals once the call has an argument)
    wire_sites, bound, rewritten, ph_wire = {}, {}, {}, {}
    for c in by_id.values():
        if c.get("wire"):
            wire_sites[c["site"]] = wire_sites.get(c["site"], 0) + 1
            if c.get("bind_args"):
                bound[c["site"]] = bound.get(c["site"], 0) + 1
            if c.get("pre"):
                rewritten[c["site"]] = rewritten.get(c["site"], 0) + 1
            if any(ph in bytes.fromhex(c["val"]) for ph in (b"$1", b"?", b"@")):
                ph_wire[c["site"]] = ph_wire.get(c["site"], 0) + 1
    # a request string that makes the DRIVER refuse a statement (a bind placeholder without argument, mixed placeholder formats) is
    # interpreted as syntax by the driver: a concrete failing request, whatever would have been sent
    refused = [r for tag, path in runs for r in load(path)[2] if str(r.get("rej", "")).startswith("driver refused the statement")]
    ck.obligation("no request string makes the database driver refuse a statement of the service (bind placeholder without argument, mixed placeholder formats)",
                  not refused, "; ".join("%s %r: %s" % (r["site"], bytes.fromhex(r["val"]), r["rej"]) for r in refused[:4]))
    if refused:
        worst = min(refused, key=lambda r: len(r["val"]))
        ck.violation({"property": "C10", "kind": "the driver's client-side bind reads the request string as placeholder syntax and refuses the statement (nothing is sent): the value is not confined to a string literal",
                      "case": describe(worst), "replay": "harness sqlinject --cases <file with {site,val} of this case>"})
    svc = sorted(st for st in wire_sites if st.split(".")[0] in ("labels", "tempo", "prof"))
    thin_w = sorted(st for st in wire_sites if ".ident." not in st and ph_wire.get(st, 0) < 2)
    ck.obligation("statements handed to a database session are observed BEHIND the real clickhouse-go driver (repository's StableSqlxDBWrapper -> database/sql -> clickhouse-go HTTP -> recording endpoint): %d statements at %d positions (%d service positions); each has bind-placeholder strings ($1, ?, @name) among its values; calls with bind arguments: %d, statements the driver rewrote: %d"
                  % (sum(wire_sites.values()), len(wire_sites), len(svc), sum(bound.values()), sum(rewritten.values())),
                  len(wire_sites) >= 60 and len(svc) >= 30 and not thin_w, "positions observed at the wire without placeholder strings: %s" % thin_w[:8])
    ck.extra["wire"] = {"statements_recorded_behind_the_driver_per_position": wire_sites, "calls_with_bind_arguments_per_position": bound,
                        "statements_rewritten_by_the_driver_per_position": rewritten, "cases_with_a_bind_placeholder_per_position": ph_wire}
    # round 4: a position whose requests are all rejected (or die in the harness) is not covered at all: the three PromQL regex-matcher
    # positions were in that state (hand-built labels.Matcher without compiled expression), unnoticed
    allsites = set(sites) | set(rejs)
    dead = sorted(st for st in allsites if sites.get(st, 0) < min(3, int(ck.n(3, 3))))
    panics = sorted(set(r["site"] for tag, path in runs for r in load(path)[2] if str(r.get("rej", "")).startswith("panic")))
    ck.obligation("every one of the %d positions has evaluated statements (no position is rejected throughout), and no request dies outside the code's own error handling"
                  % len(allsites), not dead and not panics, "no evaluated case at: %s; panic at: %s" % (dead, panics))
    # the three tree-level ties are independent (own harness runs, own OCaml extraction directories): side by side
    from concurrent.futures import ThreadPoolExecutor
    allc = list(by_id.values())
    with ThreadPoolExecutor(max_workers=3) as ex:
        futs = [ex.submit(run_tree_tie, ck, allc, "gen+corpus"), ex.submit(c10tq.run, ck, tq_pairs, "gen+corpus", describe),
                ex.submit(c10sel.run, ck, allc, "gen+corpus")]
        for fu in futs:
            fu.result()

    # 8 = the statement for the HARMLESS marker does not lex: a concrete failing request as well (the case's site with the marker)
    mism = sorted(i for i, v in verd_all.items() if v in (7, 10))
    viol = sorted(i for i, v in verd_all.items() if v in (1, 2, 4, 5, 8))
    ck.obligation("spec oracle: token skeleton and literal meaning preserved on %d statements" % total, not viol,
                  "violating case ids: %s" % viol[:10])
    ck.obligation("correspondence: every statement = its baseline shape instantiated with the model's quote/doLike text; every shape passes tpl_ok", not mism,
                  "mismatching case ids: %s" % mism[:10])
    if viol:
        # structural breaks first, then shortest value
        # a statement that does not lex first (undeniable), then a changed skeleton (a shaped case first: its baseline has the same regex
        # structure), then a literal with other bytes; shortest value
        worst = min((by_id[i] for i in viol), key=lambda c: ({1: 0, 2: 1}.get(verd_all[c["id"]], 2), 0 if c.get("shaped") else 1, len(c["val"])))
        ck.violation({"property": "C10", "kind": CODE[verd_all[worst["id"]]], "case": describe(worst),
                      "replay": "harness sqlinject --cases <file with {site,val} of this case>"})
    elif mism:
        worst = min((by_id[i] for i in mism), key=lambda c: len(c["val"]))
        ck.violation({"property": "C10", "kind": CODE[verd_all[worst["id"]]], "case": describe(worst),
                      "broken": "correspondence model/Quote.v + model/Like.v vs implementation"}, no_input=True)
    with vcheck_lock():
        ck.coverage["evaluations"] += total
    ck.coverage["distinct_nontrivial"] += len(distinct)
    ck.coverage["rule"] += ("hostile byte strings (dictionary atoms: quotes, backslashes, NUL/control bytes, comment markers, "
                            "LIKE wildcards, multi-byte and invalid UTF-8, SQL fragments; random bytes) placed in one string position of "
                            "one query shape per case; non-trivial = the value contains at least one byte that the escaper, the "
                            "ClickHouse lexer or LIKE treats specially, or a non-ASCII byte; distinct by (site, value). ")
    per_class = {k: sum(n for st, n in sites.items() if any(f in st for f in frags)) for k, frags in PROPERTY_CLASSES.items()}
    empty = [k for k, n in per_class.items() if n < 15]
    ck.obligation("every kind of request string named in the property has evaluated cases in the differential run: %s" % per_class,
                  not empty, "no (or < 15) cases for: %s" % empty)
    # round 4: hostile strings INSIDE a regular expression of a shape a fast path could special-case (anchored alternation of literals,
    # literal, prefix / suffix, case-insensitive flag, empty alternative, quoted metacharacters), compared with the same shape around the marker
    # the grid (every regex-carrying position x 13 core shapes, a quote at the marked place): at least 11 of the 13 must have been judged
    # against the shaped baseline at every position (a literal under (?i) goes through doLike at the line filters; `| regexp` has its own grammar)
    thin = sorted(st for st in re_sites if shaped_sites.get(st, 0) < int(ck.n(3, 40)) or len(grid.get(st, ())) < 11)
    ck.obligation("every regex-carrying position (%d) has hostile strings inside shaped regular expressions judged against the same shape around the marker: %d cases, per shape class %s"
                  % (len(re_sites), sum(shaped_sites.values()), shaped_cls), not thin and len(shaped_cls) >= 7 and len(re_sites) >= 30,
                  "too few shaped cases at: %s" % thin)
    # round 5 (seeded C10-e: the rendered joined select used as a fmt format string).  (a) the directive grid: every position that takes
    # arbitrary bytes gets `%'`, `a%sb`, `%%'`, `%[1]s%!d` in every run; (b) positions whose value is rendered INSIDE a JOIN clause
    # (later Tempo tags, cluster mode with inlined WITHs, later TraceQL selectors, Pyroscope joins) exist for every query language and
    # receive directive strings
    value_sites = sorted(st for st in allsites if ".ident." not in st)
    thin_d = sorted(st for st in value_sites if len(dgrid.get(st, ())) < (3 if st != "stringval" else 0))
    fam = {f: sorted(st for st in join_sites if st.startswith(f)) for f in ("logql.", "tempo.", "traceql.")}
    nojoin = sorted(f for f, l in fam.items() if not [st for st in l if directive_in_join.get(st, 0) >= 3])
    ck.obligation("directive grid: each of the %d value positions has fmt-verb / placeholder strings (%%', a%%sb, %%%%', %%[1]s%%!d) evaluated in every run; positions whose value is rendered inside a JOIN clause: %d (%s), each family with directive strings there"
                  % (len(value_sites), len(join_sites), {f: len(l) for f, l in fam.items()}), not thin_d and not nojoin,
                  "fewer than 3 directive strings evaluated at: %s; no position inside a JOIN clause with directive strings for: %s" % (thin_d[:8], nojoin))
    # round 7 (seeded C10-g: a template with NAMED placeholders filled by successive strings.ReplaceAll; the later substitutions run over the
    # rendered request string too).  The words a home-made template knows cannot be guessed: the harness reads every `{word}` / `$word` /
    # `${word}` out of the string constants of the repository's reader/ and tries each at every position in every run.
    words = load_placeholders([p for t, p in runs if t == "gen"][0])
    pgrid = {}
    for tag, path in runs:
        if tag != "gen":
            continue
        b_, c_, r_ = load(path)
        for c in c_ + r_:
            if c.get("class") in ("grid:placeholder", "grid:placeholder-fixed"):
                pgrid.setdefault(c["site"], set()).add(c["val"])
    thin_p = sorted(st for st in allsites if len(pgrid.get(st, ())) < len(set(words or []) | {"{id}", "$name"}))
    named = [bytes.fromhex(c["val"]) for c in by_id.values() if c["site"].startswith("logql.regexp")]
    n_named = sum(1 for v in named if any(w in v for w in (b"{labels}", b"{id}", b"{col}", b"{re}", b"$name", b"${name}", b"{name}")))
    ck.obligation("placeholder grid: the %d placeholder words found in the string constants of the repository's reader/ (%s) and the fixed words {id}, $name are tried at each of the %d positions in every run; the `| regexp` stage has %d evaluated expressions holding a named placeholder ({labels}, {id}, {col}, {re}, {name}, $name, ${name}), with and without named groups around the value"
                  % (len(words or []), " ".join(words or []), len(allsites), n_named),
                  words is not None and not thin_p and n_named >= 12 and sites.get("logql.regexp.groups", 0) >= 10,
                  "harvest record missing: %s; positions without the whole word list: %s; logql.regexp.groups cases: %d" % (words is None, thin_p[:8], sites.get("logql.regexp.groups", 0)))
    ck.extra["placeholder_words"] = {"harvested_from_reader_string_constants": words, "grid_values_per_position": {k: len(v) for k, v in sorted(pgrid.items())},
                                     "regexp_stage_expressions_with_a_named_placeholder": n_named}
    ck.extra["directive_strings"] = {"grid_values_evaluated_per_position": {k: len(v) for k, v in sorted(dgrid.items())},
                                     "positions_whose_value_is_rendered_inside_a_JOIN_clause_[cases]": join_sites,
                                     "cases_with_a_directive_byte_(%$?{@:)_inside_a_JOIN_clause": directive_in_join}
    ck.extra["shaped_regex_cases"] = {"per_site_judged_against_the_shaped_baseline": shaped_sites,
                                      "grid_shapes_judged_against_the_shaped_baseline_per_site_(of_13)": {k: len(v) for k, v in grid.items()}, "per_shape_class": shaped_cls,
                                      "shaped_value_judged_against_the_plain_marker_(structure_of_the_expression_differs_from_the_marker's,_or_a_literal_handled_by_doLike)": whole_cls}
    ck.extra["input_distribution"] = {"classes": hist, "sites": sites, "rejected_by_parser_or_planner": rejs,
                                      "verdict_codes": CODE, "cases_per_property_string_class": per_class}
    samples = [by_id[i] for i in list(by_id)[:400:140]]

    def around(c):
        q = bytes.fromhex(c["sql"])
        k = q.find(bytes.fromhex(c["val"])[:2]) if c["val"] else -1
        k = max(0, k - 60) if k >= 0 else max(0, len(q) - 160)
        return q[k:k + 170].decode("utf8", "backslashreplace")
    ck.add_samples([{"site": c["site"], "value": bytes.fromhex(c["val"]).decode("utf8", "backslashreplace"),
                     "statement_excerpt": around(c)} for c in samples])



# ---------------------------------------------------------------------- tree-level tie (theorems through SqlRender.v)
LOGQL_CTX = {"from_ns": 1700000000 * 10**9, "to_ns": 1700003600 * 10**9, "limit": 100, "asc": False, "cluster": False,
             "type": 1, "finalize": True, "step_ms": 1000}
# model/LogqlPlan.v plans line_format since builder b4-lf (PLineFormatP); these sites are skipped only when the model has no statement (a template outside the fragment of model/LogqlTemplate.v)
NOT_PLANNED_BY_MODEL = {"logql.lineformat.direct", "logql.lineformat.tmpl"}
SPECIAL = b"'\\\x00\n\r\x08\t\x1a"


def like_escape(b):
    out = bytearray()
    for ch in b:
        if ch in b"\\%_":
            out.append(0x5c)
        out.append(ch)
    return bytes(out)


def run_tree_tie(ck, sq_cases, tag):
    """The LogQL requests of the sqlinject cases are planned again by harness logqlsql (real parser + real
    clickhouse_planner, AST dumped as a term of model/Logql.v); the extracted model plans the same AST
    (model/LogqlPlan.v), renders the tree into the SEGMENTED text of model/SqlPieces.v and evaluates pok on it.
    Obligations: flat(pieces) = the real planner's SQL byte for byte; pok holds (so theorems rendered_statement_tokens /
    request_values_keep_statement_structure apply to this very tree); no hostile value occurs in a text piece."""
    reqs = [c for c in sq_cases if c.get("logql")]
    if not reqs:
        return
    # the extracted planner runs on OCaml terms compiled with the cases: beyond ~8000 requests the compilation dominates (thorough tier:
    # 36 000 requests kept ocamlopt busy for > 10 min and 3.5 GB): an evenly spaced sample of the requests is planned, all sites kept
    cap = 8000
    nall = len(reqs)
    if nall > cap:
        reqs = [reqs[(i * nall) // cap] for i in range(cap)]
    # the baseline request (harmless marker in the same position) of every case is planned as well: the segmented text for the hostile
    # request must be the marker's text with the marker replaced inside the value pieces (the instance of request_values_keep_statement_structure)
    ncase = len(reqs)
    base_idx = {}
    for c in list(reqs):
        b = c.get("_base")
        if b and b.get("logql") and bytes.fromhex(b["marker"]):
            k = (b["logql"], bool(b.get("cluster")))
            if k not in base_idx:
                base_idx[k] = len(reqs)
                reqs.append({"site": c["site"], "logql": b["logql"], "cluster": b.get("cluster"), "want": "", "val": b["marker"], "is_base": True})
            c["_base_req"] = base_idx[k]
    ok, out = ck.coq_make(["model/SqlPiecesCases.vo"])
    if not ck.obligation("model/SqlPiecesCases.v builds", ok, out[-1500:]):
        return
    if not ck.go_build("logqlsql"):
        ck.obligation("harness logqlsql builds against the repository", False, ck.build_out[-1500:])
        return
    inp = os.path.join(ck.work, "tree_%s_in.jsonl" % tag)
    # the request text goes to harness logqlsql as a JSON string carrying the request's own bytes (round 3: it was written as the
    # latin-1 reading of the bytes re-encoded as UTF-8, so non-ASCII values were re-planned as mojibake); Go's JSON decoder turns a byte
    # that is not UTF-8 into U+FFFD, which is also what the LogQL parser's own literal decoding does with it
    with open(inp, "wb") as f:
        for i, c in enumerate(reqs):
            ctx = dict(LOGQL_CTX)
            ctx["cluster"] = bool(c.get("cluster"))
            f.write(json.dumps({"id": i, "query": bytes.fromhex(c["logql"]).decode("utf8", "surrogateescape"),
                                "ctx": ctx, "runs": 1, "metric": True, "class": [c["site"]]}, ensure_ascii=False).encode("utf8", "surrogateescape") + b"\n")
    outp = os.path.join(ck.work, "tree_%s_out.jsonl" % tag)
    rc, out = ck.go_run("logqlsql", ["--cases", inp, "--out", outp])
    if rc != 0:
        ck.obligation("harness logqlsql ran the LogQL requests of the sqlinject cases", False, out[-1500:])
        return
    planned = [json.loads(l) for l in open(outp)]
    usable = [c for c in planned if (c.get("ast_ml") or c.get("script_ml")) and not c.get("err") and c.get("sql")]
    skipped = {}
    for c in planned:
        if c not in usable:
            skipped[c.get("err") or "no-ast"] = skipped.get(c.get("err") or "no-ast", 0) + 1

    def ml(c, key):
        return "(%d, %s, true, %s, 1)" % (c["id"], c[key], c["ctx_ml"])
    lc = [ml(c, "ast_ml") for c in usable if c.get("ast_ml")]
    mc = [ml(c, "script_ml") for c in usable if not c.get("ast_ml")]

    def chunks(name, rows):
        parts = []
        for k in range(0, len(rows), 40):
            parts.append("let %s%d = [\n " % (name, k // 40) + ";\n ".join(rows[k:k + 40]) + "]\n")
        return "".join(parts) + "let %s = List.concat [%s]\n" % (name, "; ".join("%s%d" % (name, i) for i in range(len(parts))))
    # (hostile request, baseline request) pairs whose ASTs are both at hand: script_variantb is evaluated on them
    have = set(c["id"] for c in usable)
    vpairs = [(c["id"], reqs[c["id"]]["_base_req"]) for c in usable
              if not reqs[c["id"]].get("is_base") and reqs[c["id"]].get("_base_req") in have
              # label NAMES inside queries are identifiers, not values (identifier_sites_safe): not a variant of the marker's request
              and ".ident." not in reqs[c["id"]]["site"]]
    txt = chunks("lcases", lc) + chunks("mcases", mc) + "let pairs = [%s]\n" % "; ".join("(%d, %d)" % p for p in vpairs)
    rc, out = ck.ocaml_eval("c10tree_" + tag, "ExtractC10.v", "c10pieces", txt, "c10_driver.ml")
    if rc != 0:
        ck.obligation("tree-level cases evaluated by the extracted planner + segmented renderer", False, out[-2000:])
        return
    res = {}
    variant = {}
    for ln in out.splitlines():
        parts = ln.split(" ")
        if parts and parts[0] == "V":
            variant[int(parts[1])] = parts[3] == "1"
        elif parts and parts[0].lstrip("-").isdigit():
            res[int(parts[0])] = parts[1:]
    mism, notok, leaked, nstmt, located, npieces, nvals, unmodelled = [], [], [], 0, 0, 0, 0, 0
    leak_cand = []
    by_site = {}
    pieces_of = {}
    for c in usable:
        rq = reqs[c["id"]]
        want = bytes.fromhex(rq["want"]) if rq.get("want") else b""
        obs = [s.encode("utf8", "surrogateescape") for s in c["sql"]]
        got = res.get(c["id"])
        if got is not None and all(g == "-" for g in got) and rq["site"] in NOT_PLANNED_BY_MODEL:
            unmodelled += 1
            continue
        if got is None or len(got) != len(obs) or any(g == "-" for g in got):
            mism.append((c, "model has no statement"))
            continue
        found = False
        for g, o in zip(got, obs):
            okf, same, flat, pcs = g.split("/")
            nstmt += 1
            if bytes.fromhex(flat) != o or same != "1":
                mism.append((c, "flat(pieces) differs from the planner's SQL"))
                break
            if okf != "1":
                notok.append(c)
            pieces_of.setdefault(c["id"], []).append([(pc[0], bytes.fromhex(pc[1:])) for pc in pcs.split(",") if pc])
            for pc in pcs.split(","):
                if not pc:
                    continue
                npieces += 1
                body = bytes.fromhex(pc[1:])
                if pc[0] == "L":
                    nvals += 1
                    if want and (want in body or like_escape(want) in body):
                        found = True
                elif pc[0] == "Q":
                    if want and want == body:
                        found = True
                elif len(want) >= 3 and any(ch in want for ch in SPECIAL) and want in body and ".ident." not in rq["site"]:
                    leak_cand.append((c, body))
        if rq.get("is_base"):
            continue
        located += 1 if found else 0
        bs = by_site.setdefault(rq["site"], [0, 0, 0])
        bs[0] += 1
        bs[1] += 1 if found else 0
    # a text piece that the BASELINE statement carries as well is the planner's own text (thorough tier: the value ` ''` occurs in
    # `mapFilter((k,v) -> v != '', ...`): only text pieces the marker's statement lacks count as leaked request bytes
    for c, body in leak_cand:
        bi = reqs[c["id"]].get("_base_req")
        base_texts = set(b for st in pieces_of.get(bi, []) for k, b in st if k == "T") if bi is not None else set()
        if body not in base_texts:
            leaked.append((c, body))
    # piecewise comparison with the marker's segmented text
    notsubst, ncmp = [], 0
    for c in usable:
        rq = reqs[c["id"]]
        bi = rq.get("_base_req")
        if rq.get("is_base") or bi is None or c["id"] not in pieces_of or bi not in pieces_of:
            continue
        b = rq["_base"]
        mk = bytes.fromhex(b["marker"])
        want = bytes.fromhex(rq["want"]) if rq.get("want") else b""
        repl = like_escape(want) if rq.get("mode") == "like" else want
        exp = [[(k, body.replace(mk, repl) if k in ("L", "Q") else body) for k, body in st] for st in pieces_of[bi]]
        ncmp += 1
        by_site.setdefault(rq["site"], [0, 0, 0])[2] += 1
        if exp != pieces_of[c["id"]]:
            notsubst.append(c)
            if os.environ.get("C10_DEBUG"):
                for se, sg in zip(exp, pieces_of[c["id"]]):
                    for a, b2 in zip(se, sg):
                        if a != b2:
                            print("DIFF", rq["site"], a, b2, mk, repl, flush=True)
                            break
    ck.obligation("LogQL (%s): the segmented text planned for the hostile request is the marker's text with the marker replaced inside the value pieces (instance of request_values_keep_statement_structure), on %d (request, baseline) pairs"
                  % (tag, ncmp), not notsubst, "; ".join(c["query"][:140] for c in notsubst[:3]))
    # the hypothesis of logql_requests_differing_only_in_values_have_the_same_structure, on the ASTs of the real parser
    notvar = [c for c in usable if variant.get(c["id"]) is False]
    ck.obligation("LogQL (%s): the request the real parser read for the hostile string is a VARIANT of the request for the marker (script_variantb, sound by logql_variant_check_is_sound): theorem logql_requests_differing_only_in_values_have_the_same_structure applies to %d (request, baseline) pairs"
                  % (tag, len(variant)), not notvar and (len(variant) > 0 or not vpairs), "; ".join(c["query"][:140] for c in notvar[:3]))
    n = len([c for c in usable if not reqs[c["id"]].get("is_base")]) - unmodelled
    ck.obligation("tree-level correspondence (%s): flat(pieces(plan ast)) = SQL of the real LogQL planner, byte for byte, on %d requests / %d statements" % (tag, n, nstmt),
                  not mism, "; ".join("%s => %s" % (c["query"][:120], why) for c, why in mism[:3]))
    ck.obligation("every planned tree passes pok (%s): theorem request_values_keep_statement_structure applies to it (%d statements)" % (tag, nstmt),
                  not notok, "; ".join(c["query"][:160] for c in notok[:3]))
    ck.obligation("no hostile request string occurs in a text piece of a planned tree (%s)" % tag, not leaked,
                  "; ".join("%s in %r" % (c["query"][:120], b[:80]) for c, b in leaked[:3]))
    if notok or leaked or notsubst:
        c = (notok or [x for x, _ in leaked] or notsubst)[0]
        rq = reqs[c["id"]]
        ck.violation({"property": "C10", "kind": "the segmented text of the planned tree fails the value-independent check pok, or carries request bytes in a text piece "
                      "(model/SqlPieces.v): the statement structure is not guaranteed for this request",
                      "case": describe(rq), "logql": c["query"]})
    elif mism:
        c, why = mism[0]
        ck.violation({"property": "C10", "kind": why, "logql": c["query"], "case": describe(reqs[c["id"]]),
                      "broken": "correspondence model/LogqlPlan.v + model/SqlPieces.v vs clickhouse_planner"}, no_input=True)
    t = ck.extra.setdefault("tree_level_tie", {})
    t[tag] = {"logql_requests": nall, "logql_requests_planned_(sample_beyond_8000)": ncase, "planned_by_model_and_code": n, "statements": nstmt, "pieces": npieces, "value_pieces": nvals,
              "requests_whose_value_is_located_in_a_value_piece": located, "skipped": skipped,
              "stage_not_transcribed_in_LogqlPlan_v": unmodelled,
              "pairs_compared_piecewise_with_the_markers_text": ncmp, "pairs_whose_parsed_requests_are_variants_(script_variantb)": sum(1 for v in variant.values() if v), "pairs_not_variants": len(notvar),
              "per_site_[requests,value_located_in_a_value_piece,compared_with_marker]": by_site}
    with vcheck_lock():
        ck.coverage["evaluations"] += nstmt

def run_sites(ck):
    """translator-generated obligations, with named diagnostics before the theorems are compiled"""
    gen = os.path.join(VERIF, "translate", "gen_sqlsites")
    rc, out = vcheck.sh([gen], timeout=300, env=vcheck.go_env())
    ck.checker_cmds.append("translate/gen_sqlsites")
    ck.log(out.strip()[-300:])
    if not ck.obligation("translator gen_sqlsites regenerated coq/gen/GenC10Sites.v from the source", rc == 0, out[-1500:]):
        return
    ok, out = ck.coq_make(["gen/GenC10Sites.vo"])
    if not ck.obligation("gen/GenC10Sites.v compiles", ok, out[-1500:]):
        return
    txt = ("From Coq Require Import List String ZArith.\nFrom Qryn Require Import model.Quote model.Like model.SqlSites gen.GenC10Sites.\n"
           "Definition U := Eval vm_compute in unsafe_sites gen_sql_sites.\nPrint U.\n"
           "Definition T := Eval vm_compute in (List.length gen_sql_sites, alphabets_plain gen_ident_alphabets).\nPrint T.\n")
    rc, out = ck.coq_eval("C10_sites", txt)
    flat = " ".join(out.split())
    m = re.search(r"U = (.*?) : list \(string \* Z\)", flat)
    if rc != 0 or not m:
        ck.obligation("site census evaluated inside Coq", False, out[-1500:])
        return
    bad = re.findall(r'\("([^"]+)", (\d+)(?:%Z)?\)', m.group(1))
    meta = json.load(open(os.path.join(VERIF, "coq", "gen", "GenC10Sites.json")))
    ck.extra["sql_sites"] = {"count": len(meta["sites"]), "excluded_functions": meta["excluded"],
                             "argument_classes": {}}
    for s in meta["sites"]:
        for p in s["pieces"]:
            if p["t"] == "arg":
                ck.extra["sql_sites"]["argument_classes"][p["k"]] = ck.extra["sql_sites"]["argument_classes"].get(p["k"], 0) + 1
    # round 5: the analyser's reading of every constant format (text / operand / text ...) is compared with what package fmt prints
    # for that format over sentinel operands; a non-constant format is KUnclassified whatever it is made of (seeded C10-e)
    fc = meta.get("fmt_checks") or {}
    ck.extra["sql_sites"]["constant_formats_[decomposed,compared_with_package_fmt,differ]"] = [fc.get("Sites"), fc.get("Compared"), fc.get("Differ")]
    ck.obligation("the analyser's decomposition of the constant Sprintf formats agrees with package fmt's own output over sentinel operands (%s of %s formats compared)"
                  % (fc.get("Compared"), fc.get("Sites")), fc.get("Differ") == 0 and (fc.get("Compared") or 0) >= 80, json.dumps(fc))
    run_fmt_sites_tie(ck, meta)
    # round 6 (seeded C10-f): a statement handed to a session WITH bind arguments is interpreted once more, by the driver's client-side
    # bind ($n / ? / @name are rewritten inside rendered literals): such a call must have a constant statement, or no argument ever
    # reaches it (forwarded variadic parameters are followed to their suppliers); otherwise the site carries an unclassified part
    bd = meta.get("bind") or {}
    ck.extra["sql_sites"]["session_calls_[all,with_argument_expressions,forwarding_a_variadic_parameter,with_arguments_beside_a_rendered_statement]"] = [
        bd.get("SessionCalls"), bd.get("WithArguments"), bd.get("Forwarding"), bd.get("Flagged")]
    ck.obligation("the census covers the bind arguments of every session call (QueryCtx / ExecCtx / database/sql / sqlx names): %s calls, %s forward a variadic parameter that no caller supplies, %s hand arguments to the driver beside a rendered statement (then the site is unclassified)"
                  % (bd.get("SessionCalls"), bd.get("Forwarding"), bd.get("Flagged")), (bd.get("SessionCalls") or 0) >= 15, json.dumps(bd))
    detail = ""
    if bad:
        rows = []
        for f, ln in bad[:5]:
            st = [s for s in meta["sites"] if s["file"] == f and str(s["line"]) == ln]
            # several sites may share a line (the statement of a session call and its bind arguments): the one with an unclassified part first
            st.sort(key=lambda s: 0 if any(p.get("k") == "KUnclassified" for p in s["pieces"]) else 1)
            rows.append("%s:%s %s" % (f, ln, json.dumps(st[0]["pieces"])[:500] if st else ""))
        detail = "; ".join(rows)
    ck.obligation("every SQL construction site (%d) formats only classified material and keeps quoted values where a quote opens a literal" % len(meta["sites"]),
                  not bad, detail)
    if bad:
        f, ln = bad[0]
        st = [s for s in meta["sites"] if s["file"] == f and str(s["line"]) == ln]
        st.sort(key=lambda s: 0 if any(p.get("k") == "KUnclassified" for p in s["pieces"]) else 1)
        ck.violation({"property": "C10", "kind": "SQL text is built from an argument of unknown provenance, or a quoted value is placed where a quote does not open a literal",
                      "site": st[0] if st else {"file": f, "line": ln}, "all_unsafe_sites": bad,
                      "explanation": "model/SqlSites.v safe_site rejects this site of coq/gen/GenC10Sites.v (theorem all_sql_sites_classified no longer holds)"},
                     no_input=True)


def run_wsites(ck):
    """write side: translator-generated census of the statements of writer/ and ctrl/, judged inside Coq"""
    gen = os.path.join(VERIF, "translate", "gen_wsqlsites")
    rc, out = vcheck.sh([gen], timeout=900, env=vcheck.go_env())
    ck.checker_cmds.append("translate/gen_wsqlsites")
    ck.log(out.strip()[-300:])
    if not ck.obligation("translator gen_wsqlsites regenerated coq/gen/GenC10WSites.v from the source (writer/, ctrl/)", rc == 0, out[-1500:]):
        return
    ok, out = ck.coq_make(["gen/GenC10WSites.vo"])
    if not ck.obligation("gen/GenC10WSites.v compiles", ok, out[-1500:]):
        return
    txt = ("From Coq Require Import List String ZArith.\nFrom Qryn Require Import model.WSites gen.GenC10WSites.\n"
           "Definition U := Eval vm_compute in unsafe_wsites gen_writer_sites gen_writer_entry.\nPrint U.\n"
           "Definition E := Eval vm_compute in filter (fun d => negb (existsb (String.eqb d) reviewed_writer_entry)) gen_writer_entry.\nPrint E.\n")
    rc, out = ck.coq_eval("C10_wsites", txt)
    flat = " ".join(out.split())
    m = re.search(r"U = (.*?) : list \(string \* Z\)", flat)
    me = re.search(r"E = (.*?) : list string", flat)
    if rc != 0 or not m or not me:
        ck.obligation("writer/ctrl statement census evaluated inside Coq", False, out[-1500:])
        return
    bad = re.findall(r'\("([^"]+)", (\d+)(?:%Z)?\)', m.group(1))
    newentry = re.findall(r'"([^"]+)"', me.group(1))
    meta = json.load(open(os.path.join(VERIF, "coq", "gen", "GenC10WSites.json")))
    sites = meta["sites"]
    cls = {}
    for s in sites:
        for p in s["pieces"]:
            cls[p["k"]] = cls.get(p["k"], 0) + 1
    nstmt = sum(1 for s in sites if s["kind"] in ("statement", "ch-go query body"))
    ck.extra["writer_sql_sites"] = {"statements": nstmt, "call_sites_of_pass_through_functions": len(sites) - nstmt, "part_classes": cls,
                                    "analyser": meta["stats"]}
    detail = ""
    if bad:
        rows = []
        for f, ln in bad[:5]:
            st = [s for s in sites if s["file"] == f and str(s["line"]) == ln]
            rows.append("%s:%s %s" % (f, ln, json.dumps([p for x in st for p in x["pieces"] if p["k"] in ("WUnclassified", "WPass")])[:600]))
        detail = "; ".join(rows)
    ck.obligation("no request string reaches a writer/ctrl statement: every part of the %d statements and %d pass-through call sites is constant, embedded script, configuration, numeric or a closed pass-through parameter"
                  % (nstmt, len(sites) - nstmt), not bad, detail)
    ck.obligation("pass-through functions without a caller in the module are the reviewed entry points", not newentry, "; ".join(newentry))
    if bad:
        f, ln = bad[0]
        st = [s for s in sites if s["file"] == f and str(s["line"]) == ln]
        ck.violation({"property": "C10", "kind": "a statement of writer/ or ctrl/ is built from something of unknown provenance (not constant, embedded script, configuration, "
                      "number or a pass-through parameter whose call sites are classified)",
                      "site": st[0] if st else {"file": f, "line": ln}, "all_unsafe_sites": bad,
                      "explanation": "model/WSites.v wsite_ok rejects this site of coq/gen/GenC10WSites.v (theorem no_request_string_reaches_a_writer_statement no longer holds)"},
                     no_input=True)


FMT_OPS = [b"INNER ANY", b"zq'x", b"third"]


def run_bind_tie(ck):
    """model/ChBind.v (clickhouse-go's client-side bind over string arguments) against the REAL driver: (text, arguments) pairs are handed
    to the repository's StableSqlxDBWrapper over clickhouse-go (HTTP) and recorded at the endpoint (round 6)"""
    import random
    rnd = random.Random(int(ck.seed) + 6)
    texts = [b"a", b" ", b"'", b"\\", b"(", b")", b"x'y", b"key == ", b"\\'", b"--", b"\n", b"\x00", b"\xc3\xa9", b"\xff", b"=", b"", b"1", b"07", b"z9"]
    phs = [b"$1", b"$2", b"$3", b"$0", b"$01", b"$10", b"$", b"$$1", b"$1$2", b"$x", b"?", b"\\?", b"\\\\?", b"??", b"a?", b"@p1", b"@", b"{a:String}",
           b"{", b"}", b":", b"{:}", b"{a:}", b"{ab:c\nd}", b"{a\n:b}", b"{x:y", b"$1'", b"'$1'", b"'?'", b"'x$1y'", b"$99999999999999999999"]
    args_pool = [b"job", b" or 1 or ", b"it's", b"\\", b"\\'", b"", b"$1", b"?", b"a\nb", b"\x00", b"\xc3\xa9\xff", b"' OR 1=1 --", b"$2", b"{a:b}", b"@p1", b"''"]
    fixed = [(b"SELECT val FROM t WHERE ((val) == ('x$1y')) and ((key) == ($1))", [b"job"]),
             (b"SELECT val FROM t WHERE ((val) == ('x$1y')) and ((key) == ($1))", [b" or 1 or "]),
             (b"SELECT val FROM t WHERE ((val) == ('$2')) and ((key) == ($1))", [b"job"]),
             (b"SELECT val FROM t WHERE ((val) == ('a?b')) and ((key) == ($1))", [b"job"]),
             (b"SELECT val FROM t WHERE key == $1", [b"it's \\ $1 ? {a:b}"]),
             (b"SELECT 'no placeholder'", [b"unused"]), (b"SELECT 'no placeholder'", []), (b"SELECT '$1 ? {a:b}'", []),
             (b"SELECT ?, ?", [b"a", b"b", b"c"]), (b"SELECT ?, ?", [b"a"]), (b"?", [b"a"]), (b"x\\?", [b"a"]), (b"SELECT $2, $1", [b"a", b"b"])]
    cases = list(fixed)
    for _ in range(int(ck.n(330, 3000))):
        k = rnd.randint(1, 4)
        t = b"".join(rnd.choice(texts) + (rnd.choice(phs) if rnd.random() < 0.8 else b"") for _ in range(k)) + rnd.choice(texts)
        if not t:
            t = b"x"
        cases.append((t, [rnd.choice(args_pool) for _ in range(rnd.choice([0, 1, 1, 1, 2, 2, 3]))]))
    inp = os.path.join(ck.work, "bind_in.jsonl")
    with open(inp, "w") as fh:
        for t, a in cases:
            fh.write(json.dumps({"site": "chbind", "val": t.hex(), "args": [x.hex() for x in a]}) + "\n")
    outp = os.path.join(ck.work, "bind_out.jsonl")
    rc, out = ck.go_run("sqlinject", ["--cases", inp, "--out", outp])
    rows = [json.loads(l) for l in open(outp)] if rc == 0 and os.path.exists(outp) else []
    rows = [r for r in rows if r.get("kind") == "bind"]
    if not ck.obligation("harness sqlinject sent the generated (statement text, bind arguments) pairs through the real session and driver (%d)" % len(rows),
                         rc == 0 and len(rows) == len(cases) and all(r["sent"] <= 1 for r in rows), out[-800:]):
        return
    cs = vcheck.coq_string
    body = ";\n  ".join("(%s, [%s], %s)" % (cs(bytes.fromhex(r["text"])), "; ".join(cs(bytes.fromhex(a)) for a in (r.get("args") or [])),
                                            ("Some " + cs(bytes.fromhex(r["out"]))) if r["sent"] == 1 else "None") for r in rows)
    txt = ("From Coq Require Import List String Ascii.\nFrom Qryn Require Import model.ChBind.\nImport ListNotations.\nOpen Scope string_scope.\n"
           "Definition cases : list bind_case := [\n  " + body + "].\n"
           "Definition R := Eval vm_compute in map bind_verdict cases.\nPrint R.\n")
    rc, out = ck.coq_eval("C10_chbind", txt)
    flat = " ".join(out.split())
    m = re.search(r"R = \[(.*?)\]\s*: list nat", flat)
    if rc != 0 or not m:
        ck.obligation("model/ChBind.v evaluated on the generated pairs", False, out[-1500:])
        return
    verd = [int(x) for x in re.findall(r"\d+", m.group(1))]
    bad = [(r, v) for r, v in zip(rows, verd) if v != 0]
    refused = sum(1 for r in rows if r["sent"] == 0)
    rewritten = sum(1 for r in rows if r["sent"] == 1 and r["out"] != r["text"])
    ck.obligation("model/ChBind.v = clickhouse-go's client-side bind: bind_go text arguments is what reached the endpoint behind the real driver (or both refuse), on %d generated pairs (%d rewritten by the driver, %d refused, %d sent unchanged)"
                  % (len(rows), rewritten, refused, len(rows) - rewritten - refused),
                  not bad and len(verd) == len(rows) and rewritten >= 40 and refused >= 40,
                  "; ".join("%r %r -> %s (model verdict %d)" % (bytes.fromhex(r["text"]), [bytes.fromhex(a) for a in r.get("args") or []],
                                                              repr(bytes.fromhex(r["out"])) if r["sent"] else "refused: " + str(r.get("err")), v) for r, v in bad[:3]))
    if bad:
        r, v = bad[0]
        ck.violation({"property": "C10", "kind": "model/ChBind.v disagrees with the driver's bind", "text": bytes.fromhex(r["text"]).decode("utf8", "backslashreplace"),
                      "args": [bytes.fromhex(a).decode("utf8", "backslashreplace") for a in r.get("args") or []],
                      "sent": bytes.fromhex(r["out"]).decode("utf8", "backslashreplace") if r["sent"] else None, "driver_error": r.get("err"),
                      "broken": "correspondence model/ChBind.v vs clickhouse-go bind.go"}, no_input=True)
    ck.extra["chbind_tie"] = {"pairs": len(rows), "rewritten_by_the_driver": rewritten, "refused_by_the_driver": refused}
    with vcheck_lock():
        ck.coverage["evaluations"] += len(rows)


def run_fmt_tie(ck):
    """model/GoFmt.v (fmt's doPrintf over string operands) against the real fmt.Sprintf on generated formats (round 5)"""
    import random
    rnd = random.Random(int(ck.seed))
    texts = [b"a", b" JOIN ", b"'", b"\\", b"(", b")", b"x'y", b"match(", b", ", b"\\'", b"--", b"\n", b"\x00", b"\xc3\xa9", b"=", b""]
    verbs = [b"%s", b"%v", b"%d", b"%%", b"%'", b"%\\", b"%!", b"%", b"%z", b"%S", b"%)", b"%s%s", b"%%%s", b"%\n", b"%,", b"%(", b"%;", b"%_",
             b"%q", b"%x", b"%5s", b"%[1]s", b"%-s", b"%.2s", b"%*d", b"%+v", b"%#v", b"% s", b"%\xc3\xa9", b"%T", b"%w", b"%0d"]
    fixed = [b" %s JOIN (SELECT 1 WHERE val == '%\\'')", b" %s JOIN '50%%off'", b" %s JOIN 'a%sb'", b"match(%s, %s)", b"%s", b"", b"%", b"%%", b"%!(NOVERB)",
             b"no verbs at all", b"%s %s %s %s"]
    cases = [(f, n) for f in fixed for n in (0, 1, 2, 3)]
    for _ in range(int(ck.n(260, 3000))):
        k = rnd.randint(1, 5)
        # the first 18 verbs lie inside the modelled fragment: most pieces come from them (a single outside verb puts the format outside)
        f = b"".join(rnd.choice(texts) + (rnd.choice(verbs[:18]) if rnd.random() < 0.93 else rnd.choice(verbs)) for _ in range(k)) + rnd.choice(texts)
        cases.append((f, rnd.randint(0, 3)))
    inp = os.path.join(ck.work, "fmt_in.jsonl")
    with open(inp, "w") as fh:
        for f, n in cases:
            fh.write(json.dumps({"site": "gofmt", "val": f.hex(), "nargs": n}) + "\n")
    outp = os.path.join(ck.work, "fmt_out.jsonl")
    rc, out = ck.go_run("sqlinject", ["--cases", inp, "--out", outp])
    rows = [json.loads(l) for l in open(outp)] if rc == 0 and os.path.exists(outp) else []
    rows = [r for r in rows if r.get("kind") == "fmt"]
    if not ck.obligation("harness sqlinject printed the generated formats with the real fmt.Sprintf (%d)" % len(rows), rc == 0 and len(rows) == len(cases), out[-800:]):
        return
    cs = vcheck.coq_string
    body = ";\n  ".join("(%s, [%s], %s)" % (cs(bytes.fromhex(r["format"])), "; ".join(cs(o) for o in FMT_OPS[:r["nargs"]]), cs(bytes.fromhex(r["out"]))) for r in rows)
    txt = ("From Coq Require Import List String Ascii.\nFrom Qryn Require Import model.GoFmt.\nImport ListNotations.\nOpen Scope string_scope.\n"
           "Definition cases : list fmt_case := [\n  " + body + "].\n"
           "Definition R := Eval vm_compute in map fmt_verdict cases.\nPrint R.\n")
    rc, out = ck.coq_eval("C10_gofmt", txt)
    flat = " ".join(out.split())
    m = re.search(r"R = \[(.*?)\]\s*: list nat", flat)
    if rc != 0 or not m:
        ck.obligation("model/GoFmt.v evaluated on the generated formats", False, out[-1500:])
        return
    verd = [int(x) for x in re.findall(r"\d+", m.group(1))]
    bad = [r for r, v in zip(rows, verd) if v == 1]
    inside = sum(1 for v in verd if v == 0)
    ck.obligation("model/GoFmt.v = package fmt: fmt_go format operands is what the real fmt.Sprintf printed, on %d generated formats inside the modelled fragment (%d outside it: flags, index, width, precision, %%q %%x %%T)"
                  % (inside, sum(1 for v in verd if v == 2)), not bad and inside >= 100 and len(verd) == len(rows),
                  "; ".join("%r/%d -> %r" % (bytes.fromhex(r["format"]), r["nargs"], bytes.fromhex(r["out"])) for r in bad[:3]))
    if bad:
        r = bad[0]
        ck.violation({"property": "C10", "kind": "model/GoFmt.v disagrees with package fmt", "format": bytes.fromhex(r["format"]).decode("utf8", "backslashreplace"),
                      "nargs": r["nargs"], "fmt_printed": bytes.fromhex(r["out"]).decode("utf8", "backslashreplace"),
                      "broken": "correspondence model/GoFmt.v vs package fmt"}, no_input=True)
    ck.extra["gofmt_tie"] = {"formats": len(rows), "inside_the_modelled_fragment": inside, "outside": sum(1 for v in verd if v == 2)}
    with vcheck_lock():
        ck.coverage["evaluations"] += inside


def coq_operand(o):
    """typed operand "s:<hex>" / "i:<decimal>" / "l:<decimal>" as a GoFmtInt.operand"""
    if o.startswith("s:"):
        return "OStr %s" % vcheck.coq_string(bytes.fromhex(o[2:]))
    return 'OInt "%s" (%s)%%Z' % ("int" if o[0] == "i" else "int64", o[2:])


def eval_fmt2(ck, name, triples):
    """fmt_verdict3 of model/GoFmtIdx.v (= GoFmtInt.v on index-free formats: theorem fmt_model_with_indexes_extends_the_index_free_model) on (format bytes, typed operands, printed bytes); None when Coq failed"""
    cs = vcheck.coq_string
    body = ";\n  ".join("(%s, [%s], %s)" % (cs(f), "; ".join(coq_operand(o) for o in ops), cs(o_)) for f, ops, o_ in triples)
    txt = ("From Coq Require Import List String Ascii ZArith.\nFrom Qryn Require Import model.GoFmt model.GoFmtInt model.GoFmtIdx.\nImport ListNotations.\nOpen Scope string_scope.\n"
           "Definition cases : list fmt_case3 := [\n  " + body + "].\n"
           "Definition R := Eval vm_compute in map fmt_verdict3 cases.\nPrint R.\n")
    rc, out = ck.coq_eval(name, txt)
    flat = " ".join(out.split())
    m = re.search(r"R = \[(.*?)\]\s*: list nat", flat)
    if rc != 0 or not m:
        ck.obligation("model/GoFmtInt.v evaluated (%s)" % name, False, out[-1500:])
        return None
    verd = [int(x) for x in re.findall(r"\d+", m.group(1))]
    if len(verd) != len(triples):
        ck.obligation("model/GoFmtInt.v evaluated (%s)" % name, False, "%d verdicts for %d cases" % (len(verd), len(triples)))
        return None
    return verd


def run_fmt_int_tie(ck):
    """round 8: model/GoFmtInt.v (fmt's doPrintf over string AND integer operands) against the real fmt.Sprintf on generated formats"""
    import random
    rnd = random.Random(int(ck.seed) + 8)
    texts = [b"a", b" LIMIT ", b"'", b"\\", b"(", b")", b"x'y", b"toDateTime(", b", ", b"--", b"-", b"\n", b"=", b"", b"1", b" - "]
    verbs = [b"%d", b"%s", b"%v", b"%d", b"%%", b"%d%d", b"%'", b"%\\", b"%!", b"%z", b"%t", b"%e", b"%f", b"%g", b"%S", b"%D", b"%)", b"%_",
             b"%[1]d", b"%[2]s", b"%[1]s", b"%[2]d", b"%[3]v", b"%[0]s", b"%[9]d", b"%[12]d", b"%[1]d%d", b"%[2]s%[1]s",
             b"%09d", b"%03d", b"%0d", b"%012d", b"%001d", b"%020d", b"%05s", b"%05v", b"%0[1]d", b"%0-5d",
             b"%[]d", b"%[1d", b"%[1]%", b"%[1]5d", b"%5[1]d", b"%[x]d", b"%[1][2]d", b"%[-1]d",
             b"%b", b"%o", b"%O", b"%c", b"%U", b"%q", b"%x", b"%X", b"%5d", b"%-d", b"%+d", b"%05d", b"%[1]d", b"%.3d", b"% d", b"%T"]
    ints = ["i:0", "i:1", "i:-1", "i:100", "i:7001", "i:-7002", "i:1700000000", "l:0", "l:-1", "l:1700000000000000000", "l:9223372036854775807",
            "l:-9223372036854775808", "i:10", "i:-10", "l:1000000000", "i:99999", "l:-100000"]
    strs = ["s:" + b.hex() for b in (b"INNER ANY", b"zq'x", b"", b"1; DROP", b"'", b"\\", b"7", b"-")]

    def operand():
        if rnd.random() < 0.65:
            if rnd.random() < 0.3:
                return ("i:%d" if rnd.random() < 0.5 else "l:%d") % rnd.choice([rnd.randint(-10**6, 10**6), rnd.randint(-2**63, 2**63 - 1), rnd.randint(-9, 9) * 10**rnd.randint(0, 18)])
            return rnd.choice(ints)
        return rnd.choice(strs)
    fixed = [(b"SELECT 1 LIMIT %d", ["i:100"]), (b"SELECT 1 LIMIT %d", ["s:" + b"'".hex()]), (b"%s|%d|%v", ["i:5", "s:" + b"a".hex(), "l:7", "s:" + b"b".hex()]),
             (b"%d", []), (b"%d", ["l:-9223372036854775808"]), (b"%v%v", ["i:-3", "l:4"]), (b"", ["i:1", "l:2"]), (b"%", ["i:1"]), (b"%d %s", ["i:1"]),
             (b"toDateTime(%d) AND val == %s LIMIT %d", ["l:-1700000000", "s:" + b"'x'".hex(), "i:100"]),
             (b"if(JSONType(%[2]s, %[1]s) == 'String', JSONExtractString(%[2]s, %[1]s))", ["s:" + b"'a\\'%s'".hex(), "s:" + b"string".hex()]),
             (b"intDiv(timestamp_ns, %d) * %[1]d", ["l:15000000000"]), (b"%[3]d|%[0]s|%[1]d %s", ["i:1", "s:" + b"b".hex()]), (b"%[1]d", ["i:1", "i:2"]),
             (b"%[2]d", ["i:1"]), (b"%d %[1]", ["i:1"]), (b"%[1]", ["i:1"]), (b"%d.%09d", ["l:1700000000", "l:5"]), (b"%09d", ["l:-5"]), (b"%03d", ["i:12345"]),
             (b"%09d|%03d|%0d", ["l:-9223372036854775808", "i:-12", "i:0"]), (b"%05d", ["s:" + b"a".hex()]), (b"%05d", [])]
    cases = list(fixed)
    for _ in range(int(ck.n(380, 3000))):
        k = rnd.randint(1, 4)
        f = b"".join(rnd.choice(texts) + (rnd.choice(verbs[:34]) if rnd.random() < 0.92 else rnd.choice(verbs)) for _ in range(k)) + rnd.choice(texts)
        cases.append((f, [operand() for _ in range(rnd.randint(0, 4))]))
    inp = os.path.join(ck.work, "fmt2_in.jsonl")
    with open(inp, "w") as fh:
        for f, ops in cases:
            fh.write(json.dumps({"site": "gofmt", "val": f.hex(), "ops": ops}) + "\n")
    outp = os.path.join(ck.work, "fmt2_out.jsonl")
    rc, out = ck.go_run("sqlinject", ["--cases", inp, "--out", outp])
    rows = [json.loads(l) for l in open(outp)] if rc == 0 and os.path.exists(outp) else []
    rows = [r for r in rows if r.get("kind") == "fmt2"]
    if not ck.obligation("harness sqlinject printed the generated formats over string and integer operands with the real fmt.Sprintf (%d)" % len(rows),
                         rc == 0 and len(rows) == len(cases), out[-800:]):
        return
    verd = eval_fmt2(ck, "C10_gofmtint", [(bytes.fromhex(r["format"]), r["ops"], bytes.fromhex(r["out"])) for r in rows])
    if verd is None:
        return
    bad = [r for r, v in zip(rows, verd) if v == 1]
    inside = sum(1 for v in verd if v == 0)
    with_int = sum(1 for r, v in zip(rows, verd) if v == 0 and any(not o.startswith("s:") for o in r["ops"]) and b"%d" in bytes.fromhex(r["format"]))
    with_idx = sum(1 for r, v in zip(rows, verd) if v == 0 and b"%[" in bytes.fromhex(r["format"]))
    badidx = sum(1 for r, v in zip(rows, verd) if v == 0 and b"(BADINDEX)" in bytes.fromhex(r["out"]))
    padded = sum(1 for r, v in zip(rows, verd) if v == 0 and b"%0" in bytes.fromhex(r["format"]))
    badverb = sum(1 for r, v in zip(rows, verd) if v == 0 and b"%!d(string=" in bytes.fromhex(r["out"]))
    ck.obligation("model/GoFmtInt.v = package fmt: fmt_go2 format operands is what the real fmt.Sprintf printed, on %d generated formats inside the modelled fragment "
                  "(%d with an integer under %%d, %d with a string under %%d, %d with an argument index, %d with a bad index, %d with a zero-padded integer; %d outside: other flags, width, precision, %%b %%o %%c %%U %%q %%x %%T)"
                  % (inside, with_int, badverb, with_idx, badidx, padded, sum(1 for v in verd if v == 2)), not bad and inside >= 100 and with_int >= 40 and badverb >= 5 and with_idx >= 40 and badidx >= 8 and padded >= 10,
                  "; ".join("%r %r -> %r" % (bytes.fromhex(r["format"]), r["ops"], bytes.fromhex(r["out"])) for r in bad[:3]))
    if bad:
        r = bad[0]
        ck.violation({"property": "C10", "kind": "model/GoFmtInt.v disagrees with package fmt", "format": bytes.fromhex(r["format"]).decode("utf8", "backslashreplace"),
                      "ops": r["ops"], "fmt_printed": bytes.fromhex(r["out"]).decode("utf8", "backslashreplace"),
                      "broken": "correspondence model/GoFmtInt.v vs package fmt"}, no_input=True)
    ck.extra["gofmtint_tie"] = {"formats": len(rows), "inside_the_modelled_fragment": inside, "integer_under_%d": with_int, "string_under_%d": badverb, "argument_index": with_idx, "bad_index": badidx, "zero_padded": padded,
                                "outside": sum(1 for v in verd if v == 2)}
    with vcheck_lock():
        ck.coverage["evaluations"] += inside


def run_fmt_sites_tie(ck, meta):
    """round 8: EVERY constant Sprintf format of the repository's SQL construction sites goes through model/GoFmtInt.v with operands of the
    kinds the site has (census: strings with a quote and a backslash; positive, negative, extreme integers): the model's text = what
    package fmt printed in the analyser = the text the analyser's decomposition stands for"""
    recs = meta.get("fmt_model") or []
    if not ck.obligation("the census hands over the constant formats of the repository's Sprintf sites with operands of their kinds (%d)" % len(recs), len(recs) >= 80):
        return
    triples, ops_of = [], []
    for r in recs:
        ops = [("s:" + o["v"]) if o["k"] == "s" else (("i:" if o.get("ty") == "int" else "l:") + o["v"]) for o in (r["ops"] or [])]
        ops_of.append(ops)
        triples.append((bytes.fromhex(r["format"]), ops, bytes.fromhex(r["out"])))
    verd = eval_fmt2(ck, "C10_gofmtsites", triples)
    if verd is None:
        return
    bad = [r for r, v in zip(recs, verd) if v == 1 or (v == 0 and r["out"] != r["expect"])]
    inside = sum(1 for v in verd if v == 0)
    numeric = sum(1 for r, v in zip(recs, verd) if v == 0 and any(o["k"] == "d" for o in (r["ops"] or [])))
    indexed = sum(1 for r, v in zip(recs, verd) if v == 0 and b"%[" in bytes.fromhex(r["format"]))
    outside = [(r["file"], r["line"], bytes.fromhex(r["format"]).decode("utf8", "replace")) for r, v in zip(recs, verd) if v == 2]
    ck.obligation("model/GoFmtInt.v prints every constant Sprintf format of the repository's SQL sites as package fmt does and as the census reads it "
                  "(%d formats, %d with an integer under %%d, %d with argument indexes; %d outside the modelled fragment: flags / width)" % (inside, numeric, indexed, len(outside)),
                  not bad and inside >= 80 and numeric >= 8 and indexed >= 4 and len(outside) <= 2,
                  "; ".join("%s:%s %r" % (r["file"], r["line"], bytes.fromhex(r["format"])) for r in bad[:3]))
    if bad:
        r = bad[0]
        ck.violation({"property": "C10", "kind": "a constant Sprintf format of the repository is printed by package fmt differently from model/GoFmtInt.v or from the census's decomposition",
                      "file": r["file"], "line": r["line"], "format": bytes.fromhex(r["format"]).decode("utf8", "backslashreplace"), "operands": r["ops"],
                      "fmt_printed": bytes.fromhex(r["out"]).decode("utf8", "backslashreplace"), "decomposition": bytes.fromhex(r["expect"]).decode("utf8", "backslashreplace"),
                      "broken": "correspondence model/GoFmtInt.v vs the repository's formats"}, no_input=True)
    ck.extra["gofmt_sites_tie"] = {"formats": len(recs), "inside_the_modelled_fragment": inside, "with_an_integer_under_%d": numeric, "with_argument_indexes": indexed, "outside": outside[:20]}
    with vcheck_lock():
        ck.coverage["evaluations"] += inside


BLOCK_START = re.compile(r"^(Theorem|Corollary|Example|Lemma)\s+([A-Za-z_][\w']*)")


def props_blocks(lines):
    """[(kind, name, first line index, last line index)] of the Theorem/Example blocks of a props file (a Theorem block includes its
    Print Assumptions line)"""
    out, i = [], 0
    while i < len(lines):
        m = BLOCK_START.match(lines[i])
        if not m:
            i += 1
            continue
        j = i
        while j < len(lines) and not lines[j].rstrip().endswith("Qed."):
            j += 1
        if j + 1 < len(lines) and lines[j + 1].startswith("Print Assumptions"):
            j += 1
        out.append((m.group(1), m.group(2), i, min(j, len(lines) - 1)))
        i = j + 1
    return out


def coq_props_per_theorem(ck):
    """As ck.coq_props(), but a theorem that no longer compiles (the regenerated census / tables changed) fails ITS obligation only:
    the props file is compiled in a scratch directory with the failing block blanked out, again and again, until the rest
    compiles; the remaining theorems are reported with their Print Assumptions verdicts."""
    ok, out = ck.coq_make(["props/C10.vo"])
    if ok:
        return ck.coq_props()
    rel = os.path.join(vcheck.COQ, "props", "C10.v")
    lines = open(rel).read().split("\n")
    blocks = props_blocks(lines)
    thms = [b[1] for b in blocks if b[0] in ("Theorem", "Corollary")]
    ck.theorems = thms
    bad = vcheck.scan_forbidden()
    ck.obligation("no Admitted/Axiom/Parameter/guard-off anywhere in coq/", not bad, "; ".join(bad))
    d = os.path.join(ck.work, "props_split")
    os.makedirs(d, exist_ok=True)
    failed = {}
    pout = ""
    for _ in range(len(blocks) + 1):
        open(os.path.join(d, "C10split.v"), "w").write("\n".join(lines))
        rc, pout = vcheck.sh(["coqc", "-R", vcheck.COQ, "Qryn", "-Q", ".", "", "-w", vcheck.COQ_WARN, "C10split.v"], cwd=d, timeout=900)
        if rc == 0:
            break
        m = re.search(r'File "\./C10split\.v", line (\d+)', pout)
        blk = None
        if m:
            ln = int(m.group(1)) - 1
            blk = next((b for b in blocks if b[2] <= ln <= b[3] and b[1] not in failed), None)
        if blk is None:
            # an import or a definition outside every block fails: nothing can be said per theorem
            for t in thms:
                ck.obligation("theorem " + t, False, "props file does not compile: %s" % pout[-600:])
            ck.build_log = out
            return False
        failed[blk[1]] = pout[pout.find("Error"):][:600] if "Error" in pout else pout[-600:]
        for k in range(blk[2], blk[3] + 1):
            lines[k] = ""
    else:
        for t in thms:
            ck.obligation("theorem " + t, False, "props file does not compile: %s" % pout[-600:])
        return False
    ck.checker_cmds.append("coqc props/C10.v with the failing blocks blanked out (per-theorem verdicts)")
    verdicts = vcheck.parse_assumptions(pout)
    rest = [t for t in thms if t not in failed]
    for t in thms:
        if t in failed:
            ck.obligation("theorem " + t, False, "no longer compiles: " + failed[t])
    if len(verdicts) < len(rest):
        for t in rest:
            ck.obligation("theorem " + t, False, "lacks Print Assumptions (%d/%d)" % (len(verdicts), len(rest)))
        return False
    for t, (kind, ax) in zip(rest, verdicts):
        extra_ax = [a for a in ax if a not in vcheck.ALLOWED_AXIOMS and a.split(".")[-1] not in vcheck.ALLOWED_AXIOMS]
        ck.obligation("theorem " + t, not extra_ax, "closed under the global context" if kind == "closed" else "axioms: " + ", ".join(ax))
    ex = [n for n in failed if n not in thms]
    ck.obligation("the Examples of props/C10.v hold", not ex, "; ".join("%s: %s" % (n, failed[n][:200]) for n in ex))
    return False


def run_replay(ck):
    """bin/check C10 --replay <file>: re-run the (site, value) of a replay file against the current tree"""
    o = json.load(open(ck.replay))
    c = o.get("case")
    if not c and o.get("position") is not None:       # PromQL / Pyroscope selection tie
        return c10sel.run(ck, [], "replay", values=[o["value"]])
    if not c and o.get("traceql_num_site"):           # a number / duration written as text in a TraceQL request
        return c10tq.run(ck, [], "replay", describe, num_queries=[(o["traceql_num_site"], o["traceql"])])
    if not c:
        ck.log("replay without a concrete input (%s): re-running the site censuses" % o.get("kind"))
        run_sites(ck)
        run_wsites(ck)
        return
    if not ck.go_build("sqlinject"):
        ck.obligation("harness sqlinject builds against the repository", False, ck.build_out[-1500:])
        return
    inp = os.path.join(ck.work, "replay_in.jsonl")
    open(inp, "w").write(json.dumps({"site": c["site"], "val": c["val"], "shape": c.get("shape")}) + "\n")
    outp = os.path.join(ck.work, "replay_out.jsonl")
    rc, out = ck.go_run("sqlinject", ["--cases", inp, "--out", outp])
    bases, cases, rej = load(outp)
    if rc != 0 or (not cases and not rej):
        ck.obligation("replay ran", False, out[-1500:])
        return
    if rej:
        ck.log("the request is rejected before any statement: %s" % rej[0].get("rej"))
        if str(rej[0].get("rej", "")).startswith("driver refused the statement"):
            ck.obligation("replayed input %r at %s: the driver sends the statement" % (bytes.fromhex(c["val"]), c["site"]), False, rej[0]["rej"])
            ck.violation({"property": "C10", "kind": "the driver's client-side bind reads the request string as placeholder syntax and refuses the statement",
                          "case": describe(rej[0])})
            return
    verd = {}
    if cases:
        verd, out = eval_cases(ck, "C10_replay", bases, cases)
        if verd is None:
            ck.obligation("replay evaluated inside Coq", False, out[-1500:])
            return
    with vcheck_lock():
        ck.coverage["evaluations"] += len(cases)
    run_tree_tie(ck, cases, "replay")
    tq_pairs = [(cs, bases[cs["base"]]) for cs in cases if cs.get("tq") and 0 <= cs["base"] < len(bases) and bases[cs["base"]].get("tq")]
    if tq_pairs:
        c10tq.run(ck, tq_pairs, "replay", describe, num_queries=[])
    ck.obligation("replayed input %r at %s keeps the statement structure" % (bytes.fromhex(c["val"]), c["site"]), not verd,
                  "; ".join(CODE.get(v, str(v)) for v in verd.values()))
    for cs in cases:
        if cs["id"] in verd:
            ck.violation({"property": "C10", "kind": CODE.get(verd[cs["id"]]), "case": describe(cs)})
            break


def run(ck):
    if ck.replay:
        return run_replay(ck)
    ck.trusted += [
        "C10: model/ChLex.v is a transcription of the ClickHouse lexer (Lexer.cpp) and literal decoder (ReadHelpers.cpp) from the ClickHouse sources/documentation; heredocs and Unicode quotes outside literals are not modelled",
        "C10: LIKE pattern meaning (model/Like.v like_parse) follows ClickHouse likePatternToRegexp",
        "C10: the provenance rules of translate/sqlsites_src (reviewed selector table, sink constructors, two excluded functions; go/types for numeric verbs) decide the class of each formatted argument; everything outside them is KUnclassified",
        "C10: the renderer theorems are about model/SqlRender.v and model/LogqlPlan.v, whose byte-exact tie to reader/utils/sql_select and clickhouse_planner is checked by C07/C08 (and re-checked here on the hostile requests: flat(pieces) = real SQL)",
        "C10: strings.NewReplacer with one-byte search strings is a single-pass per-byte map; strings.Replace(s, old, new, -1) is leftmost non-overlapping replacement",
        "C10: the provenance rules of translate/wsqlsites_src (write side): sinks are recognised by method name + a string parameter (go/types) and ch-go Query bodies; a field of a struct declared in a package whose path contains 'config' is configuration; variables/fields are the join of the assignments the analyser sees (objects named by declaration, module-wide; fields filled by reflection/unmarshalling have no assignment and are unclassified unless also assigned explicitly); interface method calls are matched by name and arity",
        "C10: the TraceQL tree-level tie reads the SQL object trees dumped by C11's harness traceql (reflection over the real objects); its translation of raw fragments to model/TqSql.v is validated by flat(tq_pieces tree) = SQL on every tree",
    ]
    known = ck.known_findings()
    run_sites(ck)
    run_wsites(ck)
    coq_props_per_theorem(ck)
    run_correspondence(ck, known)
