"""C10 — request strings can never change the structure of SQL sent to ClickHouse.

Theorems (props/C10.v): StringVal.String's escape loop is a per-byte map; its output is exactly one
ClickHouse string literal decoding to the input, for every byte string; at statement level the token
skeleton around a quoted value does not depend on the value; doLike's literal always closes; every SQL
construction site of the reader (regenerated from the source into gen/GenC10Sites.v) formats only
classified material.
Correspondence (harness sqlinject): the real planners are driven with hostile strings in one position
at a time; the SQL they hand to the session is lexed by model/ChLex.v inside Coq and compared with the
SQL for a harmless marker in the same position (token skeleton equal, literals = baseline literals with
the marker replaced by the intended bytes, model-predicted literal text present).
"""
import hashlib
import json
import os
import re
import subprocess

import vcheck
from vcheck import coq_list

VERIF = vcheck.VERIF
CODE = {1: "statement does not lex (unterminated literal/comment or stray byte)",
        2: "token skeleton differs from the skeleton for a harmless string in the same position",
        4: "a string literal does not decode to the intended bytes",
        5: "the LIKE pattern written for a line filter does not mean 'the line contains the value'",
        7: "the statement is not the baseline shape instantiated with the model's text for the value (model/Quote.v, model/Like.v)",
        8: "baseline statement does not lex",
        10: "the baseline statement is not a shape covered by theorem template_skeleton_invariant"}
MODE = {"raw": "MRaw", "plain": "MPlain", "like": "MLike"}


def pack(hexs):
    b = bytes.fromhex(hexs)
    out = [str(len(b))]
    for i in range(0, len(b), 7):
        out.append(str(int.from_bytes(b[i:i + 7], "little")))
    return "[" + ";".join(out) + "]"


def common(b, q):
    """lengths of the common prefix and (non-overlapping) common suffix of two byte strings"""
    n = min(len(b), len(q))
    p = 0
    while p < n and b[p] == q[p]:
        p += 1
    s = 0
    while s < n - p and b[len(b) - 1 - s] == q[len(q) - 1 - s]:
        s += 1
    return p, s


MARGIN = 16


def eval_cases(ck, name, bases, cases):
    """-> dict id -> verdict code (non-zero only), or None.
    Each statement is sent as the bytes between a prefix and a suffix it shares with its baseline; the cut
    points are fixed per baseline (the shortest common prefix/suffix over this shard's cases, minus a margin),
    Coq lexes prefix ++ middle ++ suffix (model/SqlCase.v case_toks)."""
    bsql = [bytes.fromhex(b["sql"]) for b in bases]
    cut = {}
    for c in cases:
        if c["base"] < 0:
            continue
        p, s = common(bsql[c["base"]], bytes.fromhex(c["sql"]))
        op, os_ = cut.get(c["base"], (1 << 30, 1 << 30))
        cut[c["base"]] = (min(op, p), min(os_, s))
    rows = []
    for i, b in enumerate(bases):
        p, s = cut.get(i, (0, 0))
        p, s = max(0, p - MARGIN), max(0, s - MARGIN)
        cut[i] = (p, s)
        rows.append("(%s, %s, %d, %d, %s)" % (pack(b["marker"]), pack(b["sql"]), p, s, "true" if b.get("mode") == "like" else "false"))
    rows.append("([0], [0], 0, 0, false)")  # baseline of the stand-alone escaper cases
    raw_base = len(bases)
    crow = []
    for c in cases:
        q = bytes.fromhex(c["sql"])
        if c["base"] < 0:
            bi, mid = raw_base, q
        else:
            bi = c["base"]
            p, s = cut[bi]
            mid = q[p:len(q) - s]
            assert bsql[bi][:p] + mid + bsql[bi][len(bsql[bi]) - s:] == q
        crow.append("{| c_id := %d%%Z; c_mode := %s; c_want := %s; c_base := %d%%Z; c_mid := %s |}" % (
            c["id"], MODE[c["mode"]], pack(c["want"]), bi, pack(mid.hex())))
    txt = ("From Coq Require Import List ZArith Uint63.\nFrom Qryn Require Import model.SqlCase.\n"
           "Import ListNotations.\nOpen Scope uint63_scope.\n"
           "Definition bases : list rbase := [\n  " + ";\n  ".join(rows) + "].\n"
           "Definition cases : list case := [\n  " + ";\n  ".join(crow) + "].\n"
           "Definition R := Eval vm_compute in verdicts bases cases.\nPrint R.\n")
    rc, out = ck.coq_eval(name, txt)
    if rc != 0:
        return None, out
    flat = " ".join(out.split())
    m = re.search(r"R = (\[.*?\]|nil)\s*: list \(Z \* Z\)", flat)
    if not m:
        return None, out
    return {int(a): int(b) for a, b in re.findall(r"\((-?\d+)(?:%Z)?, (-?\d+)(?:%Z)?\)", m.group(1))}, out


def load(path):
    bases, cases, rej = [], [], []
    for l in open(path):
        o = json.loads(l)
        (bases if o["kind"] == "base" else cases if o["kind"] == "case" else rej).append(o)
    return bases, cases, rej


def describe(c):
    d = dict(c)
    for k in ("val", "want", "sql"):
        if d.get(k) is not None:
            d[k + "_text"] = bytes.fromhex(d[k]).decode("utf8", "backslashreplace")
    return d


def run_correspondence(ck, known):
    if not ck.go_build("sqlinject"):
        ck.obligation("harness sqlinject builds against the repository", False, ck.build_out[-1500:])
        return
    runs = []
    corpus = os.path.join(VERIF, "corpus", "C10", "cases.jsonl")
    if os.path.exists(corpus):
        outp = os.path.join(ck.work, "corpus_out.jsonl")
        rc, out = ck.go_run("sqlinject", ["--cases", corpus, "--out", outp])
        if rc != 0:
            ck.obligation("harness sqlinject ran the corpus", False, out[-1500:])
            return
        runs.append(("corpus", outp))
    outp = os.path.join(ck.work, "gen_out.jsonl")
    rc, out = ck.go_run("sqlinject", ["--seed", ck.seed, "--n", ck.n(3000, 100000), "--out", outp])
    if rc != 0:
        ck.obligation("harness sqlinject ran", False, out[-1500:])
        return
    runs.append(("gen", outp))

    total, verd_all, by_id, hist, sites, rejs = 0, {}, {}, {}, {}, {}
    distinct = set()
    nbad_base = 0
    for tag, path in runs:
        bases, cases, rej = load(path)
        off = 0 if tag == "gen" else 10_000_000
        for c in cases:
            c["id"] += off
        for r in rej:
            rejs[r["site"]] = rejs.get(r["site"], 0) + 1
        nobase = [c for c in cases if c["mode"] != "raw" and c["base"] < 0]
        nbad_base += len(nobase)
        for c in nobase[:1]:
            ck.violation({"property": "C10", "kind": "no baseline statement for this site (marker rejected or statement count differs)",
                          "case": describe(c)}, no_input=True)
        cases = [c for c in cases if c not in nobase]
        shard = 3000
        for k in range(0, len(cases), shard):
            part = cases[k:k + shard]
            v, out = eval_cases(ck, "C10_%s_%d" % (tag, k // shard), bases, part)
            if v is None:
                ck.obligation("sqlinject cases evaluated inside Coq", False, out[-1500:])
                return
            verd_all.update(v)
        for c in cases:
            by_id[c["id"]] = c
            total += 1
            hist[c["class"]] = hist.get(c["class"], 0) + 1
            sites[c["site"]] = sites.get(c["site"], 0) + 1
            v = bytes.fromhex(c["val"])
            if any(ch in v for ch in b"'\\\x00\n\r\x08\t\x1a%_-/*#") or any(ch >= 0x80 for ch in v):
                distinct.add(c["site"] + "|" + c["val"])
    ck.obligation("every site has a baseline statement", nbad_base == 0, "%d cases without baseline" % nbad_base)

    mism = sorted(i for i, v in verd_all.items() if v in (7, 8, 10))
    viol = sorted(i for i, v in verd_all.items() if v in (1, 2, 4, 5))
    ck.obligation("spec oracle: token skeleton and literal meaning preserved on %d statements" % total, not viol,
                  "violating case ids: %s" % viol[:10])
    ck.obligation("correspondence: every statement = its baseline shape instantiated with the model's quote/doLike text; every shape passes tpl_ok", not mism,
                  "mismatching case ids: %s" % mism[:10])
    if viol:
        # structural breaks first, then shortest value
        worst = min((by_id[i] for i in viol), key=lambda c: (0 if verd_all[c["id"]] in (1, 2) else 1, len(c["val"])))
        ck.violation({"property": "C10", "kind": CODE[verd_all[worst["id"]]], "case": describe(worst),
                      "replay": "harness sqlinject --cases <file with {site,val} of this case>"})
    elif mism:
        worst = min((by_id[i] for i in mism), key=lambda c: len(c["val"]))
        ck.violation({"property": "C10", "kind": CODE[verd_all[worst["id"]]], "case": describe(worst),
                      "broken": "correspondence model/Quote.v + model/Like.v vs implementation"}, no_input=True)
    ck.coverage["evaluations"] += total
    ck.coverage["distinct_nontrivial"] += len(distinct)
    ck.coverage["rule"] += ("hostile byte strings (dictionary atoms: quotes, backslashes, NUL/control bytes, comment markers, "
                            "LIKE wildcards, multi-byte and invalid UTF-8, SQL fragments; random bytes) placed in one string position of "
                            "one query shape per case; non-trivial = the value contains at least one byte that the escaper, the "
                            "ClickHouse lexer or LIKE treats specially, or a non-ASCII byte; distinct by (site, value). ")
    ck.extra["input_distribution"] = {"classes": hist, "sites": sites, "rejected_by_parser_or_planner": rejs,
                                      "verdict_codes": CODE}
    samples = [by_id[i] for i in list(by_id)[:400:140]]

    def around(c):
        q = bytes.fromhex(c["sql"])
        k = q.find(bytes.fromhex(c["val"])[:2]) if c["val"] else -1
        k = max(0, k - 60) if k >= 0 else max(0, len(q) - 160)
        return q[k:k + 170].decode("utf8", "backslashreplace")
    ck.add_samples([{"site": c["site"], "value": bytes.fromhex(c["val"]).decode("utf8", "backslashreplace"),
                     "statement_excerpt": around(c)} for c in samples])


def run_sites(ck):
    """translator-generated obligations, with named diagnostics before the theorems are compiled"""
    gen = os.path.join(VERIF, "translate", "gen_sqlsites")
    rc, out = vcheck.sh([gen], timeout=300, env=vcheck.go_env())
    ck.checker_cmds.append("translate/gen_sqlsites")
    ck.log(out.strip()[-300:])
    if not ck.obligation("translator gen_sqlsites regenerated coq/gen/GenC10Sites.v from the source", rc == 0, out[-1500:]):
        return
    ok, out = ck.coq_make(["gen/GenC10Sites.vo"])
    if not ck.obligation("gen/GenC10Sites.v compiles", ok, out[-1500:]):
        return
    txt = ("From Coq Require Import List String ZArith.\nFrom Qryn Require Import model.Quote model.Like model.SqlSites gen.GenC10Sites.\n"
           "Definition U := Eval vm_compute in unsafe_sites gen_sql_sites.\nPrint U.\n"
           "Definition T := Eval vm_compute in (List.length gen_sql_sites, alphabets_plain gen_ident_alphabets).\nPrint T.\n")
    rc, out = ck.coq_eval("C10_sites", txt)
    flat = " ".join(out.split())
    m = re.search(r"U = (.*?) : list \(string \* Z\)", flat)
    if rc != 0 or not m:
        ck.obligation("site census evaluated inside Coq", False, out[-1500:])
        return
    bad = re.findall(r'\("([^"]+)", (\d+)(?:%Z)?\)', m.group(1))
    meta = json.load(open(os.path.join(VERIF, "coq", "gen", "GenC10Sites.json")))
    ck.extra["sql_sites"] = {"count": len(meta["sites"]), "excluded_functions": meta["excluded"],
                             "argument_classes": {}}
    for s in meta["sites"]:
        for p in s["pieces"]:
            if p["t"] == "arg":
                ck.extra["sql_sites"]["argument_classes"][p["k"]] = ck.extra["sql_sites"]["argument_classes"].get(p["k"], 0) + 1
    detail = ""
    if bad:
        rows = []
        for f, ln in bad[:5]:
            st = [s for s in meta["sites"] if s["file"] == f and str(s["line"]) == ln]
            rows.append("%s:%s %s" % (f, ln, json.dumps(st[0]["pieces"]) if st else ""))
        detail = "; ".join(rows)
    ck.obligation("every SQL construction site (%d) formats only classified material and keeps quoted values where a quote opens a literal" % len(meta["sites"]),
                  not bad, detail)
    if bad:
        f, ln = bad[0]
        st = [s for s in meta["sites"] if s["file"] == f and str(s["line"]) == ln]
        ck.violation({"property": "C10", "kind": "SQL text is built from an argument of unknown provenance, or a quoted value is placed where a quote does not open a literal",
                      "site": st[0] if st else {"file": f, "line": ln}, "all_unsafe_sites": bad,
                      "explanation": "model/SqlSites.v safe_site rejects this site of coq/gen/GenC10Sites.v (theorem all_sql_sites_classified no longer holds)"},
                     no_input=True)


def run_replay(ck):
    """bin/check C10 --replay <file>: re-run the (site, value) of a replay file against the current tree"""
    o = json.load(open(ck.replay))
    c = o.get("case")
    if not c:
        ck.log("replay without a concrete input (%s): re-running the site census" % o.get("kind"))
        run_sites(ck)
        return
    if not ck.go_build("sqlinject"):
        ck.obligation("harness sqlinject builds against the repository", False, ck.build_out[-1500:])
        return
    inp = os.path.join(ck.work, "replay_in.jsonl")
    open(inp, "w").write(json.dumps({"site": c["site"], "val": c["val"]}) + "\n")
    outp = os.path.join(ck.work, "replay_out.jsonl")
    rc, out = ck.go_run("sqlinject", ["--cases", inp, "--out", outp])
    bases, cases, rej = load(outp)
    if rc != 0 or (not cases and not rej):
        ck.obligation("replay ran", False, out[-1500:])
        return
    if rej:
        ck.log("the request is rejected before any statement: %s" % rej[0].get("rej"))
    verd = {}
    if cases:
        verd, out = eval_cases(ck, "C10_replay", bases, cases)
        if verd is None:
            ck.obligation("replay evaluated inside Coq", False, out[-1500:])
            return
    ck.coverage["evaluations"] += len(cases)
    ck.obligation("replayed input %r at %s keeps the statement structure" % (bytes.fromhex(c["val"]), c["site"]), not verd,
                  "; ".join(CODE.get(v, str(v)) for v in verd.values()))
    for cs in cases:
        if cs["id"] in verd:
            ck.violation({"property": "C10", "kind": CODE.get(verd[cs["id"]]), "case": describe(cs)})
            break


def run(ck):
    if ck.replay:
        return run_replay(ck)
    ck.trusted += [
        "C10: model/ChLex.v is a transcription of the ClickHouse lexer (Lexer.cpp) and literal decoder (ReadHelpers.cpp) from the ClickHouse sources/documentation; heredocs and Unicode quotes outside literals are not modelled",
        "C10: LIKE pattern meaning (model/Like.v like_parse) follows ClickHouse likePatternToRegexp",
        "C10: the syntactic provenance rules of translate/sqlsites_src (reviewed selector table, sink constructors, two excluded functions) decide the class of each formatted argument; everything outside them is KUnclassified",
        "C10: strings.NewReplacer with one-byte search strings is a single-pass per-byte map; strings.Replace(s, old, new, -1) is leftmost non-overlapping replacement",
    ]
    known = ck.known_findings()
    run_sites(ck)
    ck.coq_props()
    run_correspondence(ck, known)
