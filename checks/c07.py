"""C07 — the SQL generated for a LogQL log query selects exactly the matching lines.

Three layers (design.d/C07.md):
 1. theorems (props/C07.v): the SELECT produced by the planner model (model/LogqlPlan.v), evaluated by
    the ClickHouse-subset semantics (model/SqlEval.v, trusted), is the reference answer of
    model/LogqlSem.v - for every query of the fragment, every context, every database satisfying db_ok,
    under the guards the code needs (absent labels: defect #16; at most 63 matchers: UInt64 bitmask);
    the unguarded statement is refuted by vm_compute witnesses.
 2. planner text: checks/sqltext.run_logql - render(process(plan ast) ctx) = the SQL of the real Go
    planners, byte for byte (OCaml extraction).
 3. meaning of the IMPLEMENTATION's SQL on data (this file): queries of the fragment go through the real
    parser + planners (harness logqlsql); the SQL text is parsed back into the Sql.v tree
    (harness/sqlparse, validated by render(tree) = text), evaluated by the extracted SqlEval over small
    databases built from the query's own strings (harness logqlsem; regexp / ParseFloat tables from the
    real Go libraries), and the boolean spec oracle sem3_b (= logql_sem3) judges the rows. A wrong answer
    inside the guards is a VIOLATION with (query, ctx, db, expected, got) as replay; outside the guards
    it must coincide with the model's (proved) behaviour and is reported as the recorded finding.
"""
import json
import os
import shutil
import time

import vcheck
from checks import sqltext

ROOT = os.path.dirname(os.path.dirname(os.path.abspath(__file__)))

FINDING_ABSENT = "absent-label-matcher"
FINDING_WIDTH = "more-than-63-matchers"    # not a recorded finding (the generator stays below): a hit is a violation
FINDING_ORACLE = "oracle-disagreement"      # not a recorded finding: a hit is reported as a violation


def stage_deviation(stages):
    """the recorded deviation a pipeline ORDER outside the theorems' fragments falls in.  None: no deviation is recorded
    (drop-then-line-filter, drop-then-simple-filter and filter-sees-later-relabel were repaired in /repo by 1c90aa9), so a
    wrong answer for any stage order is a violation."""
    return None


def ml_str(s):
    b = s.encode("utf8", "surrogateescape") if isinstance(s, str) else s
    out = []
    for c in b:
        if 32 <= c < 127 and c not in (34, 92):
            out.append(chr(c))
        else:
            out.append("\\%03d" % c)
    return '(s "%s")' % "".join(out)


def case_ml(c):
    return ("{ sc_id = z (%d); sc_q = %s; sc_ctx = %s; sc_fin = %s; sc_sql = %s; sc_tree = %s; sc_re = %s; sc_pf = %s; sc_jg = %s; sc_rg = %s; sc_dbs = %s }"
            % (c["id"], c["ast_ml"], c["ctx_ml"], "true" if c["ctx"].get("finalize", True) else "false", ml_str(c["sql"][0]), c["tree_ml"], c["re_ml"], c["pf_ml"], c.get("jg_ml") or "[]",
               c.get("rg_ml") or "[]", c["dbs_ml"]))


def recases_ml(rows):
    """the expressions of the regexp-stage search with what the planner's grammar made of them (hook VerifParseRe):
    the extracted transcription model/LogqlRegexp.v re_plan must give the same answer on each"""
    items = []
    for r in rows:
        if r.get("go_ok"):
            want = "Some (%s, [%s])" % (ml_str(r.get("stripped") or ""), "; ".join(ml_str(n) for n in (r.get("impl_names") or [])))
        else:
            want = "None"
        items.append("(%s, %s)" % (ml_str(r["re"]), want))
    return "let recases : (char list * (char list * char list list) option) list = [\n " + ";\n ".join(items) + "]\n"


def unhex(h):
    return bytes.fromhex(h).decode("utf8", "replace")


def parse_rows(txt):
    if txt == "-":
        return None
    rows = []
    for r in txt.split(";") if txt else []:
        if r == "?":
            rows.append("unreadable row")
            continue
        fp, ts, line, labels = r.split(",")
        ls = {}
        for kv in labels.split("&") if labels else []:
            k, v = kv.split("=")
            ls[unhex(k)] = unhex(v)
        rows.append({"fp": int(fp), "ts": int(ts), "line": unhex(line), "labels": ls})
    return rows


def ocaml_eval_bytecode(ck, name, cases_ml, timeout=1500):
    """like ck.ocaml_eval, but the case file is compiled with ocamlc: the generated terms (SQL trees, databases,
    oracle tables: ~15 KB of OCaml per case) take ocamlopt ~0.45 s per case and ocamlc ~0.02 s"""
    d = os.path.join(vcheck.BUILD, "ocaml", vcheck.repo_tag(), name)
    os.makedirs(d, exist_ok=True)
    t = time.time()
    rc, out = vcheck.sh(["coqc", "-R", vcheck.COQ, "Qryn", "-w", "-extraction", "-o", os.path.join(d, "ExtractC07.vo"),
                         os.path.join(vcheck.COQ, "extract", "ExtractC07.v")], cwd=d, timeout=600)
    if rc != 0:
        return rc, "extraction failed: " + out[-2000:]
    prelude = open(os.path.join(vcheck.VERIF, "ocaml", "prelude.ml")).read()
    open(os.path.join(d, "cases.ml"), "w").write("open C07sem\n%s\n%s\n" % (prelude, cases_ml))
    shutil.copy(os.path.join(vcheck.VERIF, "ocaml", "c07_driver.ml"), os.path.join(d, "driver.ml"))
    rc, out = vcheck.sh(["sh", "-c", "ulimit -s unlimited 2>/dev/null; exec ocamlfind ocamlc -w -a -o run c07sem.mli c07sem.ml cases.ml driver.ml"],
                        cwd=d, timeout=timeout)
    if rc != 0:
        return rc, "ocaml build failed: " + out[-3000:]
    tb = time.time() - t
    rc, out = vcheck.sh(["sh", "-c", "ulimit -s unlimited 2>/dev/null; exec ./run"], cwd=d, timeout=timeout)
    ck.log("ocaml eval %s rc=%d (extract+build %.1fs, total %.1fs)" % (name, rc, tb, time.time() - t))
    ck.checker_cmds.append("coqc extract/ExtractC07.v -> ocamlc -> run (SqlEval, planner model and spec oracle on the implementation's SQL)")
    return rc, out


def eval_sem(ck, name, cases, recases=None, jobs=4):
    """eval_sem_one over `jobs` interleaved parts of the cases, each compiled and run in a directory and a process of its
    own at the same time (compiling the generated terms and running them is the longest step of the check and has no
    shared state); the expressions of the regexp grammar tie go with the first part"""
    if len(cases) < 40 or jobs < 2:
        return eval_sem_one(ck, name, cases, recases)
    from concurrent.futures import ThreadPoolExecutor
    parts = [cases[j::jobs] for j in range(jobs)]
    with ThreadPoolExecutor(max_workers=jobs) as ex:
        futs = [ex.submit(eval_sem_one, ck, "%s_%d" % (name, j), parts[j], recases if j == 0 else None) for j in range(jobs)]
        outs = [f.result() for f in futs]
    res, log = {}, ""
    for r, out in outs:
        if r is None:
            return None, out
        res.update(r)
        log += out
    return res, log


def eval_sem_one(ck, name, cases, recases=None):
    """{id: {"c": [fragment,width,ctx_ok,text_ok,model_sel], "dbs": [{...}]}} via the extracted check_case"""
    chunks = [recases_ml(recases or [])]
    for k in range(0, len(cases), 25):
        chunks.append("let chunk%d = [\n " % (k // 25) + ";\n ".join(case_ml(c) for c in cases[k:k + 25]) + "]\n")
    txt = "".join(chunks) + "let cases = List.concat [" + "; ".join("chunk%d" % i for i in range(len(chunks) - 1)) + "]\n"
    rc, out = ocaml_eval_bytecode(ck, name, txt)
    if rc != 0:
        return None, out
    res = {}
    for ln in out.splitlines():
        p = ln.split(" ")
        if p[0] == "C":
            res[int(p[1])] = {"fragment": p[2] == "1", "width": p[3] == "1", "ctx_ok": p[4] == "1", "text_ok": p[5] == "1",
                              "model_sel": p[6] == "1", "wrefs": p[7] == "1", "fragment2": p[8] == "1",
                              "model_text": len(p) > 9 and p[9] == "1", "fragment3": len(p) > 10 and p[10] == "1",
                              "ref_defined": len(p) <= 11 or p[11] == "1", "dbs": []}
        elif p[0] == "D":
            res[int(p[1])]["dbs"].append({"db_ok": p[3] == "1", "absent": p[4] == "1", "oracle": p[5] == "1",
                                          "impl": int(p[6]), "rev": int(p[7]), "model": int(p[8]), "same": p[9] == "1",
                                          "nwant": int(p[10]), "nsamples": int(p[11])})
        elif p[0] == "W":
            res[int(p[1])]["dbs"][int(p[2])]["want"] = parse_rows(p[3] if len(p) > 3 else "")
        elif p[0] == "G":
            res[int(p[1])]["dbs"][int(p[2])]["got"] = parse_rows(p[3] if len(p) > 3 else "")
        elif p[0] == "R" and recases is not None:
            recases[int(p[1])]["model_same"] = p[2] == "1"
    return res, out


DAY_NS = 86400 * 10**9


def scanned_window(sql):
    """[from, to) of the scan of the samples table as the statement text names it (diagnosis only)"""
    import re
    m = re.search(r"timestamp_ns\) >= \((\d+)\)\) and \(\(samples\.timestamp_ns\) < \((\d+)\)", sql or "")
    return [int(m.group(1)), int(m.group(2))] if m else None


def zone_days(ctx):
    """(UTC day, day in the case's process zone) of the instant 30 minutes before the window start: the first is the day
    bound the statement must carry (the writer dates index rows by the UTC day), the second what a bound formatted in the
    zone of the process would print"""
    import datetime
    import zoneinfo
    x = ctx["from_ns"] - 1800 * 10**9
    utc = x // DAY_NS
    tz = ctx.get("tz")
    if not tz:
        return utc, utc
    t = datetime.datetime.fromtimestamp(x // 10**9, zoneinfo.ZoneInfo(tz))
    return utc, (t.date() - datetime.date(1970, 1, 1)).days


def zone_coverage(ck, res, byid):
    """how far the search reaches the process zone: evaluated cases per zone, those whose zone is on another calendar day
    than UTC at (start - 30 min), and the databases among them in which a line of the reference answer belongs to a stream
    whose index rows all carry days before the zone's day (the stream a day bound printed in that zone loses)"""
    per_zone, differ_east, differ_west, exposing = {}, 0, 0, 0
    for cid, v in res.items():
        c = byid[cid]
        tz = c["ctx"].get("tz")
        if not tz or not v["ctx_ok"]:
            continue
        per_zone[tz] = per_zone.get(tz, 0) + 1
        utc, loc = zone_days(c["ctx"])
        if loc < utc:
            differ_west += 1
        if loc <= utc:
            continue
        differ_east += 1
        for k, d in enumerate(v["dbs"]):
            db = c["dbs"][k]
            last = {}
            for s in db["series"]:
                last[s["fp"]] = max(last.get(s["fp"], -1), s["day"])
            lo, hi = c["ctx"]["from_ns"], c["ctx"]["to_ns"]
            if d["nwant"] > 0 and any(lo <= x["ts"] < hi and last.get(x["fp"], loc) < loc for x in db["samples"]):
                exposing += 1
    ck.obligation("process zones: the search plans cases under zones east and west of UTC with windows on which the zone's calendar day is not the UTC day, "
                  "and evaluates databases holding a stream indexed only before the zone's day (%d cases under %d zones; zone day after / before the UTC day: %d / %d; "
                  "such databases with a non-empty reference answer: %d)" % (sum(per_zone.values()), len(per_zone), differ_east, differ_west, exposing),
                  ck.replay or (differ_east >= 8 and differ_west >= 3 and exposing >= 8), "")
    ck.extra.setdefault("input_distribution", {})["process_zones (semantic search)"] = {
        "cases_per_zone": per_zone, "zone_day_after_utc_day": differ_east, "zone_day_before_utc_day": differ_west,
        "databases_with_a_wanted_line_of_a_stream_indexed_only_before_the_zone_day": exposing}


def reexec_coverage(ck, res, byid):
    """how far the search reaches re-execution: cases whose judged statement is the one a re-used plan object returned for a
    later window, those with a label filter behind a relabelling stage, and the evaluations among them that tell the two
    windows apart (the reference for the last window keeps a line, or the database holds a line of the first window only)"""
    n, behind, wanted, stale, three, day_back, day_back_wanted = 0, 0, 0, 0, 0, 0, 0
    for cid, v in res.items():
        c = byid[cid]
        if not c.get("rewin") or not v["ctx_ok"]:
            continue
        n += 1
        three += 1 if len(c["rewin"]) > 1 else 0
        behind += 1 if "filter-behind-relabel" in (c.get("class") or []) else 0
        f = c["first_ctx"]
        lo, hi = c["ctx"]["from_ns"], c["ctx"]["to_ns"]
        d1, d2 = (f["from_ns"] - 1800 * 10**9) // DAY_NS, (lo - 1800 * 10**9) // DAY_NS
        day_back += 1 if d2 < d1 else 0
        if d2 < d1:    # databases in which a wanted line belongs to a stream indexed only before the first call's day bound
            for k, d in enumerate(v["dbs"]):
                last = {}
                for s in c["dbs"][k]["series"]:
                    last[s["fp"]] = max(last.get(s["fp"], -1), s["day"])
                if d["nwant"] > 0 and any(lo <= x["ts"] < hi and last.get(x["fp"], d1) < d1 for x in c["dbs"][k]["samples"]):
                    day_back_wanted += 1
        for k, d in enumerate(v["dbs"]):
            wanted += 1 if d["nwant"] > 0 else 0
            stale += 1 if any(f["from_ns"] <= x["ts"] < f["to_ns"] and not lo <= x["ts"] < hi for x in c["dbs"][k]["samples"]) else 0
    ck.obligation("re-execution: one plan object processed two or three times with different windows (tail), the LAST statement judged against the LAST window "
                  "(%d cases, %d with three calls, %d with a label filter behind json / regexp / drop; evaluations whose reference keeps a line: %d; "
                  "databases holding a line inside the first window and outside the last: %d; cases whose last window has an EARLIER day bound than the first: %d, "
                  "databases among them with a wanted line of a stream indexed only before the first call's day: %d)" % (n, three, behind, wanted, stale, day_back, day_back_wanted),
                  ck.replay or (n >= 30 and behind >= 12 and wanted >= 15 and stale >= 40 and day_back >= 3 and day_back_wanted >= 2), "")
    ck.extra.setdefault("input_distribution", {})["re_execution (semantic search)"] = {
        "cases": n, "three_calls": three, "label_filter_behind_relabelling_stage": behind,
        "evaluations_whose_reference_keeps_a_line": wanted, "databases_with_a_line_of_the_first_window_only": stale,
        "last_window_has_an_earlier_day_bound": day_back, "databases_with_a_wanted_line_of_a_stream_indexed_only_before_the_first_day_bound": day_back_wanted}


def unfinalized_coverage(ck, res, byid):
    """round 8: the configuration branch `if !ctx.CHFinalize { return req, nil }` of MainFinalizerPlanner. Cases planned under a
    context WITHOUT the flag (class ch-finalize-off): the statement must be the operand (no `prefinal`), agree with the model's
    statement byte for byte, and return the reference answer (theorem logql_log_correct_any_finalize)."""
    n, in_thm, no_prefinal, model_text, evals, wanted, cut, frag = 0, 0, 0, 0, 0, 0, 0, [0, 0, 0]
    for cid, v in res.items():
        c = byid[cid]
        if not c["ctx"].get("no_ch_finalize"):
            continue
        n += 1
        no_prefinal += 1 if "prefinal" not in c["sql"][0] else 0
        if not v["ctx_ok"]:
            continue
        if v["fragment"] or v["fragment2"] or v["fragment3"]:
            in_thm += 1
            frag[0 if v["fragment"] else 1 if v["fragment2"] else 2] += 1
            model_text += 1 if v["model_text"] else 0
        for k, d in enumerate(v["dbs"]):
            evals += 1
            wanted += 1 if d["nwant"] > 0 else 0
            cut += 1 if 0 < c["ctx"]["limit"] < d["nwant"] else 0
    ck.obligation("CHFinalize not set (MainFinalizerPlanner returns the select under the outermost one): %d cases planned by the real planners under such a "
                  "context, %d statements without `prefinal`, %d inside the theorems' fragments (filters only / relabelling / line_format: %s), %d of them "
                  "byte-identical to the model's statement; %d evaluations, %d whose reference keeps a line, %d where the limit cuts the answer"
                  % (n, no_prefinal, in_thm, "/".join(map(str, frag)), model_text, evals, wanted, cut),
                  ck.replay or (n >= 20 and no_prefinal == n and in_thm >= 15 and model_text == in_thm and wanted >= 20 and cut >= 3), "")
    ck.extra.setdefault("input_distribution", {})["ch_finalize_off (semantic search)"] = {
        "cases": n, "statements_without_prefinal": no_prefinal, "inside_the_fragments": in_thm, "fragments_1_2_3": frag,
        "byte_identical_to_the_model": model_text, "evaluations": evals, "evaluations_whose_reference_keeps_a_line": wanted,
        "evaluations_where_the_limit_cuts_the_answer": cut}


def pipeline(ck, tag, cases, ndb):
    """cases (query, ctx) -> real parser/planner (logqlsql) -> databases, oracle tables, parsed SQL (logqlsem)"""
    a = os.path.join(ck.work, tag + "_in.jsonl")
    b = os.path.join(ck.work, tag + "_sql.jsonl")
    c = os.path.join(ck.work, tag + "_enriched.jsonl")
    with open(a, "w") as f:
        for x in cases:
            f.write(json.dumps(x) + "\n")
    rc, out = ck.go_run("logqlsql", ["--cases", a, "--out", b], timeout=900)
    if rc != 0:
        return None, out
    fixed = {x["id"]: x["dbs"] for x in cases if x.get("dbs")}     # corpus cases bring their databases
    if fixed:
        rows = [json.loads(l) for l in open(b)]
        with open(b, "w") as f:
            for x in rows:
                if x["id"] in fixed:
                    x["dbs"] = fixed[x["id"]]
                f.write(json.dumps(x) + "\n")
    rc, out = ck.go_run("logqlsem", ["--mode", "enrich", "--seed", ck.seed, "--dbs", ndb, "--cases", b, "--out", c], timeout=900)
    if rc != 0:
        return None, out
    return [json.loads(l) for l in open(c)], ""


def run_semantic(ck, text_cases, recases=None):
    if not ck.go_build("logqlsem") or not ck.go_build("logqlsql"):
        ck.obligation("harness logqlsem / logqlsql build against the repository", False, ck.build_out[-1500:])
        return
    ok, out = ck.coq_make(["model/LogqlSemCheck.vo"])
    if not ok:
        ck.obligation("failing-input search model builds", False, out[-1500:])
        return
    # the database builder on queries with non-ASCII values (round 5: regression of the thorough-tier db_ok failure)
    st_f = os.path.join(ck.work, "dbselftest.jsonl")
    rc, out = ck.go_run("logqlsem", ["--mode", "dbselftest", "--seed", ck.seed, "--n", ck.n(150, 3000), "--out", st_f])
    st = [json.loads(l) for l in open(st_f)] if rc == 0 else []
    st_bad = [r for r in st if r.get("bad")]
    ck.obligation("database builder of the failing-input search on queries with non-ASCII values: one label set per fingerprint (byte by byte), "
                  "distinct label names, every string UTF-8 (the JSON replay carries the evaluated database), a series row for every sample "
                  "(%d queries, %d databases, %d non-ASCII label values)" % (len(st), sum(r["dbs"] for r in st), sum(r["non_ascii_values"] for r in st)),
                  rc == 0 and st and not st_bad and all(r["non_ascii_values"] > 0 for r in st),
                  out[-500:] if rc != 0 else "; ".join("%s: %s" % (r["query"], r["bad"]) for r in st_bad[:2]))
    ck.extra.setdefault("input_distribution", {})["database_builder_selftest (non-ASCII queries)"] = {
        "queries": len(st), "databases": sum(r["dbs"] for r in st), "non_ascii_label_values": sum(r["non_ascii_values"] for r in st)}
    n = ck.n(260, 4000)
    ndb = ck.n(5, 10)
    gen = os.path.join(ck.work, "sem_gen.jsonl")
    rc, out = ck.go_run("logqlsem", ["--mode", "gen", "--seed", ck.seed, "--n", n, "--out", gen])
    if rc != 0:
        ck.obligation("harness logqlsem generated cases", False, out[-1500:])
        return
    todo = []
    # corpus first: witnesses of recorded findings and of fixed defects, with their databases
    corpus = os.path.join(ROOT, "corpus", "C07", "sem.jsonl")
    if os.path.exists(corpus):
        for i, l in enumerate(open(corpus)):
            if l.strip():
                c = json.loads(l)
                c["id"] = 3000000 + i
                c["origin"] = "corpus"
                todo.append(c)
    for l in open(gen):
        c = json.loads(l)
        c["origin"] = "gen"
        todo.append(c)
    # queries of the general generator (sqltext) and, first of all, those whose SQL text left the model
    mism_ids = set()
    extra = []
    for c in (getattr(ck, "sql_mismatch_cases", []) or [])[:120]:     # (a change that moves every statement: the first 120 are enough)
        extra.append(c)
        mism_ids.add(2000000 + len(extra) - 1)
    for c in text_cases or []:
        if len(extra) >= ck.n(160, 3000):
            break
        if c.get("err") in (None, "") and c.get("class") is not None and set(c["class"]) <= {"linefilter", "labelfilter"} and c not in extra:
            extra.append(c)
    for i, c in enumerate(extra):
        ctx = dict(c["ctx"])
        # (cluster contexts keep their inline rendering: prep reads `(SELECT ...) as alias` back as the WithRef)
        ctx["finalize"] = True
        todo.append({"id": 2000000 + i, "query": c["query"], "ctx": ctx, "runs": 1, "class": c.get("class") or [], "origin": "text"})
    enriched, out = pipeline(ck, "sem", todo, ndb)
    if enriched is None:
        ck.obligation("harness logqlsql / logqlsem ran", False, out[-1500:])
        return
    origin = {c["id"]: c.get("origin") for c in todo}
    usable = [c for c in enriched if not c.get("skip")]
    skipped = {}
    for c in enriched:
        if c.get("skip"):
            k = c["skip"].split(":")[0][:40]
            skipped[k] = skipped.get(k, 0) + 1
    res = {}
    shard = 1000
    for k in range(0, len(usable), shard):
        r, out = eval_sem(ck, "c07sem", usable[k:k + shard], recases if k == 0 else None)
        if r is None:
            ck.obligation("failing-input search evaluated by the extracted model", False, out[-2500:])
            return
        res.update(r)
    byid = {c["id"]: c for c in usable}
    known = ck.known_findings()
    n_eval = 0
    nontrivial = set()
    not_text_ok, machinery, undecided, violations, findings_hit = [], [], [], [], {}
    theorem_evals = 0
    no_reference = []
    per_class = {}     # class -> [guarded evaluations, non-trivial ones, evaluations where the reference keeps a line]
    for cid, v in res.items():
        c = byid[cid]
        if not v["ctx_ok"]:
            continue
        if not v["ref_defined"]:
            # a line_format template without a reference value (field chains, pipes, the dot ...): run_lstages answers None
            # for every line; "no line" is not an expectation. Reached only through queries whose TEXT left the model.
            no_reference.append(c["query"])
            continue
        in_thm = v["fragment"] or v["fragment2"] or v["fragment3"]
        dev = None if in_thm else stage_deviation(c.get("stages"))
        if not v["text_ok"]:
            not_text_ok.append(c)
            continue
        for k, d in enumerate(v["dbs"]):
            n_eval += 1
            db = c["dbs"][k]
            if not d["db_ok"]:
                machinery.append((c, k, "generated database violates db_ok"))
                continue
            guards = in_thm and v["width"] and d["absent"] and d["oracle"]
            outside_ok = (not in_thm) and v["width"] and d["absent"] and d["oracle"]
            if 0 < d["nwant"] < d["nsamples"] or (d["nwant"] > 1 and c["ctx"]["limit"] not in (0,) and c["ctx"]["limit"] < d["nwant"]):
                nontrivial.add(json.dumps([c["query"], c["ctx"], db], sort_keys=True))
            if guards:
                theorem_evals += 1
                for k2 in set(c.get("class") or ["plain-selector"]):
                    pc = per_class.setdefault(k2, [0, 0, 0])
                    pc[0] += 1
                    pc[1] += 1 if 0 < d["nwant"] < d["nsamples"] else 0
                    pc[2] += 1 if d["nwant"] > 0 else 0
                if d["model"] != 0:
                    machinery.append((c, k, "the model's SELECT is not the reference answer inside the guards (contradicts logql_log_correct_all): verdict %d" % d["model"]))
            bad = d["impl"] == 1 or d["rev"] == 1
            if not bad and d["impl"] == 2 and (guards or outside_ok):
                undecided.append((c, k))
            if not bad:
                continue
            rep = {"property": "C07", "kind": "the SQL of the implementation does not return the reference answer",
                   "query": c["query"], "ctx": c["ctx"], "process_zone": "TZ=%s" % (c["ctx"].get("tz") or "UTC"),
                   "db": db, "expected": d.get("want"), "got": d.get("got"),
                   "expected_is": ("every matching line (model/LogqlSem.v log_rows3; behind a line_format the line is the executed template); with ctx.limit = L > 0 the answer must be some top-L subset of it in the query direction"
                                   if c["ctx"].get("finalize", True) else
                                   "Plan(script, false), the statement that feeds the in-process engine: EVERY matching line whatever ctx.limit says, in timestamp order of the query direction"),
                   "sql": c["sql"][0], "guards": {"width<=63": v["width"], "absent_guard": d["absent"], "oracle_ok": d["oracle"]},
                   "same_as_model": d["same"], "origin": origin.get(cid),
                   "replay": "harness logqlsql --cases <query,ctx> gives the SQL (ctx.tz = the zone of the reader process: the harness sets time.Local to it, "
                             "as starting the reader with TZ=<zone> does); evaluate it over db (model/SqlEval.v) or on a ClickHouse with these rows; "
                             "bin/check C07 --replay <this file> does both"}
            if c.get("rewin"):
                # re-execution: the statement judged is the one the plan object returned for its LAST window
                rep["kind"] = ("the SQL a RE-USED plan object returns for its next window does not return the reference answer for that window "
                               "(one plan, %d Process calls with different windows, as a tail does; the last statement is judged)" % (len(c["rewin"]) + 1))
                rep["first_ctx"], rep["rewin"], rep["first_sql"] = c.get("first_ctx"), c["rewin"], c.get("first_sql")
                rep["ctx_is"] = "the context of the LAST Process call (window rewin[-1]); first_ctx = the context of the first call of the same plan object"
                rep["window_the_statement_scans"] = scanned_window(c["sql"][0])
                rep["replay"] = ("harness logqlsql --cases <query, ctx = first_ctx, runs = %d, rewin> processes ONE plan with these windows and prints one statement per call; "
                                 "evaluate the last one over db; bin/check C07 --replay <this file> does both" % (len(c["rewin"]) + 1))
            if guards or not d["same"]:
                violations.append(rep)
            else:
                fid = FINDING_WIDTH if not v["width"] else FINDING_ABSENT if not d["absent"] else FINDING_ORACLE if not d["oracle"] else (dev or "unrecorded-deviation")
                findings_hit.setdefault(fid, []).append(rep)
    zone_coverage(ck, res, byid)
    reexec_coverage(ck, res, byid)
    unfinalized_coverage(ck, res, byid)
    unbound = [byid[i]["query"] for i, v in res.items() if not v["wrefs"]]
    ck.obligation("every WithRef of the model's SELECT carries the query that the WITH list binds to its alias (%d plans)" % len(res),
                  not unbound, "; ".join(unbound[:3]))
    off_text = [byid[i] for i, v in res.items() if v["ctx_ok"] and (v["fragment"] or v["fragment2"] or v["fragment3"]) and not v["model_text"]]
    ck.obligation("the planner model's SQL is the implementation's SQL, byte for byte, on every fragment case of the semantic search "
                  "(%d cases: regexp stages, relabelling orders, cluster-inlined and Plan(script,false) texts that the general generator does not emit)"
                  % sum(1 for v in res.values() if v["ctx_ok"] and (v["fragment"] or v["fragment2"] or v["fragment3"])),
                  not off_text, "%d differ; first: %s" % (len(off_text), off_text[0]["query"] if off_text else ""))
    if off_text and not getattr(ck, "sql_mismatch_cases", None):
        ck.sql_mismatch_cases = [{"query": c["query"], "ctx": c["ctx"], "diff": "model text differs from the implementation's (semantic-search case)"} for c in off_text[:20]]
    ck.obligation("failing-input search: render(prep(sqlparse(SQL))) = SQL on every fragment case (%d cases)" % len(res),
                  not not_text_ok, "; ".join(c["query"] for c in not_text_ok[:3]))
    ck.obligation("failing-input search machinery: generated databases satisfy db_ok; the extracted model agrees with logql_log_partial / logql_log_partial_parsers / logql_log_line_format on %d guarded evaluations" % theorem_evals,
                  not machinery, "; ".join("%s db#%d: %s" % (c["query"], k, why) for c, k, why in machinery[:3]))
    ck.obligation("the implementation's SQL evaluates inside the modelled ClickHouse subset on every guarded database",
                  not undecided, "; ".join("%s db#%d" % (c["query"], k) for c, k in undecided[:3]))
    for fid, reps in findings_hit.items():
        if fid in known:
            r = min(reps, key=lambda x: len(json.dumps(x)))
            ck.report_known(fid, "%s over %s -> expected %d rows, got %s" % (
                r["query"], json.dumps(r["db"]["series"])[:160], len(r["expected"] or []), len(r["got"]) if r["got"] is not None else "-"))
        else:
            violations += reps
    ck.obligation("spec oracle sem3_b accepts the rows of the implementation's SQL on every guarded (query, ctx, database)",
                  not violations, "%d wrong answers; first: %s" % (len(violations), violations[0]["query"] if violations else ""))
    if violations:
        worst = min(violations, key=lambda x: (len(x.get("rewin") or []), len(x["db"]["samples"]) + len(x["db"]["series"]), len(x["query"])))
        ck.violation(worst)
    elif getattr(ck, "sql_mismatch_cases", None):
        # the text left the model but no database of the search tells the two SELECTs apart
        mm = ck.sql_mismatch_cases
        judged = [i for i in mism_ids if i in res and res[i]["fragment"] and res[i]["text_ok"]]
        ck.violation({"property": "C07", "kind": "SQL text differs from the planner model; no failing input found",
                      "text_mismatches": len(mm), "first": [{"query": c["query"], "ctx": c["ctx"], "diff": c.get("diff")} for c in mm[:5]],
                      "semantic_search": "the implementation's SQL returned the reference answer on all %d guarded evaluations; %d of the %d mismatching queries are inside the modelled fragment and were evaluated"
                                         % (theorem_evals, len(judged), len(mm))}, no_input=True)
    ck.coverage["evaluations"] += n_eval
    ck.coverage["distinct_nontrivial"] += len(nontrivial)
    ck.coverage["rule"] += ("semantic layer: (query, ctx, database) triples; the implementation's SQL is evaluated twice (two tie-breakings) and judged by sem3_b (= logql_sem3, spec_oracle3_decides); "
                            "non-trivial = the reference answer keeps some samples and drops others, or a LIMIT cuts it; distinct by content. ")
    ck.extra.setdefault("input_distribution", {})["cluster (WITH references printed inline)"] = sum(1 for i in res if byid[i]["ctx"].get("cluster"))
    ck.extra.setdefault("input_distribution", {})["plans"] = {
        "Plan(script, true)": sum(1 for i in res if byid[i]["ctx"].get("finalize", True)),
        "Plan(script, false) (breakpoint plans)": sum(1 for i in res if not byid[i]["ctx"].get("finalize", True))}
    classes = {}
    for cid in res:
        for k in set(byid[cid].get("class") or ["plain-selector"]):
            classes[k] = classes.get(k, 0) + 1
    ck.extra.setdefault("input_distribution", {}).update({
        "semantic_search_query_classes (a query counts once per class it has)": classes,
        "fragment (no parser/drop)": sum(1 for v in res.values() if v["fragment"]),
        "fragment2 (json/regexp/drop, any order)": sum(1 for v in res.values() if v["fragment2"]),
        "fragment3 (line_format: the line travels with the state)": sum(1 for v in res.values() if v["fragment3"])})
    ck.extra["sem_cases"] = {"evaluated_cases": len(res), "skipped": skipped,
                             "origins": {o: sum(1 for i in res if origin.get(i) == o) for o in ("gen", "text", "corpus")},
                             "guarded_evaluations": theorem_evals,
                             "not_judged (a line_format template without a reference value)": len(no_reference),
                             "guarded_evaluations_per_class [all, reference keeps some lines and drops others, reference keeps a line]": per_class,
                             "finding_hits": {k: len(x) for k, x in findings_hit.items()}}
    samples = []
    for cid, v in list(res.items())[:400]:
        for k, d in enumerate(v["dbs"]):
            if 0 < d["nwant"] < d["nsamples"] and len(samples) < 3:
                samples.append({"query": byid[cid]["query"], "ctx": byid[cid]["ctx"], "db": byid[cid]["dbs"][k], "rows_wanted": d["nwant"],
                                "impl_verdict": d["impl"]})
    ck.add_samples(samples)


def gen_regroups(ck):
    """the expressions of the regexp-stage search (harness logqlsem --mode regroups)"""
    if not ck.go_build("logqlsem"):
        return None
    out_f = os.path.join(ck.work, "regroups.jsonl")
    n = ck.n(500, 20000)
    rc, out = ck.go_run("logqlsem", ["--mode", "regroups", "--seed", ck.seed, "--n", n, "--out", out_f])
    if rc != 0:
        ck.obligation("harness logqlsem --mode regroups ran", False, out[-1500:])
        return None
    return [json.loads(l) for l in open(out_f) if l.strip()]


def run_regroups(ck, rows):
    """the `| regexp` stage: the label names the planner pairs with the capture groups of the expression it sends,
    against Go's regexp (group i = i-th opening parenthesis), on generated expressions with nested / mixed groups;
    and the planner's grammar against its Coq transcription (re_plan) on the same expressions and on damaged ones"""
    if rows is None:
        return
    judged = [r for r in rows if "model_same" in r]
    differ = [r for r in judged if not r["model_same"]]
    ck.obligation("regexp stage: the transcribed grammar (model/LogqlRegexp.v re_plan: expression sent, label names, error) agrees with "
                  "ParserPlanner.parseRe / String / collectGroupNames on every generated expression (%d, %d of them damaged; %d rejected by both)"
                  % (len(judged), sum(1 for r in judged if r["class"] == "malformed"), sum(1 for r in judged if not r.get("go_ok"))),
                  judged and not differ and len(judged) == len(rows),
                  "%d differ; first: %r -> Go %s" % (len(differ), differ[0]["re"] if differ else "",
                                                    (differ[0].get("stripped"), differ[0].get("impl_names")) if differ and differ[0].get("go_ok") else "error"))
    if differ:
        w = min(differ, key=lambda r: len(r["re"]))
        ck.violation({"property": "C07", "kind": "the planner's regexp-stage grammar left its Coq transcription",
                      "query": w["query"], "expression": w["re"], "go_accepts": w.get("go_ok"), "expression_sent": w.get("stripped"),
                      "names_in_sql": w.get("impl_names"),
                      "expected_is": "model/LogqlRegexp.v re_plan: the text with every (?P<name> replaced by ( and the names in the order of the opening parentheses",
                      "replay": "harness logqlsem --mode regroups; clickhouse_planner.VerifParseRe(expression)"})
    hist = {}
    for r in rows:
        hist[r["class"]] = hist.get(r["class"], 0) + 1
    bad = [r for r in rows if not r["ok"]]
    ck.obligation("regexp stage: the planner's expression parser accepts every generated RE2 expression, the expression it sends has "
                  "the same capture groups, and its label names are paired with them in opening-parenthesis order "
                  "(%d expressions: %s)" % (len(rows), ", ".join("%s %d" % kv for kv in sorted(hist.items()))),
                  not bad and hist.get("nested-in-named", 0) >= 20,
                  "%d failing; first: %s -> %s" % (len(bad), bad[0]["re"] if bad else "", bad[0].get("why") if bad else "too few nested expressions"))
    ck.coverage["evaluations"] += len(rows)
    ck.extra.setdefault("input_distribution", {})["regexp_stage_expressions"] = hist
    if bad:
        w = min(bad, key=lambda r: (r.get("want") == r.get("got"), len(r["re"]), len(r["line"])))
        ck.violation({"property": "C07", "kind": "regexp stage pairs capture groups with the wrong label names",
                      "query": w["query"], "line": w["line"], "expression_sent": w.get("stripped"),
                      "names_in_sql": w.get("impl_names"), "names_by_opening_parenthesis": w.get("ref_names"),
                      "expected": w.get("want"), "got": w.get("got"), "why": w.get("why"),
                      "expected_is": "the labels a `| regexp` stage extracts from the line: capture group i (i-th opening parenthesis, as RE2 / "
                                     "extractAllGroupsHorizontal number them) under the name written in that group",
                      "replay": "harness logqlsem --mode regroups; or send the query to the reader over a stream holding the line"})


def run_replay(ck):
    """bin/check C07 --replay <file>: the (query, ctx, db) of a replay goes through the real parser and planners again,
    the SQL is evaluated over the recorded database and judged"""
    r = json.load(open(ck.replay))
    if "query" not in r:
        ck.obligation("replay file carries a (query, ctx, db) triple", False, "kind=%s" % r.get("kind"))
        return
    if not ck.go_build("logqlsem") or not ck.go_build("logqlsql"):
        ck.obligation("harness logqlsem / logqlsql build against the repository", False, ck.build_out[-1500:])
        return
    ok, out = ck.coq_make(["model/LogqlSemCheck.vo"])
    case = {"id": 1, "query": r["query"], "ctx": r["ctx"], "runs": 1, "class": [], "dbs": [r["db"]]}
    if r.get("rewin"):     # a re-execution replay: the plan is first processed with first_ctx, then with the windows of rewin
        case.update({"ctx": r["first_ctx"], "runs": len(r["rewin"]) + 1, "rewin": r["rewin"]})
    enriched, out = pipeline(ck, "replay", [case], 1)
    if enriched is None or enriched[0].get("skip"):
        ck.obligation("replay case prepared", False, (out or enriched[0].get("skip"))[-800:])
        return
    res, out = eval_sem(ck, "c07replay", enriched)
    if res is None:
        ck.obligation("replay evaluated by the extracted model", False, out[-1500:])
        return
    v = res[1]
    d = v["dbs"][0]
    bad = d["impl"] == 1 or d["rev"] == 1
    guards = v["width"] and d["absent"] and d["oracle"]
    ck.coverage["evaluations"] += 1
    ck.obligation("replay: the implementation's SQL returns the reference answer on the recorded database", not bad,
                  "expected %s got %s (inside the guards: %s; same as the model: %s)" % (d.get("want"), d.get("got"), guards, d["same"]))
    if bad and (guards or not d["same"]):
        ck.violation(dict(r, expected=d.get("want"), got=d.get("got"), sql=enriched[0]["sql"][0]))
    elif bad:
        fid = FINDING_WIDTH if not v["width"] else FINDING_ABSENT if not d["absent"] else FINDING_ORACLE
        if fid in ck.known_findings():
            ck.obligations.pop()
            ck.report_known(fid, "%s -> expected %d rows, got %s" % (r["query"], len(d.get("want") or []), len(d["got"]) if d.get("got") is not None else "-"))


def run(ck):
    if ck.replay:
        run_replay(ck)
        return
    ck.trusted += [
        "C07: model/SqlEval.v is the MEANING of the ClickHouse subset the log plans use (no ClickHouse exists offline): alias resolution, PREWHERE = WHERE, GROUP BY/HAVING with groupBitOr, IN (subquery), ANY LEFT JOIN, ORDER BY/LIMIT with arbitrary ties, LIKE patterns, UInt8 width of bitShiftLeft, NULL logic; read and commented, not tested against a server",
        "C07: model/LogqlSem.v is the reference meaning of a log query (absent label = \"\", regex matchers unanchored like ClickHouse match(), label-filter precedence as parsed); validated by reading and by Examples only",
        "C07: oracles re_match (RE2, the same function for Go regexp and ClickHouse match) and parse_float (strconv.ParseFloat = toFloat64OrNull on plain decimals); ilike modelled for ASCII case folding",
        "C07: harness/sqlparse + LogqlSemCheck.prep (SQL text -> Sql.v tree) are untrusted: every tree is validated by render(tree) = text",
        "C07: db_ok (label index = expansion of time_series, one label map per fingerprint, a series row of the sample's type on a day the reader looks at) is a hypothesis - it is what C04 states about the writer",
    ]
    ck.coq_props()
    if not ck.quick():
        ck.coqchk(["Qryn.props.C07"])
    zargs = dict(zones=sqltext.ZONES, zone_share=3, env_zone="Asia/Tokyo", env_n=ck.n(400, 4000))
    cases = sqltext.run_logql(ck, n_quick=1000, n_thorough=40000, **zargs)
    # the OCaml scratch directory of sqltext ("logql") is shared by every check that calls run_logql; when two checks
    # run at the same time their builds can clobber each other ("inconsistent assumptions over interface Cases").
    # That is not a property of the repository: retry once.
    if ck.obligations and not ck.obligations[-1][1] and "evaluated by the extracted model" in ck.obligations[-1][0]:
        ck.log("sqltext OCaml build was disturbed by a concurrent run; retrying once")
        ck.obligations.pop()
        time.sleep(5)
        cases = sqltext.run_logql(ck, n_quick=1000, n_thorough=40000, **zargs)
    rows = gen_regroups(ck)
    run_semantic(ck, cases, rows)
    run_regroups(ck, rows)
