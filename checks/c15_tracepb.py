"""C15, the protobuf branch of TempoController.Trace (reader/controller/tempoController.go, Accept: application/protobuf) -
correspondence and failing-input search.

model/TracePb.v models the grouping: the spans of the channel (service name bytes, span identity) are collected per service
name in a Go map (association list + the map iteration order as an argument), one ResourceSpans per key with the one resource
attribute service.name and one ScopeSpans of scope N/A v0; proto.Marshal refuses a string that is not UTF-8 -> PromError(500).
Harness tracepb drives the real handler over a fake ITempoService (and, for the stored-payload witnesses, over the real
TempoService.OutputQuery on a scripted database/sql driver), decodes the body with proto.Unmarshal. Inside Coq:
  pb_mismatches : model status / groups for the observed map order <> what the implementation answered, or the observed order
                  is no permutation of the service names
  pb_violations : independent of the model: not status 200 / not decodable / some service heads two groups / a group is not
                  exactly the spans of its service in channel order / a service is left out / resource or scope not as documented
  pb_refusals   : some string of the input is not UTF-8 (the class in which the handler answers 500)
"""
import binascii
import hashlib
import json
import os
import re

PID = "C15"

# id under which the defect of this slice is listed in findings.d/C15.txt while it is not repaired
F_UTF8 = "tracepb-invalid-utf8-answered-500"


def unhex(s):
    return binascii.unhexlify(s or "")


def esc(b):
    """bytes -> field text of the case transport (as checks/c15.py): printable ASCII except the double quote, bar and tilde stays, the rest is ~xx"""
    if isinstance(b, str):
        b = b.encode()
    return "".join(chr(c) if (32 <= c < 127 and c not in (34, 124, 126)) else "~%02x" % c for c in b)


def case_to_line(c):
    """id | badspan | status | valid | #spans { service | identity } | #groups { key | attr | strval | nattrs | sname | sver |
       nscopes | extra | #ids { identity } }      (decoded by decode_pbcase in model/TracePb.v)"""
    f = [str(c["id"]), "1" if c.get("badspan") else "0", str(c["status"]), "1" if c["valid"] else "0", str(len(c["chan"]))]
    for s in c["chan"]:
        f += [esc(unhex(s["svc"])), str(s["id"])]
    f.append(str(len(c["groups"])))
    for g in c["groups"]:
        f += [esc(unhex(g["key"])), esc(unhex(g["attr"])), "1" if g["strval"] else "0", str(g["nattrs"]), esc(unhex(g["sname"])),
              esc(unhex(g["sver"])), str(g["nscopes"]), str(g["extra"]), str(len(g["ids"]))]
        f += [str(i) for i in g["ids"]]
    return '"' + "|".join(f) + '"'


def eval_cases(ck, name, cases):
    txt = ("From Coq Require Import List NArith ZArith Bool.\nFrom Qryn Require Import model.JsonStream model.TracePb.\n"
           "Import ListNotations.\nOpen Scope lb_scope.\n"
           "Definition raw : list lbytes := [\n  " + ";\n  ".join(case_to_line(c) for c in cases) + "].\n"
           "Definition res := Eval vm_compute in (let cases := decode_pbcases raw in\n"
           "  (pb_undecodable raw :: nil, pb_mismatches cases, pb_violations cases, pb_refusals cases)).\n"
           "Definition U := Eval vm_compute in fst (fst (fst res)).\nPrint U.\n"
           "Definition M := Eval vm_compute in snd (fst (fst res)).\nPrint M.\n"
           "Definition V := Eval vm_compute in snd (fst res).\nPrint V.\n"
           "Definition F := Eval vm_compute in snd res.\nPrint F.\n")
    rc, out = ck.coq_eval(name, txt)
    if rc != 0:
        return None, out
    flat = " ".join(out.split())
    res = []
    for nm in ("U", "M", "V", "F"):
        m = re.search(nm + r" = \[(.*?)\]\s*: list Z", flat)
        if not m:
            return None, out
        res.append([int(x) for x in re.findall(r"-?\d+", m.group(1))])
    if res[0] != [0]:
        return None, "%d case(s) could not be decoded by decode_pbcase\n" % res[0][0] + out
    return res[1:], out


def case_size(c):
    return (len(c.get("chan") or []), len(set(s["svc"] for s in c.get("chan") or [])), sum(len(s["svc"]) for s in c.get("chan") or []))


def strip_case(c):
    """the replayable part of a case (inputs only; the harness recomputes the observations)"""
    return {"id": c["id"], "kind": c["kind"], "class": c.get("class", ""), "in": c.get("in") or {}, "note": c.get("note", "")}


def txt(h):
    return unhex(h).decode("latin1")


def describe(c):
    d = {"kind": c["kind"], "class": c.get("class"), "status": c["status"], "decodable": c["valid"],
         "channel (service name, span identity)": [[txt(s["svc"]), s["id"]] + (["nil Span"] if s.get("nil") else []) for s in c["chan"]],
         "ResourceSpans of the body (service.name, scope, span identities)":
             [[txt(g["attr"]), txt(g["sname"]) + " " + txt(g["sver"]), g["ids"]] for g in c["groups"]],
         "every span's bytes unchanged": c["bytes_same"], "body bytes": len(c["out"]) // 2}
    if c["status"] != 200:
        d["body"] = txt(c["out"])
    if c.get("spanhex"):
        d["first input span (hex)"] = c["spanhex"][0][:400]
    if (c.get("in") or {}).get("stored"):
        d["stored payloads (payload_type, payload)"] = [[s["type"], txt(s["payload"])] for s in c["in"]["stored"]]
    return d


def shrink(ck, c, fails):
    """greedy: drop spans of the replayable input while the harness + oracle still reject the case"""
    if c["kind"] != "tracepb":
        return c
    cur = c
    changed = True
    rounds = 0
    while changed and rounds < 4 and len(cur["in"]["spans"]) > 1:
        changed = False
        rounds += 1
        cands = []
        for i in range(len(cur["in"]["spans"])):
            d = strip_case(cur)
            d["in"] = dict(d["in"], spans=cur["in"]["spans"][:i] + cur["in"]["spans"][i + 1:])
            d["id"] = 5000000 + len(cands)
            cands.append(d)
        path = os.path.join(ck.work, "tracepb_shrink.jsonl")
        outp = os.path.join(ck.work, "tracepb_shrink_out.jsonl")
        with open(path, "w") as f:
            for d in cands:
                f.write(json.dumps(d) + "\n")
        rc, out = ck.go_run("tracepb", ["--cases", path, "--out", outp])
        if rc != 0:
            break
        got = [json.loads(l) for l in open(outp)]
        bad = fails(got)
        if bad:
            cur = min(bad, key=case_size)
            changed = True
    return cur


def run_tracepb(ck):
    if not ck.go_build("tracepb"):
        ck.obligation("harness tracepb builds against the repository", False, ck.build_out[-1500:])
        return
    root = os.path.dirname(os.path.dirname(__file__))
    cases = []

    def rerun(path, tag, base, mark):
        outp = os.path.join(ck.work, "tracepb_%s_out.jsonl" % tag)
        rc, out = ck.go_run("tracepb", ["--cases", path, "--out", outp])
        if rc != 0:
            ck.obligation("harness tracepb ran the %s cases" % tag, False, out[-1500:])
            return []
        cs = [json.loads(l) for l in open(outp)]
        for i, c in enumerate(cs):
            c["id"] = base + i
            if mark:
                c["class"] = mark + c.get("class", "")
        return cs

    corpus = os.path.join(root, "corpus", PID, "tracepb.jsonl")
    if os.path.exists(corpus):
        cases += rerun(corpus, "corpus", 3000000, "corpus:")
    if ck.replay:
        rp = json.load(open(ck.replay))
        if str((rp.get("case") or {}).get("kind", "")).startswith("tracepb"):
            rc_path = os.path.join(ck.work, "tracepb_replay.jsonl")
            with open(rc_path, "w") as f:
                f.write(json.dumps(rp["case"]) + "\n")
            cases += rerun(rc_path, "replay", 4000000, "")
    n = ck.n(120, 3000)
    outp = os.path.join(ck.work, "tracepb_gen.jsonl")
    rc, out = ck.go_run("tracepb", ["--seed", ck.seed, "--n", n, "--out", outp])
    if rc != 0:
        ck.obligation("harness tracepb ran", False, out[-1500:])
        return
    cases += [json.loads(l) for l in open(outp)]
    byid = {c["id"]: c for c in cases}

    panics = [c for c in cases if c.get("panic")]
    for c in sorted(panics, key=case_size)[:1]:
        ck.violation({"property": PID, "kind": "panic in TempoController.Trace (protobuf branch)", "case": strip_case(c), "panic": c["panic"],
                      "observed": describe(c), "replay": "bin/check C15 --replay <this file>"})
    ok_cases = [c for c in cases if not c.get("panic")]

    def evaluate(cs, name):
        mism, viol, refused = [], [], []
        shard = 400
        from concurrent.futures import ThreadPoolExecutor
        with ThreadPoolExecutor(max_workers=4) as ex:
            results = list(ex.map(lambda k: eval_cases(ck, "%s_%d" % (name, k // shard), cs[k:k + shard]), range(0, len(cs), shard)))
        for res, out in results:
            if res is None:
                return None, out
            mism += res[0]
            viol += res[1]
            refused += res[2]
        return (mism, viol, refused), ""

    res, out = evaluate(ok_cases, "C15_tracepb")
    if res is None:
        ck.obligation("Trace protobuf cases evaluated inside Coq", False, out[-1500:])
        return
    mism, viol, refused = res
    refused_s = set(refused)
    known = ck.known_findings()
    doc_viol = [i for i in viol if i not in refused_s]        # the property fails on an input whose strings are all UTF-8
    ref_viol = [i for i in viol if i in refused_s]            # the refusal: the rows did not come back
    answered = [c for c in ok_cases if c["id"] not in refused_s]
    changed = [c["id"] for c in answered if not c["bytes_same"]]
    not200 = [c["id"] for c in answered if c["status"] != 200]
    unbin = [c["id"] for c in ok_cases if not c.get("binids")]
    badjson = []
    for c in ok_cases:
        if c["status"] != 200:
            try:
                d = json.loads(unhex(c["out"]).decode("utf8"))
                if not (isinstance(d, dict) and d.get("status") == "error" and isinstance(d.get("error"), str)):
                    badjson.append(c["id"])
            except Exception:
                badjson.append(c["id"])

    ck.obligation("Trace (protobuf): status and ResourceSpans of the model (TracePb.v group_by_service for the observed map order; resource "
                  "attribute, scope, span identities per group) = what the real handler answered, and the observed order is a permutation "
                  "of the service names, on %d responses" % len(ok_cases), not mism and not panics, "mismatching case ids: %s" % mism[:10])
    ck.obligation("Trace (protobuf) spec oracle: every body answered for UTF-8 input decodes (proto.Unmarshal) to exactly one ResourceSpans "
                  "per service name (one attribute service.name, one ScopeSpans of scope N/A v0, nothing else), under it exactly the spans of "
                  "that service in channel order, no service left out", not doc_viol, "violating case ids: %s" % doc_viol[:10])
    ck.obligation("Trace (protobuf): every span comes back with exactly its bytes (re-marshalled span = input span, %d spans)"
                  % sum(len(c["chan"]) for c in answered), not changed, "case ids: %s" % changed[:10])
    ck.obligation("Trace (protobuf): every request whose strings are UTF-8 is answered with status 200", not not200, "case ids: %s" % not200[:10])
    ck.obligation("Trace (protobuf): the service is asked for binary ids; every other answer is one PromError JSON document",
                  not unbin and not badjson, "case ids: %s %s" % (unbin[:10], badjson[:10]))

    # a string that is not UTF-8: the whole trace is answered with a 500
    if ref_viol:
        stored = [byid[i] for i in ref_viol if byid[i]["kind"] == "tracepb-stored"]
        worst = min([c for c in stored if len(c["chan"]) >= 2] or stored or [byid[i] for i in ref_viol], key=case_size)
        what = ("a trace holding one string that is not UTF-8 (%s) is answered to a protobuf client with status 500 and %r instead of its %d span(s)"
                % ("stored Zipkin JSON payload %r, read by the real TempoService.OutputQuery" % txt(worst["in"]["stored"][-1]["payload"])
                   if worst["kind"] == "tracepb-stored" else "service name %r" % [txt(s["svc"]) for s in worst["chan"]],
                   txt(worst["out"]), len(worst["chan"])))
        if F_UTF8 in known:
            ck.report_known(F_UTF8, what)
            ck.obligation("Trace (protobuf): spans holding any bytes come back (known finding %s reproduced on %d responses)" % (F_UTF8, len(ref_viol)), True)
        else:
            ck.obligation("Trace (protobuf): spans holding any bytes come back", False, "case ids: %s; %s" % (ref_viol[:10], what))
            ck.violation({"property": PID, "kind": "Trace (protobuf) refused because a stored string is not UTF-8", "case": strip_case(worst),
                          "observed": describe(worst),
                          "explanation": "proto.Marshal fails on a string field that is not valid UTF-8; the handler then answers PromError(500) for the whole "
                                         "trace. Zipkin JSON payloads are stored unvalidated (jx) and read back with fastjson, which hands the bytes out as they are "
                                         "(model: pb_status)",
                          "replay": "bin/check C15 --replay <this file>"})

    if doc_viol:
        bad_ids = set(doc_viol)

        def fails(got):
            r, _ = evaluate([g for g in got if not g.get("panic")], "C15_tracepb_shrink")
            if r is None:
                return []
            keep = set(r[1]) - set(r[2])
            return [g for g in got if g["id"] in keep]
        worst = min((byid[i] for i in bad_ids), key=case_size)
        worst = shrink(ck, worst, fails)
        ck.violation({"property": PID, "kind": "Trace (protobuf) body is not the one document of the spans grouped by service",
                      "case": strip_case(worst), "observed": describe(worst),
                      "expected": "one ResourceSpans per service name of the channel (resource attribute service.name = the name, one ScopeSpans of "
                                  "scope N/A v0) listing exactly the spans of that service in channel order",
                      "explanation": "pb_violation (model/TracePb.v; sound by pb_oracle_sound) rejects what proto.Unmarshal read from the bytes the real handler sent",
                      "replay": "bin/check C15 --replay <this file>"})
    elif changed or not200:
        worst = min((byid[i] for i in (changed or not200)), key=case_size)
        ck.violation({"property": PID, "kind": "Trace (protobuf): a span does not come back with its bytes" if changed else "Trace (protobuf): not answered",
                      "case": strip_case(worst), "observed": describe(worst), "replay": "bin/check C15 --replay <this file>"})
    elif mism or unbin or badjson:
        worst = min((byid[i] for i in (mism or unbin or badjson)), key=case_size)
        ck.violation({"property": PID, "kind": "Trace (protobuf) model/implementation disagree; the body is still the intended document",
                      "case": strip_case(worst), "observed": describe(worst), "broken": "correspondence TracePb vs handler"},
                     no_input=True)

    # coverage
    distinct = set()
    hist, feats, shapes, orders = {}, {}, {}, {"insertion order": 0, "another order": 0}
    for c in cases:
        hist[c["class"]] = hist.get(c["class"], 0) + 1
        for f in c.get("feat") or []:
            feats[f] = feats.get(f, 0) + 1
        names = []
        for s in c.get("chan") or []:
            if s["svc"] not in names:
                names.append(s["svc"])
        k = "%d spans" % len(c.get("chan") or [])
        shapes[k] = shapes.get(k, 0) + 1
        if c["status"] == 200 and len(names) >= 2:
            orders["insertion order" if [g["attr"] for g in c["groups"]] == names else "another order"] += 1
        if len(names) >= 2 and len(c["chan"]) >= 3:
            distinct.add(hashlib.sha1(json.dumps([c["kind"], c["chan"], c.get("spanhex")], sort_keys=True).encode()).hexdigest())
    ck.coverage["evaluations"] += len(cases)
    ck.coverage["distinct_nontrivial"] += len(distinct)
    ck.coverage["rule"] += ("Trace protobuf bodies: 0..8 real OTLP spans (random names, attributes of every AnyValue kind, events, links, status; the span id "
                            "carries the identity; one span in seven delivered twice) over 0..4 service names in runs or interleaved (printable, empty, quotes / bar / "
                            "backslash, multi-byte UTF-8, control bytes, 360..430 bytes long, names differing only in case / white space / a NUL, ill-formed UTF-8 in a "
                            "few cases) + fixed witnesses (nil Span, strings that are not UTF-8, stored OTLP / Zipkin payloads through the real OutputQuery); "
                            "non-trivial = at least 2 service names and 3 spans; distinct by channel content + span bytes. ")
    nilc = [c for c in cases if any(s.get("nil") for s in c.get("chan") or [])]
    trunc = [c for c in cases if c["kind"] == "tracepb-stored" and len(c["chan"]) < len([s for s in c["in"]["stored"] if s["type"] in (1, 2)])]
    ck.extra["tracepb_distribution"] = {
        "classes": hist, "features of the generated cases": feats, "spans per case": shapes, "map order observed (cases with 2 or more services)": orders,
        "Content-Type header set by the handler on status 200": sorted(set(c.get("ct") or "(none)" for c in cases if c["status"] == 200)),
        "answered 500 because a string is not UTF-8": len(ref_viol),
        "nil Span": ["status %d, panic %r, groups %s: proto.Marshal writes a nil element of a repeated message field as an empty message, the client reads an "
                     "empty span (no ids); TempoService.OutputQuery never delivers a nil Span" % (c["status"], c.get("panic", ""),
                                                                                                   [[txt(g["attr"]), g["ids"]] for g in c["groups"]]) for c in nilc][:2],
        "stored OTLP protobuf payload that is not UTF-8": ["%d of %d stored spans delivered, status %d: proto.Unmarshal refuses the payload and OutputQuery ends the "
                                                            "trace there (the spans after it are not returned)" % (len(c["chan"]), len(c["in"]["stored"]), c["status"])
                                                           for c in trunc][:2]}
    ck.add_samples([describe(c) for c in cases if c["kind"] == "tracepb" and len(c["groups"]) >= 2][:2])
