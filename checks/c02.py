"""C02 -- every INSERT block is rectangular and made only of whole submitted rows.

props/C02.v: blocks_good / block_carries_its_waiters over the global ingest model (per-column buffers of
model/Ingest.v), bad_request_poisons_batch for requests that are not tables.  Tie: the same harness as C01
(harness/cmd/ingest): for every Do of the real services the decoded columns must equal the model's block, and the
C02 monitors must accept the observed trace (block = appends of exactly its waiters; every block a table of
distinct rows when the script's requests are tables).
"""
from checks import ingest_common as ic


def run(ck):
    ck.trusted += [
        "C02: ch-go column types (ColStr, ColFixedStr, ColArr, ColDate ...) are lists of cells; every row carries its row id in every field "
        "(UInt8/Int8 columns modulo 128), which is how the harness reads rows back out of the proto.Input handed to client.Do",
        "C02: ColFixedStr.Append panicking on a wrong width and MLabels shorter than MDate (index out of range) are process deaths, not traces (C05); "
        "parser_output_wf (the parsers only emit tables) belongs to C03/C06/C16",
    ]
    ck.coq_props()
    ic.run_regions(ck, "C02")
    ic.run_bridge(ck, "C02")
    ic.run_cells(ck, "C02")
    res = ic.run_level1(ck, "C02")
    if res is None:
        return
    byid = res["byid"]
    ck.obligation("harness executed every generated script (quiescence reached, no panic)", not res["broken"],
                  "%d scripts; first: %s" % (len(res["broken"]), res["broken"][0]["err"] if res["broken"] else ""))
    ck.obligation("correspondence: model blocks/events = observed on %d service scripts" % len(res["good"]), not res["mism"],
                  "mismatching case ids: %s" % res["mism"][:10])
    ck.obligation("C02 monitors (block = its waiters' appends; table of distinct whole rows) accept every observed trace", not res["v2"],
                  "violating case ids: %s" % res["v2"][:10])
    if res["v2"]:
        worst = ic.smallest([byid[i] for i in res["v2"]])

        def still_bad(c):
            m, v1, v2, _ = ic.eval_cases(ck, "C02_shrink", [c])
            return bool(v2)
        worst = ic.shrink(ck, "ingest", worst, still_bad)
        diag = ic.diagnose_variant(ck, "C02_variant", worst)
        ck.violation({"property": "C02", "kind": "a block sent to ClickHouse is not the table of its waiters' rows",
                      "explanation": "smon_step MClean / good_block_red (model/IngestSpec.v, model/IngestCases.v) reject the blocks observed at the fake client: "
                                     "columns of different length, a row whose fields come from different submitted rows, a duplicated or missing row, or rows of a request that is not among the waiters",
                      "case": worst, "replay": "harness ingest --cases <file with the case object on one line>",
                      **({"interleaving": diag} if diag else {})})
    elif res["mism"] or res["broken"]:
        bad = [byid[i] for i in res["mism"]] or res["broken"]
        worst = ic.smallest(bad)
        ck.violation({"property": "C02", "kind": "model/implementation disagree; the C02 monitors still accept every observed trace",
                      "case": worst, "broken": "correspondence Ingest.sstep vs writer/service (blocks, events)"}, no_input=True)
    ck.obligation("the freshness hypothesis of blocks_have_distinct_rows (fresh_run, model/IngestFresh.v) holds on every well-formed generated service script (%d)" % len(res["wf"]),
                  not res["notfresh"], "not fresh (the generator re-used a row id or a promise): %s" % res["notfresh"][:10])
    ck.extra.setdefault("input_distribution", {})["fresh_run_holds_service_scripts"] = "%d of %d well-formed" % (len(res["wf"]) - len(res["notfresh"]), len(res["wf"]))
    ic.coverage_level1(ck, res)
    run_http(ck)


def run_http(ck):
    """level 2: blocks produced behind the real HTTP handlers (rows recognised by their full content)"""
    res = ic.run_level2(ck, "C02")
    if res is None:
        return
    byid = res["byid"]
    ck.obligation("harness executed every HTTP script", not res["broken"],
                  "%d scripts; first: %s" % (len(res["broken"]), res["broken"][0]["err"] if res["broken"] else ""))
    ck.obligation("correspondence: model blocks = observed blocks (as row sets) on %d HTTP scripts" % len(res["good"]), not res["mism"],
                  "mismatching case ids: %s" % res["mism"][:10])
    torn = [c for c in res["broken"] if "not a table" in (c.get("err") or "")]
    ck.obligation("every request the real parsers emitted for the generated bodies is the table of its rows (parser_requests_are_tables on the implementation)", not torn,
                  "%d scripts; first: %s" % (len(torn), torn[0]["err"] if torn else ""))
    if torn:
        worst = min(torn, key=lambda c: (len(c.get("reqs") or []), len(c.get("ops") or [])))
        for r in worst.get("reqs") or []:
            try:
                r["body_text"] = bytes.fromhex(r["body"]).decode("utf8", "replace")[:2000]
            except ValueError:
                pass
        ck.violation({"property": "C02", "kind": "a parser emitted a request whose columns are not the table of its rows (the next INSERT block of that service is not rectangular)",
                      "explanation": "the dry run of the route's exported parser on the body of the script produced a request struct whose slice fields differ in length or do not line up row by row "
                                     "(harness: reqRowKeys); model/IngestBridge.v proves this cannot happen for the append programs that pass bridge_ok",
                      "case": worst, "replay": "harness ingest --level 2 --cases <file with the case object on one line>"})
    bad = sorted(set(res["v2"]) | set(c["id"] for c in res["nontab"]))
    ck.obligation("every block behind the HTTP handlers is a table of distinct submitted rows", not bad, "violating case ids: %s" % bad[:10])
    if bad:
        worst = min((byid[i] for i in bad), key=lambda c: (len(c["ops"]), len(c["reqs"])))
        ck.violation({"property": "C02", "kind": "a block sent behind the HTTP handlers is not a table of whole submitted rows",
                      "explanation": "columns of different length (counts), a row that is not the content of any submitted row (rid -1) or a duplicated row in an observed block",
                      "case": worst, "replay": "harness ingest --level 2 --cases <file with the case object on one line>"})
    elif res["mism"] or res["broken"]:
        b2 = [byid[i] for i in res["mism"]] or res["broken"]
        worst = min(b2, key=lambda c: (len(c["ops"]), len(c["reqs"])))
        ck.violation({"property": "C02", "kind": "model/implementation disagree on an HTTP script", "case": worst}, no_input=True)
    nrep = len(res.get("repeat") or [])
    ck.obligation("the freshness hypothesis fresh_run holds on every HTTP script that does not push the same series twice (%d; the %d scripts of class repeat submit the same series row "
                  "from several pushes by design): rows recognised by content, each submitted by one sub-request" % (len(res["good"]) - nrep, nrep),
                  not res["notfresh"], "not fresh: %s" % res["notfresh"][:10])
    ck.extra.setdefault("input_distribution", {})["fresh_run_holds_http_scripts"] = "%d of %d (class repeat excluded: %d)" % (len(res["good"]) - nrep - len(res["notfresh"]), len(res["good"]) - nrep, nrep)
    ic.coverage_level2(ck, res)
    soak = ic.run_soak(ck, "C02")
    if soak is not None:
        bad2 = sorted(set(soak["v2"]) | set(c["id"] for c in soak["nontab"]))
        ck.obligation("soak TEST (real timers, concurrent clients): every observed block is a table of distinct submitted rows", not bad2 and not soak["broken"],
                      "violating runs: %s %s" % (bad2, [c["err"] for c in soak["broken"]][:2]))
        if bad2:
            c = soak["byid"][bad2[0]]
            blocks = [e for l in (c.get("obs") or []) for e in (l or []) if e["t"] == "send" and (not ic.block_is_table(e) or len(set(e.get("rids") or [])) != len(e.get("rids") or []))]
            ck.violation({"property": "C02", "kind": "soak test: a block is not a table of distinct submitted rows",
                          "blocks": blocks[:3], "case": {"id": c["id"], "reqs": [{"route": r["route"], "items": r["items"]} for r in c["reqs"]]},
                          "replay": "harness ingest --level 3 --seed <seed> --n <n> (timing dependent)"})
