"""C16 — profile call trees conserve weight from ingest to flame graph.

Model: coq/model/Pprof.v (postProcessProf, getNodeId with city.CH64 on 16 bytes modelled exactly,
values_agg, what one request emits), coq/model/ProfTree.v (Tree.MergeTrie, Total, MaxSelf, BFS).
Theorems: coq/props/C16.v.
Correspondence (harness/cmd/proftree): generated pprof profiles are serialised with
github.com/google/pprof/profile, pushed through the exported UnmarshalProfileProtoV2 /
UnmarshalBinaryStreamProfileProtoV2; the emitted ProfileData rows are compared with post_process;
their projection on one sample type is fed in a random order (raw or grouped) to the real
Tree.MergeTrie / BFS / Total / MaxSelf and compared with merge_trie / bfs; the same rows go through
the real ProfService.MergeStackTraces and ProfService.RenderDiff over a scripted database (harness
svc.go); the statement texts the service sends are parsed into coq/model/ProfSql.v merge_stmt,
rendered back byte for byte and evaluated inside Coq on the stored rows (they must give the rows
handed to the service); the diff view is compared with coq/model/ProfDiff.v.  The boolean specification oracles (conservation per node, root sum, merged = sum
of the inputs, level nesting) are evaluated inside Coq on the OBSERVED rows/trees/levels.
"""
import json
import os
import re
import threading
from concurrent.futures import ThreadPoolExecutor

import vcheck


HERE = os.path.dirname(os.path.dirname(os.path.abspath(__file__)))
EMPTY_STACK_FINDING = "empty-stack-weight-lost"
COLLISION_IN = "node-id-collision-in-profile"
COLLISION_ACROSS = "node-id-collision-across-profiles"


M64 = (1 << 64) - 1
EXTRA_LOCK = threading.Lock()


class W:
    """serialiser of the wire format decoded by coq/model/ProfCase.v (rd_case): a flat list of primitive
    63-bit integer literals; u < 2^62 -> [2u], else [2(u >> 32) + 1, u & 0xffffffff]; signed values as
    two's complement; lists length-prefixed"""

    def __init__(self):
        self.out = []

    def u(self, v):
        v = int(v) & M64
        if v < (1 << 62):
            self.out.append(2 * v)
        else:
            self.out.append(2 * (v >> 32) + 1)
            self.out.append(v & 0xffffffff)

    z = u

    def b(self, x):
        self.u(1 if x else 0)

    def lst(self, xs, f):
        xs = xs or []
        self.u(len(xs))
        for x in xs:
            f(x)

    def zs(self, xs):
        self.lst(xs, self.z)


def as_tok(u):
    """name tokens travel as uint64 in (id, token) pairs: -1 wraps"""
    return u - (1 << 64) if u >= (1 << 63) else u


def w_prof(w, p):
    w.zs(p["st"])
    w.b(p["bad"] in ("trunc", "garbage"))
    w.lst(p["samples"], lambda s: (w.zs(s["stack"]), w.zs(s["values"])))
    w.b(p["err"] != "")
    for k in ("nresp", "nother", "nprof", "narr"):
        w.z(p[k])
    rows = p["rows"] or []
    w.lst(rows, lambda r: (w.u(r["p"]), w.u(r["f"]), w.u(r["i"]), w.lst(r["v"], lambda v: (w.z(v[0]), w.z(v[1])))))
    vns = []
    for r in rows:
        if (r["vn"] or []) not in vns:
            vns.append(r["vn"] or [])
    w.lst(vns, w.zs)
    w.lst(p["funcs"], lambda f: (w.u(f[0]), w.z(as_tok(f[1]))))
    w.lst(p["vagg"], lambda v: (w.z(v[0]), w.z(v[1]), w.z(v[2])))


# ---------------------------------------------------------------------------- the statement of the read path
STMT_RE = re.compile(
    r"^WITH fp as \( (?P<fp>.*?)\),raw as \( SELECT (?P<distinct> DISTINCT )?arrayMap\(x -> \((?P<proj>.*?)\), tree\) as tree, functions FROM (?P<table>\S+) "
    r"WHERE \(\(timestamp_ns\) (?P<lo>>=|>) \((?P<from>-?\d+)\)\) and \(\(timestamp_ns\) (?P<hi><=|<) \((?P<to>-?\d+)\)\) and \(fingerprint IN \(fp\)\) and "
    r"\((?P<match>.*)\)\),pre_joined as \( SELECT (?P<distinct_pre> DISTINCT )?rtree FROM raw array JOIN raw\.tree as rtree \),joined as \( SELECT \((?P<out>.*?)\) as tree "
    r"FROM pre_joined GROUP BY (?P<group>.*?) ORDER BY (?P<order>.*?) LIMIT (?P<limit>\d+)\) SELECT \(select (?P<agg1>\w+)\(tree\) from joined\) "
    r"as _tree, \(select (?P<agg2>\w+)\(functions\) from raw \) as _functions$", re.S)
PROJ_ITEM = re.compile(r"x\.(\d+)|\(arrayFirst\(y -> y\.(\d+) == '((?:[^'\\]|\\.)*)', x\.(\d+)\) as af\)\.(\d+)|af\.(\d+)")
AGGS = {"groupArray": "GroupArray", "groupUniqArrayArray": "GroupUniqArrayArray"}


def parse_stmt(text):
    """-> dict (the syntax tree of coq/model/ProfSql.v merge_stmt) or None when the text is outside the modelled fragment.
    Untrusted: the check has Coq render the tree and compare it with the text byte for byte."""
    m = STMT_RE.match(text)
    if not m:
        return None
    types, proj, pos = [], [], 0
    src = m.group("proj")
    while pos < len(src):
        if proj:
            if not src.startswith(", ", pos):
                return None
            pos += 2
        it = PROJ_ITEM.match(src, pos)
        if not it:
            return None
        pos = it.end()
        if it.group(1):
            proj.append("TField %s" % it.group(1))
        elif it.group(2):
            if "\\" in it.group(3):
                return None
            if it.group(3) not in types:
                types.append(it.group(3))
            proj.append("TFirst %d %s %s %s" % (types.index(it.group(3)), it.group(4), it.group(2), it.group(5)))
        else:
            proj.append("TAf %s" % it.group(6))
    out = []
    for g in m.group("out").split(", "):
        a = re.fullmatch(r"rtree\.(\d+)", g)
        b = re.fullmatch(r"sum\(rtree\.(\d+)\)", g)
        f = re.fullmatch(r"(max|min|any)\(rtree\.(\d+)\)", g)
        if a:
            out.append("GKey %s" % a.group(1))
        elif b:
            out.append("GSum %s" % b.group(1))
        elif f:
            out.append("GAgg %s %s" % ({"max": "AMax", "min": "AMin", "any": "AAny"}[f.group(1)], f.group(2)))
        else:
            return None
    def fields(txt):
        r = []
        for g in txt.split(", "):
            a = re.fullmatch(r"rtree\.(\d+)", g)
            if not a:
                return None
            r.append(a.group(1))
        return r
    group, order = fields(m.group("group")), fields(m.group("order"))
    if group is None or order is None or m.group("agg1") not in AGGS or m.group("agg2") not in AGGS:
        return None
    return {"fp": m.group("fp"), "table": m.group("table"), "match": m.group("match"), "types": types, "proj": proj,
            "from": int(m.group("from")), "to": int(m.group("to")), "out": out, "group": group, "order": order,
            "limit": int(m.group("limit")), "agg1": AGGS[m.group("agg1")], "agg2": AGGS[m.group("agg2")],
            "distinct": bool(m.group("distinct")), "distinct_pre": bool(m.group("distinct_pre")),
            "from_strict": m.group("lo") == ">", "to_incl": m.group("hi") == "<="}


def stmt_key(st):
    """everything but the time window"""
    return json.dumps({k: v for k, v in st.items() if k not in ("from", "to")}, sort_keys=True)


def cstr(x):
    return "(%s)%%string" % vcheck.coq_string(x)


def stmt_coq(st):
    z = lambda v: "(%d)%%Z" % v
    return ("{| ms_fp := %s; ms_table := %s; ms_matchers := %s; ms_types := [%s]; ms_proj := [%s]; ms_from := %s; ms_to := %s; "
            "ms_out := [%s]; ms_group := [%s]; ms_order := [%s]; ms_limit := %s; ms_tree_agg := %s; ms_fn_agg := %s; ms_distinct := %s; ms_distinct_pre := %s; "
            "ms_from_strict := %s; ms_to_incl := %s |}"
            % ((cstr(st["fp"]), cstr(st["table"]), cstr(st["match"]),
               "; ".join(cstr(t) for t in st["types"]), "; ".join(st["proj"]), z(st["from"]), z(st["to"]),
               "; ".join(st["out"]), "; ".join(g + "%N" for g in st["group"]), "; ".join(g + "%N" for g in st["order"]),
               z(st["limit"]), st["agg1"], st["agg2"]) + tuple("true" if st.get(k) else "false" for k in ("distinct", "distinct_pre", "from_strict", "to_incl"))))


def attach_statements(cases):
    """parse the statements recorded by the service stage; give every case the index of its template and its windows.
    -> (templates [(tree, text)], problems)"""
    templates, index, problems = [], {}, []
    for c in cases:
        c["_stmt"], c["_mw"], c["_lw"], c["_rw"] = -1, (0, 0), (0, 0), (0, 0)
        svc, d = c.get("svc"), c.get("diff")
        if not svc or not svc.get("sql"):
            continue
        texts = [svc["sql"]] + ([d["sql_l"], d["sql_r"]] if d and d.get("sql_l") and d.get("sql_r") else [])
        sts = [parse_stmt(t) for t in texts]
        if any(st is None for st in sts):
            problems.append((c["id"], "statement outside the modelled fragment: %s" % texts[[i for i, st in enumerate(sts) if st is None][0]][:400]))
            continue
        if len(set(stmt_key(st) for st in sts)) != 1:
            problems.append((c["id"], "the statements of one case differ in more than the time window"))
            continue
        k = stmt_key(sts[0])
        if k not in index:
            index[k] = len(templates)
            templates.append((sts[0], texts[0]))
        c["_stmt"] = index[k]
        c["_mw"] = (sts[0]["from"], sts[0]["to"])
        if len(sts) == 3:
            c["_lw"], c["_rw"] = (sts[1]["from"], sts[1]["to"]), (sts[2]["from"], sts[2]["to"])
    return templates, problems


def w_rows(w, rows):
    w.lst(rows, lambda m: (w.u(m["p"]), w.u(m["f"]), w.u(m["i"]), w.z(m["s"]), w.z(m["t"])))


def w_diff(w, c):
    d = c.get("diff")
    present = bool(d) and not d.get("skipped")
    w.b(present)
    if not present:
        d = {}
    for a, b in (c.get("_lw", (0, 0)), c.get("_rw", (0, 0))):
        w.z(a)
        w.z(b)
    w_rows(w, d.get("lrows"))
    w.lst(d.get("lfuncs"), lambda f: (w.u(f[0]), w.z(as_tok(f[1]))))
    w_rows(w, d.get("rrows"))
    w.lst(d.get("rfuncs"), lambda f: (w.u(f[0]), w.z(as_tok(f[1]))))
    err = d.get("err", "") or ("panic: " + d["panic"] if d.get("panic") else "")
    w.z(0 if err == "" else 1 if err in ("left tree is not positive", "right tree is not positive") else 2)
    w.zs(d.get("names"))
    w.lst(d.get("levels"), w.zs)
    for k in ("ticks", "maxself", "left", "right"):
        w.z(d.get(k, 0))


def w_mp(w, c):
    m = c.get("mp")
    present = bool(m) and c["kind"] == "e2e"
    w.b(present)
    if not present:
        m = {}
    names = c.get("names") or []
    w.zs([names.index(n) for n in names] if present else [])
    err = m.get("err", "") or ("panic: " + m["panic"] if m.get("panic") else "")
    w.z(0 if err == "" else 1 if err.startswith("incompatible sample types") else 2)
    w.zs(m.get("typetoks"))
    w.lst(m.get("samples"), lambda s: (w.zs(s.get("stack")), w.zs(s.get("values"))))


def w_merge(w, c):
    w.lst(c["mrows"], lambda m: (w.u(m["p"]), w.u(m["f"]), w.u(m["i"]), w.z(m["s"]), w.z(m["t"])))
    w.lst(c["mfuncs"], lambda f: (w.u(f[0]), w.z(as_tok(f[1]))))
    w.b(c.get("panic"))
    w.lst(c["tree"], lambda e: (w.u(e["parent"]), w.lst(e["ch"], lambda n: (w.u(n["f"]), w.u(n["i"]), w.z(n["s"]), w.z(n["t"])))))
    w.z(c["nodesnum"])
    w.zs(c["total"])
    w.zs(c["maxself"])
    w.lst(c["levels"], w.zs)
    w.zs(c["tnames"])
    w.lst(c["tmap"], lambda e: (w.u(e[0]), w.z(e[1])))


def case_wire(c):
    w = W()
    w.z(c["id"])
    w.b(c["kind"] == "e2e")
    w.lst(c["fnh"], w.u)
    w.lst(c["profs"], lambda p: w_prof(w, p))
    w.z(c["sel"])
    w_merge(w, c)
    w.b(c.get("mode") == "grouped")
    w.z(c.get("_stmt", -1))
    w.z(c.get("_mw", (0, 0))[0])
    w.z(c.get("_mw", (0, 0))[1])
    w_diff(w, c)
    w_mp(w, c)
    return w.out


def hash_wire(h):
    w = W()
    w.z(h["id"])
    w.u(h["HA"])
    w.u(h["HB"])
    w.u(h["HH"])
    return w.out


HEADER = ("From Coq Require Import List NArith ZArith Bool Uint63 String.\nFrom Qryn Require Import model.Pprof model.ProfTree model.ProfDiff model.ProfSql model.ProfCase.\n"
          "Import ListNotations.\n")


def wire_defs(prefix, wires):
    """one Definition per case (a single huge list literal overflows coqc's stack)"""
    txt = []
    for i, w in enumerate(wires):
        chunks = [w[k:k + 4000] for k in range(0, len(w), 4000)] or [[]]
        if len(chunks) == 1:
            txt.append("Definition %s%d : list int := [%s]%%uint63.\n" % (prefix, i, "; ".join(str(x) for x in w)))
            continue
        for j, ch in enumerate(chunks):
            txt.append("Definition %s%d_%d : list int := [%s]%%uint63.\n" % (prefix, i, j, "; ".join(str(x) for x in ch)))
        txt.append("Definition %s%d : list int := %s.\n" % (prefix, i, " ++ ".join("%s%d_%d" % (prefix, i, j) for j in range(len(chunks)))))
    txt.append("Definition %ss : list (list int) := [%s].\n" % (prefix, "; ".join("%s%d" % (prefix, i) for i in range(len(wires)))))
    return "".join(txt)


def eval_cases(ck, name, cases, hashes, templates=(), judge_text=False):
    """-> (mismatch ids, {id: spec result}, hash mismatch ids, raw output)"""
    txt = (HEADER + wire_defs("c", [case_wire(c) for c in cases]) + wire_defs("h", [hash_wire(h) for h in hashes]) +
           "".join("Definition stmt%d : merge_stmt := %s.\n" % (k, stmt_coq(st)) for k, (st, _) in enumerate(templates)) +
           "Definition stmts : list merge_stmt := [%s].\n" % "; ".join("stmt%d" % k for k in range(len(templates))) +
           "Definition ALL := Eval vm_compute in all_results stmts cs.\n"
           "Definition D := Eval vm_compute in fst (fst (fst (fst (fst ALL)))).\nPrint D.\n"
           "Definition M := Eval vm_compute in snd (fst (fst (fst (fst ALL)))).\nPrint M.\n"
           "Definition V := Eval vm_compute in snd (fst (fst (fst ALL))).\nPrint V.\n"
           "Definition H := Eval vm_compute in hash_mismatches hs.\nPrint H.\n"
           "Definition Y := Eval vm_compute in snd (fst (fst ALL)).\nPrint Y.\n"
           "Definition HF := Eval vm_compute in snd (fst ALL).\nPrint HF.\n"
           "Definition DM := Eval vm_compute in fst (fst (fst (snd ALL))).\nPrint DM.\n"
           "Definition SQ := Eval vm_compute in snd (fst (fst (snd ALL))).\nPrint SQ.\n"
           "Definition SJ := Eval vm_compute in snd (fst (snd ALL)).\nPrint SJ.\n"
           "Definition ST := Eval vm_compute in snd (snd ALL).\nPrint ST.\n")
    if judge_text:
        # the parser is not trusted: the model's rendering of every parsed statement is the recorded text, byte for byte;
        # and every template has the shape the theorems are about (stmt_ok)
        txt += ("Definition RK := Eval vm_compute in [%s].\nPrint RK.\n" %
                "; ".join("String.eqb (render_stmt stmt%d) %s" % (k, cstr(text)) for k, (_, text) in enumerate(templates)) +
                "Definition OK := Eval vm_compute in map (stmt_ok 0) stmts.\nPrint OK.\n")
    rc, out = ck.coq_eval(name, txt)
    if rc != 0:
        return None, None, None, out
    with EXTRA_LOCK:
        return parse_eval(ck, name, out, templates, judge_text)


def parse_eval(ck, name, out, templates, judge_text):
    flat = " ".join(out.split()).replace("%Z", "")
    d = re.search(r"\bD = (?:\[(.*?)\]|nil)\s*: list Z", flat)
    m = re.search(r"\bM = (?:\[(.*?)\]|nil)\s*: list Z", flat)
    v = re.search(r"\bV = (?:\[(.*?)\]|nil)\s*: list \(Z \* Z\)", flat)
    h = re.search(r"\bH = (?:\[(.*?)\]|nil)\s*: list Z", flat)
    hf = re.search(r"\bHF = (?:\[(.*?)\]|nil)\s*: list Z", flat)
    dm = re.search(r"\bDM = (?:\[(.*?)\]|nil)\s*: list Z", flat)
    sq = re.search(r"\bSQ = (?:\[(.*?)\]|nil)\s*: list Z", flat)
    sj = re.search(r"\bSJ = (-?\d+)\s*: Z", flat)
    st = re.search(r"\bST = (?:\[(.*?)\]|nil)\s*: list \(Z \* \(Z \* Z \* \(Z \* Z \* \(Z \* Z\)\)\)\)", flat)
    if not d or not m or not v or not h or not hf or not dm or not sq or not sj or not st:
        return None, None, None, out
    ints = lambda s: [int(x) for x in re.findall(r"-?\d+", s or "")]
    y = re.search(r"\bY = \((\d+), (\d+), (\d+)\)", flat)
    if y:
        ck.extra["hypothesis_checked"] = ck.extra.get("hypothesis_checked", 0) + int(y.group(1))
        ck.extra["hypothesis_holds"] = ck.extra.get("hypothesis_holds", 0) + int(y.group(2))
        ck.extra["observed_trees_meeting_levels_nest_hypotheses"] = ck.extra.get("observed_trees_meeting_levels_nest_hypotheses", 0) + int(y.group(3))
    if ints(d.group(1)):
        return None, None, None, "cases at positions %s of %s did not decode (wire format / rd_case out of step)" % (ints(d.group(1)), name)
    ck.extra.setdefault("hypothesis_fails_in_cases", []).extend(ints(hf.group(1)))
    ck.extra.setdefault("diff_mismatch_cases", []).extend(ints(dm.group(1)))
    ck.extra.setdefault("sql_judge_failed_cases", []).extend(ints(sq.group(1)))
    ck.extra["cases_with_statements_judged"] = ck.extra.get("cases_with_statements_judged", 0) + int(sj.group(1))
    tt = ints(st.group(1))
    ck.extra.setdefault("rejected_statement_totals", {}).update(
        {str(tt[k]): [(tt[k + j + 1] if tt[k + j] else None) for j in (1, 3, 5)] for k in range(0, len(tt), 7)})
    if judge_text:
        rk = re.search(r"\bRK = (?:\[(.*?)\]|nil)\s*: list bool", flat)
        ok = re.search(r"\bOK = (?:\[(.*?)\]|nil)\s*: list bool", flat)
        ck.extra["stmt_render_equal"] = re.findall(r"true|false", rk.group(1) or "") if rk else None
        ck.extra["stmt_shape_ok"] = re.findall(r"true|false", ok.group(1) or "") if ok else None
    vv = ints(v.group(1))
    return ints(m.group(1)), dict(zip(vv[0::2], vv[1::2])), ints(h.group(1)), out


# ---------------------------------------------------------------------------- the re-indexing tie (ProfRewrite.v)
RW_HEADER = ("From Coq Require Import List NArith ZArith Bool Uint63.\nFrom Qryn Require Import model.Pprof model.ProfRewrite model.ProfCase "
             "model.ProfRewriteCase.\nImport ListNotations.\n")
RW_EMPTY = [0] * 14
RW_CAP = 400


def rw_err(m):
    err = (m or {}).get("err", "") or ("panic: " + m["panic"] if (m or {}).get("panic") else "")
    return (0 if err == "" else 1 if err.startswith("incompatible period types") else 2 if err.startswith("incompatible sample types") else 3)


def rw_wire(c):
    w = W()
    w.z(c["id"])
    w.u(len(c["rwin"]))
    for flat in c["rwin"]:
        for x in flat:
            w.u(x)
    w.z(rw_err(c.get("mp")))
    for x in (c.get("rwout") or RW_EMPTY):
        w.u(x)
    return w.out


def eval_rw(ck, name, cases):
    """-> (mismatches {id: code}, spec results {id: code}, (payloads checked, payloads sane), cases judged stack by stack,
    ids of cases with a payload that is not well formed, raw output)"""
    txt = (RW_HEADER + wire_defs("r", [rw_wire(c) for c in cases]) +
           "Definition RW := Eval vm_compute in rw_results %d rs.\n" % RW_CAP +
           "Definition RD := Eval vm_compute in fst (fst (fst (fst (fst RW)))).\nPrint RD.\n"
           "Definition RM := Eval vm_compute in snd (fst (fst (fst (fst RW)))).\nPrint RM.\n"
           "Definition RV := Eval vm_compute in snd (fst (fst (fst RW))).\nPrint RV.\n"
           "Definition RS := Eval vm_compute in snd (fst (fst RW)).\nPrint RS.\n"
           "Definition RJ := Eval vm_compute in snd (fst RW).\nPrint RJ.\n"
           "Definition RN := Eval vm_compute in snd RW.\nPrint RN.\n")
    rc, out = ck.coq_eval(name, txt)
    if rc != 0:
        return None, None, None, None, None, out
    flat = " ".join(out.split()).replace("%Z", "")
    d = re.search(r"\bRD = (?:\[(.*?)\]|nil)\s*: list Z", flat)
    m = re.search(r"\bRM = (?:\[(.*?)\]|nil)\s*: list \(Z \* Z\)", flat)
    v = re.search(r"\bRV = (?:\[(.*?)\]|nil)\s*: list \(Z \* Z\)", flat)
    sn = re.search(r"\bRS = \((\d+), (\d+)\)", flat)
    j = re.search(r"\bRJ = (\d+)\s*: Z", flat)
    nw = re.search(r"\bRN = (?:\[(.*?)\]|nil)\s*: list Z", flat)
    if not d or not m or not v or not sn or not j or not nw:
        return None, None, None, None, None, out
    ints = lambda s: [int(x) for x in re.findall(r"-?\d+", s or "")]
    if ints(d.group(1)):
        return None, None, None, None, None, "rw cases at positions %s of %s did not decode (wire format / rd_rwcase out of step)" % (ints(d.group(1)), name)
    mm, vv = ints(m.group(1)), ints(v.group(1))
    return dict(zip(mm[0::2], mm[1::2])), dict(zip(vv[0::2], vv[1::2])), (int(sn.group(1)), int(sn.group(2))), int(j.group(1)), ints(nw.group(1)), out


def rw_slim(c):
    d = {k: c.get(k) for k in ("id", "kind", "class", "types", "sel", "rwpayloads")}
    if c["kind"] != "rw":
        d = slim(c)
    return d


def ingest_hypotheses(c):
    """the hypotheses of flamegraph_nests_from_ingest, evaluated on the INPUT of an e2e case (and on the stored rows for the
    joint parent determination): every profile stored, selected values >= 0, sum of value x depth < 2^63, one parent per node id
    over all stored rows.  -> expected flame graph total, or None when the theorem does not apply"""
    if c["kind"] != "e2e" or not c.get("profs"):
        return None
    total, weight, parent = 0, 0, {}
    for p in c["profs"]:
        if p["err"] != "" or p.get("bad") in ("trunc", "garbage"):
            return None
        k = next((i for i, t in enumerate(p["st"]) if t == c["sel"]), None)
        for r in p["rows"] or []:
            if parent.setdefault(r["i"], r["p"]) != r["p"]:
                return None
        if k is None:
            continue
        for sm in p["samples"] or []:
            v = sm["values"][k]
            if v < 0:
                return None
            total += v
            weight += v * max(1, len(sm["stack"]))
    return total if weight < (1 << 63) else None


def levels_nest_py(levels, total):
    """independent reading of the conclusion of levels_nest on the observed levels (4 numbers per bar)"""
    if not levels or levels[0] != [0, total, 0, 0]:
        return False
    prev = [(0, total)]
    for lv in levels[1:]:
        cur, x = [], 0
        for j in range(0, len(lv), 4):
            off, tot = lv[j], lv[j + 1]
            if off < 0 or tot < 0:
                return False
            s0 = x + off
            if not any(a <= s0 and s0 + tot <= b for a, b in prev):
                return False
            cur.append((s0, s0 + tot))
            x = s0 + tot
        prev = cur
    return True


def projection_agrees(c):
    """the harness' SQL emulation (mrows) against an independent projection of the observed stored rows:
    per (parent, fn, id) key the wrapped sums of self and total must agree (linear time; this ties the rows fed to
    MergeTrie to the rows the writer stored, it says nothing about the code under test)"""
    def wrap(z):
        return (z + (1 << 63)) % (1 << 64) - (1 << 63)
    want, got = {}, {}
    for p in c["profs"] or []:
        for r in p["rows"] or []:
            s = t = 0
            for k, tok in enumerate(r["vn"] or []):
                if tok == c["sel"]:
                    s, t = r["v"][k]
                    break
            a = want.setdefault((r["p"], r["f"], r["i"]), [0, 0])
            a[0], a[1] = wrap(a[0] + s), wrap(a[1] + t)
    for m in c["mrows"] or []:
        a = got.setdefault((m["p"], m["f"], m["i"]), [0, 0])
        a[0], a[1] = wrap(a[0] + m["s"]), wrap(a[1] + m["t"])
    return want == got


def case_size(c):
    return (sum(len(p["samples"] or []) + sum(len(s["stack"]) for s in (p["samples"] or [])) + (p.get("pad", 0) + p.get("tagpad", 0)) // 1000
                for p in (c["profs"] or [])) + len(c["mrows"] or []))


def shrink(ck, c, budget=12):
    """greedy reduction of a failing case: drop profiles, halves of the samples, single samples, halves of synthetic rows;
    a candidate is kept when the harness + Coq still report it (spec result 2, model mismatch or statement judge).
    At most [budget] evaluations; returns the smallest failing case seen (with its observations)."""
    def fails(cand):
        inp = os.path.join(ck.work, "shrink_in.jsonl")
        outp = os.path.join(ck.work, "shrink_out.jsonl")
        open(inp, "w").write(json.dumps(cand) + "\n")
        rc, _ = ck.go_run("proftree", ["--cases", inp, "--out", outp])
        if rc != 0:
            return None
        r = json.loads(open(outp).readline())
        r["id"] = 1
        templates, problems = attach_statements([r])
        saved = dict(ck.extra)
        for k in ("sql_judge_failed_cases", "diff_mismatch_cases", "hypothesis_fails_in_cases"):
            ck.extra[k] = []
        ck.extra["rejected_statement_totals"] = {}
        m, v, h, out = eval_cases(ck, "C16_shrink", [r], [], templates, False)
        sq = list(ck.extra.get("sql_judge_failed_cases", []))
        r["_stmt_total"] = ck.extra.get("rejected_statement_totals", {}).get("1")
        ck.extra.clear()
        ck.extra.update(saved)
        if m is None:
            return None
        return r if (m or v.get(1) == 2 or sq or problems) else None

    best, used = c, 0
    progress = True
    while progress and used < budget:
        progress = False
        cands = []
        base = slim(best)
        profs = base.get("profs") or []
        if len(profs) > 1:
            for i in range(len(profs)):
                d = json.loads(json.dumps(base))
                del d["profs"][i]
                cands.append(d)
        for i, p in enumerate(profs):
            n = len(p.get("samples") or [])
            cuts = [(0, n // 2), (n // 2, n)] if n > 2 else [(j, j + 1) for j in range(n)] if n > 1 else []
            for a, b in cuts:
                d = json.loads(json.dumps(base))
                d["profs"][i]["samples"] = d["profs"][i]["samples"][:a] + d["profs"][i]["samples"][b:]
                cands.append(d)
        if base.get("kind") == "rows" and len(base.get("mrows") or []) > 1:
            n = len(base["mrows"])
            for a, b in ((0, n // 2), (n // 2, n)):
                d = json.loads(json.dumps(base))
                d["mrows"] = d["mrows"][:a] + d["mrows"][b:]
                cands.append(d)
        for d in cands:
            if used >= budget:
                break
            used += 1
            r = fails(d)
            if r is not None:
                r["class"] = best.get("class")
                best, progress = r, True
                break
    ck.extra["shrink_evaluations"] = used
    return best


def wrap64(z):
    return (z + (1 << 63)) % (1 << 64) - (1 << 63)


def stored_view(c):
    """what the stored profiles of an e2e case put into the flame graph of the selected type: the sum of the root totals of
    every stored tree (= sum of the selected sample values, by the root-sum oracle), per profile and together, and the groups
    of profiles whose raw rows (tree projected on the selected type, functions) are identical"""
    per, same = [], {}
    for i, p in enumerate(c["profs"] or []):
        rows, tot = [], 0
        for r in p["rows"] or []:
            s = t = 0
            for k, tok in enumerate(r["vn"] or []):
                if tok == c["sel"]:
                    s, t = r["v"][k]
                    break
            rows.append((r["p"], r["f"], r["i"], s, t))
            if r["p"] == 0:
                tot = wrap64(tot + t)
        per.append(tot)
        if p["rows"]:
            same.setdefault(json.dumps([rows, p["funcs"]]), []).append(i)
    return per, [g for g in same.values() if len(g) > 1]


def has_empty_stack(c):
    return any(len(s["stack"]) == 0 and any(v != 0 for v in s["values"]) for p in (c["profs"] or []) for s in (p["samples"] or []))


def slim(c):
    """a replay object without the bulky observations"""
    d = {k: c.get(k) for k in ("id", "kind", "class", "names", "types", "sel", "mode", "perm")}
    d["profs"] = [{k: p.get(k, 0) for k in ("path", "st", "pad", "tagpad", "inl", "bad", "samples", "fail")} for p in (c["profs"] or [])]
    if c["kind"] == "rows":
        d["mrows"], d["mfuncs"] = c["mrows"], c["mfuncs"]
    return d


def run_rw(ck, cases, rwcases, rwres):
    """the re-indexing of the payload merge: model = implementation on the whole merged message, specification oracle on the
    observed message, hypotheses of the merge theorem on the payloads"""
    mm, vv, sane, judged, notwf, out = rwres
    if mm is None:
        ck.obligation("payload merges evaluated inside Coq (coq/model/ProfRewriteCase.v)", False, out[-2000:])
        return
    byid = {c["id"]: c for c in rwcases}
    nrw = sum(1 for c in rwcases if c["kind"] == "rw")
    nmerged = sum(1 for c in rwcases if c.get("rwout") and rw_err(c.get("mp")) == 0)
    nrefused = sum(1 for c in rwcases if rw_err(c.get("mp")) in (1, 2))
    ck.extra["payload_merges"] = len(rwcases)
    ck.extra["payload_merges_of_built_messages"] = nrw
    ck.extra["payload_merges_answered"] = nmerged
    ck.extra["payload_merges_refused_incompatible"] = nrefused
    ck.extra["payload_merges_judged_stack_by_stack"] = judged
    ck.extra["payload_merges_with_malformed_payload"] = len(notwf)
    parts = ["strings", "sample/period types", "functions", "mappings", "locations", "samples", "header numbers"]
    def what(code):
        if code >= 2000:
            return "error verdict differs (model says %d)" % (code - 2000)
        return "differs in " + ", ".join(n for i, n in enumerate(parts) if (code - 1000) >> i & 1)
    ck.obligation("correspondence: merge_payloads (sanitizeProfile, the five RewriteTableV2 tables, combineHeaders, Profile) = the whole message "
                  "answered by ProfService.MergeProfiles -- string table, sample types, functions, mappings, locations, samples with labels, "
                  "header numbers, or the refusal -- on %d payload merges (%d of writer-stored payloads, %d of built messages; %d answered, "
                  "%d refused as incompatible)" % (len(rwcases), len(rwcases) - nrw, nrw, nmerged, nrefused),
                  not mm and nrw > 0 and nmerged > 0 and nrefused > 0, "; ".join("case %d %s" % (i, what(k)) for i, k in sorted(mm.items())[:6]))
    bad_e2e = [i for i in notwf if byid[i]["kind"] == "e2e"]
    ck.obligation("every payload the writer stored is well formed (wf_raw_b: distinct non-zero ids, every reference resolves, one value per "
                  "sample type) -- the hypothesis under which the merged profile is judged; %d built cases hold a malformed payload" % (len(notwf) - len(bad_e2e)),
                  not bad_e2e and len(notwf) > len(bad_e2e), "cases %s" % bad_e2e[:10])
    ck.obligation("sanitize_sane (a theorem since round 8, for EVERY payload) cross-checked by evaluation: sanitizeProfile of every decoded payload, "
                  "malformed ones included, is sane (first string empty, ids 1..n, references in range, one value per type): %d of %d payloads"
                  % (sane[1], sane[0]), sane[0] > 0 and sane[0] == sane[1], "")
    viol = sorted(i for i, k in vv.items() if k != 0)
    closed_malformed = sum(1 for i in notwf if rw_err(byid[i].get("mp")) == 0 and byid[i].get("rwout"))
    ck.extra["payload_merges_with_malformed_payload_judged_closed"] = closed_malformed
    ck.obligation("merged_profile_closed judged on the OBSERVED merged message of every answered merge (closed_b: function / location ids 1..n, "
                  "every function and location reference and every function string index resolves, one value per sample type; rw_spec code 5): "
                  "%d answered merges, %d of them with a malformed payload" % (nmerged, closed_malformed),
                  not any(k == 5 for k in vv.values()) and closed_malformed > 0, "case ids %s" % [i for i in viol if vv[i] == 5][:10])
    ck.obligation("spec oracle on the OBSERVED merged profile (well-formed payloads): no panic, per-type totals = sums over the payloads, every resolved "
                  "stack of functions carries the sum of its weights in the payloads (%d merges judged stack by stack)" % judged,
                  not viol and judged > 0, "case ids %s" % [(i, vv[i]) for i in viol[:10]])
    if viol:
        worst = min((byid[i] for i in viol), key=lambda c: sum(len(x) for x in c["rwin"]))
        ck.violation({"property": "C16", "kind": ("the merged profile answered by MergeProfiles is not closed (a dangling function / location reference, ids not 1..n "
                                                  "or a sample without one value per sample type)" if vv[worst["id"]] == 5 else
                                                  "the merged profile answered by MergeProfiles does not carry the weights of the payloads"),
                      "case": rw_slim(worst), "code": vv[worst["id"]], "error": (worst.get("mp") or {}).get("err"), "panic": (worst.get("mp") or {}).get("panic"),
                      "explanation": "rw_spec (coq/model/ProfRewriteCase.v): 2 = panic / unknown error, 3 = per-type totals differ, 4 = a resolved stack carries "
                      "another weight than in the payloads together, 5 = the merged message is not closed (a dangling function / location reference, "
                      "ids not 1..n, a sample without one value per sample type: theorem merged_profile_closed)",
                      "replay": "write the case as one JSON line and run: proftree --cases <file> (rwpayloads = the protobuf messages, base64)"})
    elif mm:
        worst = min((byid[i] for i in mm), key=lambda c: sum(len(x) for x in c["rwin"]))
        ck.violation({"property": "C16", "kind": "model of the payload merge and implementation disagree; the oracle still accepts the merged profile",
                      "case": rw_slim(worst), "difference": what(mm[worst["id"]]), "broken": "correspondence ProfRewrite.v vs reader/service/profMerge_v1.go, profMerge_v2.go"},
                     no_input=True)


def run_corr(ck):
    if not ck.go_build("proftree"):
        ck.obligation("harness proftree builds against the repository", False, ck.build_out[-1500:])
        return
    ok, out = ck.coq_make(["model/ProfCase.vo", "model/ProfRewriteCase.vo"])
    if not ck.obligation("coq/model/ProfCase.v, ProfRewriteCase.v (case decoders and oracles) compile", ok, out[-800:]):
        return
    n = int(os.environ.get("C16_N", "0")) or ck.n(250, 7500)  # C16_N: development only
    cases = []
    corpus = os.path.join(HERE, "corpus", "C16", "cases.jsonl")
    if os.path.exists(corpus):
        outp = os.path.join(ck.work, "corpus_out.jsonl")
        rc, out = ck.go_run("proftree", ["--cases", corpus, "--out", outp])
        if rc != 0:
            ck.obligation("harness proftree ran the corpus", False, out[-1500:])
            return
        cs = [json.loads(l) for l in open(outp)]
        for i, c in enumerate(cs):
            c["id"] = 1000000 + i
            c["class"] = "corpus:" + c["class"]
        cases += cs
    outp = os.path.join(ck.work, "gen.jsonl")
    rc, out = ck.go_run("proftree", ["--seed", ck.seed, "--n", n, "--out", outp])
    if rc != 0:
        ck.obligation("harness proftree ran", False, out[-1500:])
        return
    cases += [json.loads(l) for l in open(outp)]
    hashes = [c for c in cases if c["kind"] == "hash"]
    tcases = [c for c in cases if c["kind"] in ("e2e", "rows")]
    # the re-indexing tie: every case whose payloads went through MergeProfiles (kind e2e: the payloads the writer stored; kind rw:
    # payloads built as protobuf messages)
    rwcases = [c for c in cases if c["kind"] in ("e2e", "rw") and c.get("rwin") is not None and all(x is not None for x in c["rwin"])]
    byid = {c["id"]: c for c in tcases}
    mism, spec, hm = [], {}, []
    # the insert service: what the property is judged on is the block finally ACCEPTED by the (fake) ClickHouse client;
    # blocks of failed attempts, of the accepted attempt and the parser output must be the same row, the request untouched
    stored = [(c, p) for c in tcases if c["kind"] == "e2e" for p in (c["profs"] or []) if p["err"] == "" or p.get("attempts")]
    retried = [(c, p) for c, p in stored if p.get("fail", 0) > 0 and p.get("attempts", 0) >= 2]
    bad_idem = [c for c, p in stored if not p.get("req_unchanged", True) or len(set(p.get("blocks") or []) | {p.get("parsed_digest")}) != 1
                or not p.get("acked") or (p.get("block_ok") or []) != [False] * p.get("fail", 0) + [True]]
    ck.extra["profiles_through_insert_service"] = len(stored)
    ck.extra["profiles_with_failed_insert_and_retry"] = len(retried)
    ck.obligation("process_request_idempotent on the real insert service: %d profiles pushed through impl.NewProfileSamplesInsertService "
                  "(%d with a failed first insert and a re-submission of the same request): the request is left unchanged and every block "
                  "handed to the client (failed and accepted attempts) equals the parser's row" % (len(stored), len(retried)),
                  not bad_idem and len(retried) > 0, "case ids %s" % [c["id"] for c in bad_idem[:10]])
    if bad_idem:
        worst = min(bad_idem, key=case_size)
        ck.violation({"property": "C16", "kind": "the insert service changed the profile request or stored a different row on the retry",
                      "case": slim(worst), "explanation": "blocks handed to the ClickHouse client for one request differ from each other / from the parser output "
                      "(profs[].fail = number of failed inserts before the accepted one); the tree stored on the retry is judged by the conservation oracles as well",
                      "replay": "write the case as one JSON line and run: proftree --cases <file>"})
    # the same rows through the service: ProfService.MergeStackTraces over the scripted database must answer exactly what
    # the direct MergeTrie/BFS/Total/MaxSelf calls gave (which Coq compares with the model below)
    svc_bad = [c["id"] for c in tcases if not c.get("svc") or c["svc"].get("err") or c.get("panic") or
               (c["svc"].get("names") or []) != (c.get("tnames") or []) or (c["svc"].get("levels") or []) != (c.get("levels") or []) or
               [c["svc"].get("total")] != (c.get("total") or []) or [c["svc"].get("maxself")] != (c.get("maxself") or [])]
    svc_bad = [i for i in svc_bad if not byid[i].get("panic")]
    ck.obligation("ProfService.MergeStackTraces (PlanMergeTraces -> statement -> Scan -> getTree -> BFS -> response) returns the names, "
                  "levels, total and maxSelf of the direct Tree.MergeTrie/BFS calls on the same rows: %d cases" % len(tcases),
                  not svc_bad, "case ids %s" % svc_bad[:10])
    if svc_bad:
        worst = min((byid[i] for i in svc_bad), key=case_size)
        ck.violation({"property": "C16", "kind": "the flame graph answered by ProfService.MergeStackTraces differs from Tree.MergeTrie/BFS on the same rows",
                      "case": slim(worst), "service": {k: worst["svc"].get(k) for k in ("err", "names", "levels", "total", "maxself")},
                      "direct": {k: worst.get(k) for k in ("tnames", "levels", "total", "maxself")},
                      "replay": "write the case as one JSON line and run: proftree --cases <file>"})
    templates, problems = attach_statements(tcases)
    ck.extra["statement_templates"] = len(templates)
    ck.obligation("every statement sent by the service for a flame graph is inside the modelled fragment (coq/model/ProfSql.v merge_stmt) "
                  "and the statements of one case differ only in the time window: %d templates" % len(templates),
                  not problems and len(templates) > 0, "; ".join("case %s: %s" % x for x in problems[:3]))
    bad_proj = [c["id"] for c in tcases if c["kind"] == "e2e" and not projection_agrees(c)]
    ck.obligation("harness projection of the stored rows (SQL emulation) agrees with an independent projection", not bad_proj,
                  "case ids %s" % bad_proj[:10])
    # shard by size so that one coqc run stays short
    shards, cur, cur_sz = [], [], 0
    for c in tcases:
        cur.append(c)
        cur_sz += case_size(c) + 20
        if cur_sz > (12000 if ck.tier == "quick" else 40000):
            shards.append(cur)
            cur, cur_sz = [], 0
    if cur:
        shards.append(cur)
    # the shards are independent coqc runs: evaluate them side by side (results are parsed under a lock)
    with ThreadPoolExecutor(max_workers=4) as pool:
        rwfut = pool.submit(eval_rw, ck, "C16_rw", rwcases)
        futs = [pool.submit(eval_cases, ck, "C16_cases_%d" % k, sh, hashes if k == 0 else [], templates, k == 0) for k, sh in enumerate(shards)]
        results = [f.result() for f in futs]
        rwres = rwfut.result()
    for m, v, h, out in results:
        if m is None:
            ck.obligation("generated cases evaluated inside Coq", False, out[-2000:])
            return
        mism += m
        spec.update(v)
        hm += h
    hc, hh = ck.extra.get("hypothesis_checked", 0), ck.extra.get("hypothesis_holds", 0)
    # the only profiles on which the hypothesis may fail are the recorded collision witnesses (spec result 3)
    hyp_fail = sorted(set(ck.extra.get("hypothesis_fails_in_cases", [])))
    unexplained = [i for i in hyp_fail if spec.get(i) != 3]
    ck.obligation("hypothesis of tree_conserves (node ids determine the parent on the occurring triples) holds under the real hash "
                  "on every checked generated profile (%d of %d; it fails exactly on the recorded collision witnesses %s)" % (hh, hc, hyp_fail),
                  hc > 0 and not unexplained,
                  "cases %s: a collision of city.CH64>>9 inside one profile that is not a recorded witness: the theorem does not apply to that profile" % unexplained[:10])
    rk, oks = ck.extra.get("stmt_render_equal"), ck.extra.get("stmt_shape_ok")
    ck.obligation("the statement parser is faithful: render_stmt (coq/model/ProfSql.v) of every parsed template equals the text the "
                  "service sent, byte for byte (%d templates)" % len(templates), rk is not None and len(rk) == len(templates) and all(x == "true" for x in rk), str(rk))
    ck.obligation("every template has the shape the read-path theorems are about (stmt_ok: projection x.1,x.2,x.3, arrayFirst on the "
                  "type name over x.4 -> .2/.3, GROUP BY the three ids with sum of both values, ORDER BY parent, LIMIT = node limit, groupArray)",
                  oks is not None and len(oks) == len(templates) and all(x == "true" for x in oks), str(oks))
    sqbad = sorted(set(ck.extra.get("sql_judge_failed_cases", [])))
    nj = ck.extra.get("cases_with_statements_judged", 0)
    ck.obligation("the statements evaluate (eval_merge_stmt on the rows the writer stored, time window included) to the rows handed to the "
                  "service, for MergeStackTraces and both sides of RenderDiff: %d cases judged" % nj, not sqbad and nj > 0, "case ids %s" % sqbad[:10])
    # generator reach: databases holding the same stored profile more than once (a multiset, not a set, of profiles) are among
    # the judged ones -- what a statement that reads the stored profiles as a set (SELECT DISTINCT in the raw select) gets wrong
    rep = [c for c in tcases if c["kind"] == "e2e" and c.get("_stmt", -1) >= 0 and sum(len(p["rows"] or []) for p in c["profs"]) <= 150
           and stored_view(c)[1]]
    ck.extra["judged_cases_with_repeated_stored_profiles"] = len(rep)
    ck.extra["judged_cases_with_repeated_stored_profiles_by_multiplicity"] = {
        str(k): sum(1 for c in rep if max(len(g) for g in stored_view(c)[1]) == k) for k in (2, 3, 4)}
    ck.obligation("the databases the statements are judged on include repeated stored profiles (identical tree and functions columns: "
                  "the same profile scraped twice, A,B,A): %d judged cases" % len(rep), len(rep) >= 2, "the generator / corpus produced none")
    ck.extra["statement_templates_with_distinct"] = sum(1 for st, _ in templates if st.get("distinct") or st.get("distinct_pre"))
    if sqbad:
        first = min((byid[i] for i in sqbad), key=case_size)
        first["_stmt_total"] = ck.extra.get("rejected_statement_totals", {}).get(str(first["id"]))
        worst = shrink(ck, first)
        per, same = stored_view(worst)
        split = (worst.get("diff") or {}).get("split", 0)
        got = worst.get("_stmt_total") or [None, None, None]
        ck.violation({"property": "C16", "kind": "the statement of PlanMergeTraces does not compute the projection/grouping the flame graph is built from",
                      "case": slim(worst), "statement": worst["svc"]["sql"],
                      "expected_total": wrap64(sum(per)), "stored_root_totals_per_profile": per,
                      "total_the_statement_evaluates_to": got[0],
                      "diff_split": split, "expected_left_right_totals": [wrap64(sum(per[:split])), wrap64(sum(per[split:]))],
                      "left_right_totals_the_statements_evaluate_to": got[1:],
                      "profiles_with_identical_stored_rows": same,
                      "explanation": "eval_merge_stmt (coq/model/ProfSql.v) of the parsed statement on the stored rows of this case differs from "
                      "group-by-(parent,function,node) sums of the rows projected on the selected sample type: the flame graph built from the "
                      "statement's answer has total_the_statement_evaluates_to (null: the statement has no value in the model) where the stored "
                      "profiles (profs, all inside the window of MergeStackTraces) put expected_total; likewise for the two statements of RenderDiff (left = profiles "
                      "[0, diff_split), right = the rest; profile i is stored at second i); a raw select that is a SELECT DISTINCT reads "
                      "profiles with identical stored rows once (theorem distinct_statement_refuted)",
                      "replay": "write the case as one JSON line and run: proftree --cases <file>"})
    dmm = sorted(set(ck.extra.get("diff_mismatch_cases", [])))
    ndiff = sum(1 for c in tcases if c.get("diff") and not c["diff"].get("skipped"))
    nrefused = sum(1 for c in tcases if c.get("diff") and "not positive" in (c["diff"].get("err") or ""))
    ck.extra["diff_views"] = ndiff
    ck.extra["diff_views_refused_not_positive"] = nrefused
    ck.obligation("correspondence: render_diff (assertPositive, synchronizeNames, mergeNodes, computeFlameGraphDiff, diffToFlameBearer) = "
                  "ProfService.RenderDiff on %d diff views (%d refused for a negative self value)" % (ndiff, nrefused),
                  not dmm and ndiff > 0, "case ids (diff view or merged profile differs from the model) %s" % dmm[:10])
    nmp = sum(1 for c in tcases if c["kind"] == "e2e" and c.get("mp"))
    nmp_merged = sum(1 for c in tcases if c["kind"] == "e2e" and c.get("mp") and not c["mp"].get("err") and not c["mp"].get("panic") and c["mp"].get("samples"))
    nmp_panic = [c["id"] for c in tcases if c["kind"] == "e2e" and c.get("mp") and c["mp"].get("panic")]
    ck.extra["merge_profiles_runs"] = nmp
    ck.extra["merge_profiles_with_samples"] = nmp_merged
    ck.obligation("ProfService.MergeProfiles (pprof payload merge, profMerge_v2) ran on the stored payloads of %d cases without a panic "
                  "(%d merged profiles with samples; compared with merge_profiles inside Coq as part of the correspondence)" % (nmp, nmp_merged),
                  nmp > 0 and nmp_merged > 0 and not nmp_panic, "panic in cases %s: %s" % (nmp_panic[:10], [byid[i]["mp"]["panic"] for i in nmp_panic[:1]]))
    run_rw(ck, cases, rwcases, rwres)
    ck.obligation("city16 (model of city.CH64 on 16 bytes) = implementation on %d buffers" % len(hashes), not hm, "ids %s" % hm[:10])
    ck.obligation("correspondence: post_process / merge_trie / bfs = implementation on %d cases" % len(tcases), not mism,
                  "mismatching case ids: %s" % mism[:10])
    # the end-to-end theorem against the implementation: whenever the INPUT of a case meets the hypotheses of
    # flamegraph_nests_from_ingest, the flame graph the service answered must have the conclusion (read here independently of Coq)
    applies = [(c, ingest_hypotheses(c)) for c in tcases]
    # (the walked triples are not visible here: a profile whose triples collide under the real hash is known from the Coq run)
    collided = set(ck.extra.get("hypothesis_fails_in_cases", [])) | {i for i, r in spec.items() if r in (3, 4)}
    applies = [(c, t) for c, t in applies if t is not None and c["id"] not in collided]
    e2e_bad = [c["id"] for c, t in applies if not c.get("svc") or c["svc"].get("err") or c["svc"].get("total") != t or
               not levels_nest_py(c["svc"].get("levels") or [], t)]
    ck.extra["cases_meeting_hypotheses_of_flamegraph_nests_from_ingest"] = len(applies)
    ck.obligation("flamegraph_nests_from_ingest against the service: %d e2e cases meet its hypotheses on their input (non-negative selected values, "
                  "no overflow, one parent per stored node id); for each the answered flame graph has level 0 = [0, sum of the selected values) "
                  "and every bar inside a bar one level up" % len(applies), len(applies) > 0 and not e2e_bad, "case ids %s" % e2e_bad[:10])
    if e2e_bad:
        worst = min((byid[i] for i in e2e_bad), key=case_size)
        ck.violation({"property": "C16", "kind": "the flame graph of profiles meeting the hypotheses of flamegraph_nests_from_ingest does not nest / has another total",
                      "case": slim(worst), "answered": {k: worst["svc"].get(k) for k in ("levels", "total")},
                      "replay": "write the case as one JSON line and run: proftree --cases <file>"})
    viol = [i for i, r in spec.items() if r == 2]
    findings = ck.known_findings()
    # results 3 / 4 are the two recorded node-id collision findings, keyed by the collision itself: 3 = the hypothesis of
    # tree_conserves fails under the real hash for a profile of the case (two frames, different parents, one node id) and only
    # per-node conservation is broken; 4 = every profile is fine but the merged tree holds one node id under two parents
    for res, fid, what in ((3, COLLISION_IN, "two frames of one profile with different parents share a node id (55 bits of city.CH64): "
                            "the second frame's weight goes to the first frame's node, its own parent keeps a total no child accounts for, "
                            "the bar of the shared node is wider than its parent's"),
                           (4, COLLISION_ACROSS, "two profiles store the same node id under different parents: Tree.Nodes is keyed by the "
                            "parent's id alone and BFS returns at the first id met twice, the flame graph loses the levels from there on")):
        for i in sorted(k for k, r in spec.items() if r == res):
            if fid in findings and str(byid[i]["class"]).startswith("corpus:"):
                ck.report_known(fid, "case %d (%s): %s" % (i, byid[i]["class"], what))
            else:
                viol.append(i)
        if fid in findings and not any(r == res for r in spec.values()):
            ck.obligation("known finding %s still reproduces on its corpus witness" % fid, False,
                          "no corpus case showed it: remove the finding line if the code was repaired")
    ck.obligation("spec oracles (stored once, per-node conservation, root sum, merged = sum, levels nest) accept every observation",
                  not viol, "violating case ids: %s" % viol[:10])
    if viol:
        worst = shrink(ck, min((byid[i] for i in viol), key=case_size))
        ck.violation({"property": "C16", "kind": "observed rows/tree/levels violate the property", "case": slim(worst),
                      "explanation": "case_spec (coq/model/ProfCase.v) rejects the implementation's observations for this input",
                      "replay": "write the case as one JSON line and run: proftree --cases <file>"})
    elif mism:
        worst = min((byid[i] for i in mism), key=case_size)
        ck.violation({"property": "C16", "kind": "model and implementation disagree; the property's oracles still accept the observations",
                      "case": slim(worst), "broken": "correspondence Pprof.v/ProfTree.v vs writer/reader"}, no_input=True)
    # coverage
    hist, distinct = {}, set()
    for c in cases:
        hist[c["class"]] = hist.get(c["class"], 0) + 1
        if c["kind"] in ("hash", "rw"):
            continue
        nodes = sum(len(p["rows"] or []) for p in (c["profs"] or [])) if c["kind"] == "e2e" else len(c["mrows"] or [])
        if nodes >= 3 and len(c["levels"] or []) >= 3:
            distinct.add(json.dumps(slim(c), sort_keys=True))
    ck.coverage["evaluations"] += len(cases)
    ck.coverage["distinct_nontrivial"] += len(distinct)
    ck.coverage["rule"] += ("e2e: 1-5 generated pprof profiles (1-4 sample types, 0-200 samples, depth 0-610 crossing the 511 clamp, recursion, "
                            "shared prefixes, locations without line info, inlined lines, negative and overflowing values, >1 MiB type name / tags, "
                            "damaged bytes) through the exported parsers (binary, gzip, multipart), then MergeTrie/BFS on a shuffled raw or grouped "
                            "projection; rows: synthetic well-formed and adversarial row lists to the reader alone; non-trivial = >= 3 stored nodes "
                            "and >= 3 levels, distinct by input content. ")
    ck.extra["input_distribution"] = hist
    deep = [max([len(s["stack"]) for p in (c["profs"] or []) for s in (p["samples"] or [])] or [0]) for c in tcases]
    ck.extra["cases_with_a_stack_deeper_than_511"] = sum(1 for d in deep if d > 511)
    ck.obligation("the run contains stacks deeper than 511 frames (beyond the levels a node id can carry)",
                  any(d > 511 for d in deep), "no generated or corpus case crossed the depth clamp")
    ck.add_samples([slim(c) for c in tcases if case_size(c) < 40][:3])


def run_consts(ck):
    """translator: constants of the source = constants of the models"""
    env = dict(os.environ, VERIF_REPO=vcheck.REPO)
    rc, out = vcheck.sh([os.path.join(HERE, "translate", "gen_proftree")], env=env, timeout=120)
    ck.checker_cmds.append("translate/gen_proftree")
    if not ck.obligation("translator gen_proftree read the constants of %s" % vcheck.REPO, rc == 0, out[-1500:]):
        return
    ok, out = ck.coq_make(["gen/ProfConsts.vo"])
    if not ck.obligation("coq/gen/ProfConsts.v compiles", ok, out[-800:]):
        return
    txt = ("From Coq Require Import NArith ZArith Bool List.\nFrom Qryn Require Import model.Pprof model.ProfTree gen.ProfConsts.\n"
           "Definition K := Eval vm_compute in (Z.eqb src_nodes_limit the_limit, Z.eqb src_names_limit the_limit, "
           "Z.leb src_sql_limit the_limit, N.eqb src_depth_clamp depth_clamp, N.eqb src_hash_shift hash_shift, "
           "N.eqb src_depth_shift depth_shift, Z.eqb src_size_limit 1048576, "
           "Z.ltb 0 src_tree_lits && Z.eqb src_tree_lits_setting_sample_types 0, "
           "Z.ltb 0 src_tree_new_calls && negb (Nat.eqb (length src_tree_sample_types_writes) 0) && forallb (Z.eqb 1) src_tree_sample_types_writes).\nPrint K.\n")
    rc, out = ck.coq_eval("C16_consts", txt)
    flat = " ".join(out.split())
    m = re.search(r"K = \(([a-z, ]+)\)", flat)
    ck.extra["tree_construction_sites"] = [l.strip() for l in open(os.path.join(HERE, "coq", "gen", "ProfConsts.v")).read().split("construction sites of reader/service.Tree:")[1].split("*)")[0].splitlines() if l.strip()]
    vals = [x.strip() for x in m.group(1).split(",")] if (rc == 0 and m) else []
    names = ["MergeTrie node limit = the_limit", "MergeTrie names limit = the_limit", "SQL LIMIT <= the_limit (the guard of merge_is_sum)",
             "depth clamp", "hash shift", "depth shift", "onProfile size threshold = 1 MiB (what the big classes cross)",
             "no literal of reader/service.Tree sets SampleTypes (every construction site of the repository, translate/treesites_src)",
             "every write of a SampleTypes field in the repository assigns a ONE-element []string literal: no caller builds a "
             "multi-sample-type Tree (the reader model ProfTree.v is for one sample type)"]
    for i, nm in enumerate(names):
        ck.obligation("source constant: " + nm, len(vals) == len(names) and vals[i] == "true", out[-300:])


def run(ck):
    ck.trusted += [
        "C16: ClickHouse's evaluation of the statement of PlanMergeTraces is modelled by eval_merge_stmt (coq/model/ProfSql.v: arrayMap/arrayFirst with its "
        "default tuple, ARRAY JOIN, GROUP BY, Int64 sum wrap-around, ORDER BY, LIMIT, groupArray) -- no ClickHouse in the sandbox; the statement TEXT is the "
        "real one (parsed, re-rendered byte for byte, evaluated); the fingerprint selection and label matchers inside it are property C17's; the materialized "
        "view copies tree/functions unchanged (read)",
        "C16: github.com/google/pprof/profile is trusted to parse what it serialised (it rejects value arrays of the wrong length)",
        "C16: fnId = city.CH64(name) enters as a table computed by the harness with the same library; city.CH64 on the 16-byte node buffer is modelled (city16) and compared",
        "C16: the Tree is modelled for one sample type (the only way reader/service builds it)",
        "C16: the python statement parser is not trusted (render_stmt parsed = text is proved per template every run); name tokens stand for name strings "
        "(distinct names of a case have distinct tokens)",
    ]
    run_consts(ck)
    ck.coq_props()
    run_corr(ck)
