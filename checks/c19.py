"""C19 — retention settings converge to the configuration and re-applying them is a no-op.

model/Rotate.v transcribes ctrl/qryn/maintenance/rotate.go (Rotate, rotateTables, storagePolicyUpdate,
forgetSetting, getSetting/putSetting, the TTL expression builder, the DJB settings key) over a database of
table TTL/policy + the settings map, with a fault at any call index.  props/C19.v states the property for
every configuration, database, fault and history.  Correspondence: the exported maintenance.Rotate is driven
against a fake clickhouse-go Conn through generated histories (configuration changes, faults at call
indexes); inside Coq the model is run on the same histories and compared call by call (exact SQL text and
arguments, error result, database state), and the property's boolean oracle (tier minimum, record only after
all ALTERs, converged after an uninterrupted run, silent repeat) is evaluated on the OBSERVED logs/states.
"""
import json
import os
import re

import time

import vcheck
from vcheck import coq_list, coq_Z, coq_string

PID = "C19"
TABLES = ["time_series", "time_series_gin", "samples_v3", "tempo_traces", "tempo_traces_attrs_gin",
          "tempo_traces_kv", "metrics_15s"]


class Interner:
    """distinct strings become one Definition each (the same SQL text occurs thousands of times)"""

    def __init__(self):
        self.ids = {}
        self.defs = []

    def s(self, x):
        if x == "":
            return '""'
        if x not in self.ids:
            n = "s%d" % len(self.ids)
            self.ids[x] = n
            self.defs.append("Definition %s : string := %s." % (n, coq_string(x)))
        return self.ids[x]


def b(x):
    return "true" if x else "false"


def cfg_to_coq(I, c):
    days = coq_list(["{| p_ns := %s; p_disk := %s |}" % (coq_Z(p["ns"]), I.s(p["disk"])) for p in c["days"]])
    return "{| cluster := %s; distributed := %s; days := %s; drop_days := %s; storage_policy := %s |}" % (
        I.s(c["cluster"]), b(c["dist"]), days, coq_Z(c["drop"]), I.s(c["policy"]))


def arg_to_coq(I, a):
    if a.get("s") is not None:
        return "AS %s" % I.s(a["s"])
    return "AN %s" % coq_Z(a["n"])


def dbo_to_coq(I, d):
    els = coq_list(["{| e_timeout := %s; e_move_to := %s |}" % (I.s(e["timeout"]), I.s(e["move_to"])) for e in d["ttl_policy"]])
    return "{| o_cluster := %s; o_ttl_policy := %s; o_ttl_days := %s; o_storage_policy := %s |}" % (
        I.s(d["cluster"]), els, coq_Z(d["ttl_days"]), I.s(d["policy"]))


def shared_cluster(dbos):
    """two objects naming different databases and the same non-empty cluster_name"""
    return any(a["cluster"] and a["cluster"] == x["cluster"] and a.get("db", "") != x.get("db", "") for a in dbos for x in dbos)


DB_NAMES = {"": 0}


def db_index(name):
    """database names of the harness ("vdb_a" ...) as the model's indexes; 0 = the history's only database"""
    if name not in DB_NAMES:
        DB_NAMES[name] = len(DB_NAMES)
    return DB_NAMES[name]


EMPTY_CFG = '{| cluster := ""; distributed := false; days := []; drop_days := 0; storage_policy := "" |}'


def run_to_coq(I, r):
    f = "None" if r["fault"] is None else "(Some (%d%%nat, %s))" % (r["fault"]["at"], b(r["fault"]["eff"]))
    log = coq_list(["{| o_q := %s; o_sql := %s; o_args := %s; o_ok := %s |}" % (
        b(o["q"]), I.s(o["sql"]), coq_list([arg_to_coq(I, a) for a in o["args"]]), b(o["ok"])) for o in r["log"]])
    tb = {t["name"]: t for t in r["state"]["tables"]}
    ttl = coq_list([I.s(tb[t]["ttl"]) for t in TABLES])
    pol = coq_list([I.s(tb[t]["policy"]) for t in TABLES])
    sett = coq_list(["(%s, %s)" % (coq_Z(x["fp"]), I.s(x["value"])) for x in r["state"]["settings"]])
    g = r.get("glue")
    if g is None:
        kind, parse, cfg = "KDirect", "[]", cfg_to_coq(I, r["cfg"])
    else:
        cfg = EMPTY_CFG
        parse = coq_list(["(%s, %s)" % (I.s(x["s"]), ("Some %s" % coq_Z(x["ns"])) if x["ok"] else "None") for x in g["parsed"]])
        dbos = coq_list([dbo_to_coq(I, d) for d in g["dbos"]])
        if g["kind"] == "init":
            env = coq_list(["(%s, %s)" % (I.s(kv["k"]), I.s(kv["v"])) for kv in g["env"]])
            io = g["init"]
            ncalls = io["init_calls"] + io["rotate_calls"]
            oi = ("{| oi_panicked := %s; oi_init_calls := %d%%nat; oi_rotate_calls := %d%%nat; oi_init_first := %s; oi_same_cfg := %s; oi_projects_ok := %s |}"
                  % (b(io["panicked"]), io["init_calls"], io["rotate_calls"], b(io["init_first"]), b(io["same_cfg"]),
                     b(io["projects"] == ",".join(["qryn"] * ncalls))))
            sts = []
            for st in r.get("states") or []:
                tb2 = {t["name"]: t for t in st["state"]["tables"]}
                sts.append("{| os_db := %d%%nat; os_ttl := %s; os_policy := %s; os_settings := %s |}" % (
                    db_index(st["db"]), coq_list([I.s(tb2[t]["ttl"]) for t in TABLES]), coq_list([I.s(tb2[t]["policy"]) for t in TABLES]),
                    coq_list(["(%s, %s)" % (coq_Z(x["fp"]), I.s(x["value"])) for x in st["state"]["settings"]])))
            kind = "(KInit %s %s %s %s %s)" % (env, b(g.get("init_fails", False)),
                                               coq_list(["(%d%%nat, %s)" % (db_index(d.get("db", "")), dbo_to_coq(I, d)) for d in g["dbos"]]),
                                               oi, coq_list(sts))
        elif g["kind"] == "env":  # "all" and "ctrl" (the real ctrl.Rotate over TCP) are both RotateAll over the objects
            env = coq_list(["(%s, %s)" % (I.s(kv["k"]), I.s(kv["v"])) for kv in g["env"]])
            kind = "(KEnv %s %s %s %s)" % (env, dbos, b(g["env_err"]), coq_list([dbo_to_coq(I, d) for d in g["env_out"]]))
        else:
            kind = "(KAll %s)" % dbos
    return ("{| r_cfg := %s; r_fault := %s; r_kind := %s; r_parse := %s; r_log := %s; r_err := %s; r_ttl := %s; r_policy := %s; r_settings := %s |}"
            % (cfg, f, kind, parse, log, b(r["err"]), ttl, pol, sett))


def case_to_coq(I, c):
    it = {t["name"]: t for t in (c.get("init_tables") or [])}
    ttl = coq_list([I.s(it[t]["ttl"] if t in it else "<initial>") for t in TABLES])
    pol = coq_list([I.s(it[t]["policy"] if t in it else "<initial>") for t in TABLES])
    init = coq_list(["(%s, %s)" % (coq_Z(x["fp"]), I.s(x["value"])) for x in (c.get("init") or [])])
    conc = "None"
    cc = c.get("conc")
    if cc is not None:
        tb = {t["name"]: t for t in cc["state"]["tables"]}
        log = coq_list(["(%d%%nat, {| o_q := %s; o_sql := %s; o_args := %s; o_ok := %s |})" % (
            e["inst"], b(e["call"]["q"]), I.s(e["call"]["sql"]), coq_list([arg_to_coq(I, a) for a in e["call"]["args"]]),
            b(e["call"]["ok"])) for e in cc["log"]])
        own = {}
        evs = []
        faults = cc.get("faults") or []
        for k in cc["eff"]:
            j = own.get(k, 0)
            own[k] = j + 1
            ft = faults[k] if k < len(faults) else None
            evs.append("SFail %d%%nat %s" % (k, b(ft["eff"])) if ft is not None and ft["at"] == j else "SStep %d%%nat" % k)
        conc = ("(Some {| cc_cfgs := %s; cc_eff := %s; cc_evs := %s; cc_log := %s; cc_errs := %s; cc_done := %s; cc_ttl := %s; cc_policy := %s; cc_settings := %s |})"
                % (coq_list([cfg_to_coq(I, x) for x in cc["cfgs"]]), coq_list(["%d%%nat" % k for k in cc["eff"]]), coq_list(evs), log,
                   coq_list([b(x) for x in cc["errs"]]), coq_list([b(x) for x in cc["done"]]), coq_list([I.s(tb[t]["ttl"]) for t in TABLES]),
                   coq_list([I.s(tb[t]["policy"]) for t in TABLES]),
                   coq_list(["(%s, %s)" % (coq_Z(x["fp"]), I.s(x["value"])) for x in cc["state"]["settings"]])))
    return "{| c_id := %d; c_init := %s; c_init_ttl := %s; c_init_policy := %s; c_runs := %s; c_conc := %s; c_after := %s |}" % (
        c["id"], init, ttl, pol, coq_list([run_to_coq(I, r) for r in c["runs"]]), conc,
        coq_list([run_to_coq(I, r) for r in (c.get("after") or [])]))


def eval_cases(ck, name, cases):
    I = Interner()
    body = ";\n  ".join(case_to_coq(I, c) for c in cases)
    txt = ("From Coq Require Import List ZArith Bool String Ascii.\nFrom Qryn Require Import model.Rotate model.RotateCfg model.RotateConc model.RotateObs.\n"
           "Import ListNotations.\nOpen Scope string_scope.\nOpen Scope Z_scope.\n" +
           "\n".join(I.defs) + "\n"
           "Definition cases : list case := [\n  " + body + "].\n"
           "Definition M := Eval vm_compute in mismatches cases.\nPrint M.\n"
           "Definition V := Eval vm_compute in spec_violations cases.\nPrint V.\n")
    rc, out = ck.coq_eval(name, txt)
    if rc != 0:
        return None, None, out
    flat = " ".join(out.split())
    m = re.search(r"M = \[(.*?)\]\s*: list Z", flat)
    v = re.search(r"V = \[(.*?)\]\s*: list Z", flat)
    if not m or not v:
        return None, None, out

    def ids(s):
        return [int(x) for x in re.findall(r"-?\d+", s)]
    return ids(m.group(1)), ids(v.group(1)), out


def case_size(c):
    cc = c.get("conc")
    return (len(c["runs"]) + len(c.get("after") or []) + (len(cc["cfgs"]) if cc else 0),
            sum(len(r["log"]) for r in c["runs"] + (c.get("after") or [])) + (len(cc["log"]) if cc else 0),
            sum(len(r["cfg"]["days"]) for r in c["runs"]))


def strip_run(r):
    out = {"cfg": r["cfg"], "fault": r["fault"]}
    if r.get("glue") is not None:
        g = r["glue"]
        out["glue"] = {"kind": g["kind"], "dbos": g["dbos"], "env": g.get("env") or [], "init_fails": g.get("init_fails", False)}
    return out


def strip_obs(c):
    """the input part of a case (what --cases needs)"""
    out = {"id": c["id"], "class": c.get("class", ""), "tick_ns": c.get("tick_ns", 0), "clock": c.get("clock", ""),
           "last_from": c.get("last_from", 0), "gap_ns": c.get("gap_ns", 0), "init": c.get("init") or [],
           "init_tables": c.get("init_tables") or [],
           "runs": [strip_run(r) for r in c["runs"]]}
    if c.get("conc") is not None:
        out["conc"] = {"cfgs": c["conc"]["cfgs"], "sched": c["conc"]["sched"], "crash": c["conc"].get("crash"), "faults": c["conc"].get("faults")}
        out["after"] = [strip_run(r) for r in (c.get("after") or [])]
    return out


def summarize(c):
    out = []
    for r in c["runs"]:
        out.append({"cfg": r["cfg"], "glue": r.get("glue"), "fault": r["fault"], "err": r["err"], "calls": len(r["log"]),
                    "alters": sum(1 for o in r["log"] if o["sql"].startswith("ALTER")),
                    "log": [(o["sql"] if not o["sql"].startswith("SELECT") else "SELECT <setting>", o["args"], o["ok"]) for o in r["log"]],
                    "tables_after": r["state"]["tables"]})
    cc = c.get("conc")
    if cc is not None:
        out.append({"concurrent_instances": cc["cfgs"], "schedule": cc["sched"], "granted": cc["eff"], "errs": cc["errs"],
                    "log": [(e["inst"], e["call"]["sql"] if not e["call"]["sql"].startswith("SELECT") else "SELECT <setting>",
                             e["call"]["args"]) for e in cc["log"]],
                    "finished": cc.get("done"), "tables_after": cc["state"]["tables"], "settings_after": cc["state"]["settings"]})
    for r in c.get("after") or []:
        out.append({"after": True, "cfg": r["cfg"], "err": r["err"], "calls": len(r["log"]),
                    "alters": sum(1 for o in r["log"] if o["sql"].startswith("ALTER")), "tables_after": r["state"]["tables"]})
    return out


def shrink(ck, c, pred):
    """drop runs / policies while the failure persists (re-running the real code each time)"""
    def rerun(cand):
        p = os.path.join(ck.work, "shrink_in.jsonl")
        q = os.path.join(ck.work, "shrink_out.jsonl")
        open(p, "w").write(json.dumps(strip_obs(cand)) + "\n")
        rc, _ = ck.go_run("rotate", ["--cases", p, "--out", q])
        if rc != 0:
            return None
        return json.loads(open(q).readline())
    best = c
    for _ in range(12):
        progressed = False
        cands = []
        for i in range(len(best["runs"])):
            if len(best["runs"]) > 1 or best.get("conc") is not None:
                d = strip_obs(best)
                del d["runs"][i]
                cands.append(d)
        for i, r in enumerate(best["runs"]):
            for j in range(len(r["cfg"]["days"])):
                d = strip_obs(best)
                # the same policy index is removed from every run that shares this configuration
                for rr in d["runs"]:
                    if rr["cfg"] == r["cfg"] and j < len(rr["cfg"]["days"]):
                        rr["cfg"] = dict(rr["cfg"], days=[p for k, p in enumerate(rr["cfg"]["days"]) if k != j])
                cands.append(d)
        if best.get("conc") is not None:
            cc = best["conc"]
            # the granted sequence is the schedule that matters; try halves / dropping single entries from the end
            eff = cc.get("eff") or cc["sched"]
            for cut in (len(eff) // 2, len(eff) - 1):
                if 0 <= cut < len(eff):
                    d = strip_obs(best)
                    d["conc"]["sched"] = eff[:cut]
                    cands.append(d)
            if len(cc["cfgs"]) > 2:
                for k in range(len(cc["cfgs"])):
                    d = strip_obs(best)
                    d["conc"]["cfgs"] = [x for m, x in enumerate(cc["cfgs"]) if m != k]
                    d["conc"]["sched"] = [x - (1 if x > k else 0) for x in eff if x != k]
                    if cc.get("crash"):
                        d["conc"]["crash"] = [x for m, x in enumerate(cc["crash"]) if m != k]
                    cands.append(d)
        for i, r in enumerate(best["runs"]):
            if r["fault"] is not None:
                d = strip_obs(best)
                d["runs"][i]["fault"] = None
                cands.append(d)
        for i, r in enumerate(best["runs"]):
            g = r.get("glue")
            if not g:
                continue
            same = lambda rr: rr.get("glue") is not None and rr["glue"]["dbos"] == g["dbos"] and rr["glue"].get("env") == g.get("env")
            if len(g["dbos"]) > 1:
                for k in range(len(g["dbos"])):
                    d = strip_obs(best)
                    for rr in d["runs"]:
                        if same(rr):
                            rr["glue"] = dict(rr["glue"], dbos=[x for m, x in enumerate(rr["glue"]["dbos"]) if m != k])
                    cands.append(d)
            for k, dbo in enumerate(g["dbos"]):
                for j in range(len(dbo["ttl_policy"])):
                    d = strip_obs(best)
                    for rr in d["runs"]:
                        if same(rr):
                            nd = [dict(x) for x in rr["glue"]["dbos"]]
                            nd[k]["ttl_policy"] = [e for m, e in enumerate(nd[k]["ttl_policy"]) if m != j]
                            rr["glue"] = dict(rr["glue"], dbos=nd)
                    cands.append(d)
            for j in range(len(g.get("env") or [])):
                d = strip_obs(best)
                for rr in d["runs"]:
                    if same(rr):
                        rr["glue"] = dict(rr["glue"], env=[e for m, e in enumerate(rr["glue"]["env"]) if m != j])
                cands.append(d)
        for cand in cands[:40]:
            got = rerun(cand)
            if got is None:
                continue
            got["id"] = best["id"]
            if pred(got):
                best = got
                progressed = True
                break
        if not progressed:
            break
    return best


GLUE_HEADER = """// Code generated by checks/c19.py from %(repo)s -- verbatim copies, DO NOT EDIT.
package main

import (
	"fmt"
	"os"
	"strconv"
	"strings"
	"time"

	clconfig "github.com/metrico/cloki-config"
	"github.com/metrico/cloki-config/config"
	"github.com/metrico/qryn/ctrl/logger"
	qmaint "github.com/metrico/qryn/ctrl/qryn/maintenance"
	ctrl "verif/harness/gluectrl"
	maintenance "verif/harness/gluemaint"
)

var _ = fmt.Sprint
var _ = os.Getenv
var _ = strconv.Atoi
var _ = strings.SplitN
var _ = time.Second
var _ *clconfig.ClokiConfig
var _ config.ClokiBaseDataBase
var _ logger.ILogger
var _ = maintenance.ConnectV2
var _ = ctrl.Init

const glueGenerated = true

// the names the copied bodies refer to inside package maintenance
type RotatePolicy = qmaint.RotatePolicy

var Rotate = qmaint.Rotate

"""


def extract_func(src, name):
    """the text of top-level `func name(` up to its closing brace at column 0 (gofmt layout)"""
    m = re.search(r"^func %s\(" % re.escape(name), src, re.M)
    if not m:
        return None
    end = src.find("\n}\n", m.start())
    return None if end < 0 else src[m.start():end + 3]


def extract_closure(src, roots, skip=()):
    """roots plus every top-level function of the same file they (transitively) call: a refactoring that moves part of a
    copied function into a helper next to it keeps the copy complete. Returns (ordered names, {name: text}, missing roots)."""
    tops = re.findall(r"^func (\w+)\(", src, re.M)
    texts, order, missing = {}, [], []
    todo = list(roots)
    while todo:
        n = todo.pop(0)
        if n in texts or n in skip:
            continue
        t = extract_func(src, n)
        if t is None:
            if n in roots:
                missing.append(n)
            continue
        texts[n] = t
        order.append(n)
        body = re.sub(r"//[^\n]*", "", re.sub(r"/\*.*?\*/", "", t[t.index("{"):], flags=re.S))   # calls in comments do not count
        for h in tops:
            if h not in texts and h not in todo and h not in skip and re.search(r"\b%s\(" % re.escape(h), body):
                todo.append(h)
    return order, texts, missing


def build_rotate(ck):
    """go build of harness/cmd/rotate with glue_gen.go replaced (overlay) by verbatim copies of rotateDB, RotateAll
    (ctrl/qryn/maintenance/maintain.go) and boolEnv, portCHEnv (main.go) of the repository under test"""
    parts, missing = [], []
    for rel, names in (("ctrl/qryn/maintenance/maintain.go", ["rotateDB", "RotateAll"]), ("main.go", ["boolEnv", "portCHEnv", "initDB"])):
        src = open(os.path.join(vcheck.REPO, rel)).read()
        order, texts, miss = extract_closure(src, names, skip=("main", "init", "initFlags", "initPyro", "httpStart"))
        missing += ["%s: func %s" % (rel, n) for n in miss]
        parts += ["// ---- %s: func %s\n%s" % (rel, n, texts[n]) for n in order]
    if missing:
        ck.obligation("glue functions found in the repository (rotateDB, RotateAll, boolEnv, portCHEnv, initDB)", False, "; ".join(missing))
        return False
    gdir = os.path.join(vcheck.BUILD, "gen", vcheck.repo_tag())
    os.makedirs(gdir, exist_ok=True)
    gen = os.path.join(gdir, "rotate_glue_gen.go")
    txt = GLUE_HEADER % {"repo": vcheck.REPO} + "\n".join(parts)
    if not os.path.exists(gen) or open(gen).read() != txt:
        open(gen, "w").write(txt)
    ov = os.path.join(gdir, "rotate_overlay.json")
    open(ov, "w").write(json.dumps({"Replace": {os.path.join(vcheck.HARNESS, "cmd", "rotate", "glue_gen.go"): gen}}))
    t = time.time()
    with vcheck.Lock("gomod"):
        vcheck.ensure_harness_module()
    rc, out = vcheck.sh(["go", "build", "-modfile=" + vcheck.modfile(), "-overlay=" + ov, "-tags", "verif", "-o",
                         vcheck.bin_path("rotate"), "./cmd/rotate"], cwd=vcheck.HARNESS, env=vcheck.go_env(), timeout=1200)
    ck.log("go build rotate (+ %d glue functions copied from the repository) rc=%d (%.1fs)" % (len(parts), rc, time.time() - t))
    ck.build_out = out
    if rc != 0:
        ck.log(out[-3000:])
    return rc == 0


def run_rotate(ck):
    if not build_rotate(ck):
        ck.obligation("harness rotate builds against the repository", False, ck.build_out[-1500:])
        return
    cases = []
    corpus = os.path.join(os.path.dirname(os.path.dirname(__file__)), "corpus", PID, "histories.jsonl")
    if os.path.exists(corpus):
        outp = os.path.join(ck.work, "rotate_corpus.jsonl")
        rc, out = ck.go_run("rotate", ["--cases", corpus, "--out", outp])
        if rc != 0:
            ck.obligation("corpus histories ran", False, out[-1500:])
            return
        cs = [json.loads(l) for l in open(outp)]
        for i, c in enumerate(cs):
            c["id"] = 1000000 + i
        cases += cs
        # the witness of concurrent_different_configurations_diverge on the real code (an observation about a
        # situation outside the property: instances with different configurations at the same time)
        for c in cs:
            if c.get("class") == "corpus:concurrent-different-configurations" and c.get("conc"):
                st = c["conc"]["state"]
                ttl = {t["name"]: t["ttl"] for t in st["tables"]}["metrics_15s"]
                rec = [x["value"] for x in st["settings"] if x["fp"] == 471363531]
                ck.extra["observation_concurrent_different_configurations"] = {
                    "metrics_15s_ttl": ttl, "recorded": rec, "errors": c["conc"]["errs"],
                    "diverged_as_the_theorem_says": bool(rec) and rec[0] != ttl and "toIntervalDay(60)" in ttl and "toIntervalDay(30)" in rec[0]}
    # the witnesses of nondecreasing_clock_is_not_enough on the real code (observations about a server clock outside
    # the hypothesis clock_advances: an uninterrupted run leaves samples_v3 on an interrupted run's TTL), and the same
    # histories under a clock that advances over every executed SELECT and ALTER (controls: these go into Coq too)
    wit = os.path.join(os.path.dirname(os.path.dirname(__file__)), "corpus", PID, "clock_witnesses.jsonl")
    if os.path.exists(wit):
        outp = os.path.join(ck.work, "rotate_witnesses.jsonl")
        rc, out = ck.go_run("rotate", ["--cases", wit, "--out", outp])
        if rc != 0:
            ck.obligation("clock witnesses ran", False, out[-1500:])
            return
        expect = {json.loads(l)["id"]: json.loads(l)["expect"] for l in open(wit)}
        obs, good = [], True
        for c in [json.loads(l) for l in open(outp)]:
            e = expect[c["id"]]
            last = c["runs"][-1]
            ttl = {t["name"]: t["ttl"] for t in last["state"]["tables"]}["samples_v3"]
            o = {"class": c["class"], "clock": c.get("clock"), "last_run_error": last["err"], "last_run_configured_days": e["last_cfg_days"],
                 "samples_v3_ttl_after": ttl, "alters_of_last_run": sum(1 for x in last["log"] if x["sql"].startswith("ALTER")),
                 "as_the_theorem_says": (not last["err"]) and ("toIntervalDay(%d)" % e["samples_v3_days"]) in ttl}
            good = good and o["as_the_theorem_says"]
            obs.append(o)
            if c["class"].startswith("control:"):
                c["id"] = 2000000 + c["id"]
                cases.append(c)
        ck.extra["observation_clock_ties"] = obs
        ck.obligation("the witnesses of nondecreasing_clock_is_not_enough replay on the real Rotate (a clock advancing over ALTERs only / SELECTs only: an uninterrupted run leaves samples_v3 on the interrupted run's TTL) and the same histories converge under a clock that advances over every executed SELECT and ALTER",
                      good and len(obs) == 4, json.dumps(obs)[:1500])
    outp = os.path.join(ck.work, "rotate.jsonl")
    args = ["--seed", ck.seed, "--n", ck.n(1100, 12000), "--out", outp]
    if not ck.quick():
        args += ["--exhaustive", 200]
    rc, out = ck.go_run("rotate", args)
    if rc != 0:
        ck.obligation("harness rotate ran", False, out[-1500:])
        return
    cases += [json.loads(l) for l in open(outp)]
    byid = {c["id"]: c for c in cases}

    srv_errs = [(c["id"], r["glue"]["srv_errs"]) for c in cases for r in c["runs"] if r.get("glue") and r["glue"].get("srv_errs")]
    nctrl = sum(1 for c in cases for r in c["runs"] if r.get("glue") and r["glue"]["kind"] == "ctrl")
    ck.obligation("the fake native-protocol server understood every packet of the real client (%d ctrl.Rotate runs over TCP)" % nctrl,
                  not srv_errs, str(srv_errs[:2])[:600])
    panics = [c for c in cases if any(r.get("panic") for r in c["runs"])]
    for c in panics[:1]:
        ck.violation({"property": PID, "kind": "Rotate panicked", "case": strip_obs(c),
                      "panic": [r.get("panic") for r in c["runs"]],
                      "replay": "harness rotate --cases <file with the line `case`>"})
    ok_cases = [c for c in cases if c not in panics]

    mism, viol = [], []
    # shard by observed size (about 3000 logged calls per file), evaluated in parallel
    shard, cur = [], 0
    shards = []
    for c in ok_cases:
        shard.append(c)
        cur += case_size(c)[1]
        if cur > 3000:
            shards.append(shard)
            shard, cur = [], 0
    if shard:
        shards.append(shard)
    from concurrent.futures import ThreadPoolExecutor
    with ThreadPoolExecutor(max_workers=6) as ex:
        results = list(ex.map(lambda ks: eval_cases(ck, "C19_rotate_%d" % ks[0], ks[1]), enumerate(shards)))
    for m, v, out in results:
        if m is None:
            ck.obligation("histories evaluated inside Coq", False, out[-1500:])
            return
        mism += m
        viol += v
    nruns = sum(len(c["runs"]) for c in ok_cases)
    nconc = sum(1 for c in ok_cases if c.get("conc") is not None)
    ck.obligation("correspondence: model Rotate.run / rotate_all / port_ch_env / sched_run = maintenance.Rotate, RotateAll, portCHEnv, concurrent Rotate goroutines on %d histories (%d runs, %d concurrent groups): SQL text, arguments, error, state"
                  % (len(ok_cases), nruns, nconc), not mism and not panics, "mismatching case ids: %s" % mism[:10])
    ck.obligation("spec oracle (tier minimum, tiers/disks/days as configured, record after all ALTERs, converged, silent repeat, bad timeout or environment refused without a statement, concurrent instances converge) accepts every observed history",
                  not viol, "violating case ids: %s" % viol[:10])
    if viol:
        worst = min((byid[i] for i in viol), key=case_size)

        def still(c):
            _, v, _ = eval_cases(ck, "C19_shrink", [c])
            return bool(v)
        worst = shrink(ck, worst, still)
        ck.violation({"property": PID, "kind": "retention property violated by the implementation",
                      "explanation": "Rotate.runs_ok (model/Rotate.v) rejects these observations of maintenance.Rotate: a TTL tier below the table's minimum, a setting recorded before all tables of its group were altered, an uninterrupted run that does not leave the configured TTL/policy on every table and in the settings, or Exec statements issued by a repeated run with unchanged configuration",
                      "case": strip_obs(worst), "observed": summarize(worst),
                      "replay": "harness rotate --cases <file with the line `case`>"})
    elif mism:
        worst = min((byid[i] for i in mism), key=case_size)

        def still_m(c):
            m, _, _ = eval_cases(ck, "C19_shrink", [c])
            return bool(m)
        worst = shrink(ck, worst, still_m)
        ck.violation({"property": PID, "kind": "model/implementation disagree; the property's oracle still accepts all observations",
                      "case": strip_obs(worst), "observed": summarize(worst),
                      "broken": "correspondence Rotate.run vs maintenance.Rotate"}, no_input=True)

    # coverage
    hist, distinct = {}, set()
    nfault = 0
    for c in cases:
        hist[c["class"]] = hist.get(c["class"], 0) + 1
        cfgs = {json.dumps(r["cfg"], sort_keys=True) for r in c["runs"]}
        alters = sum(1 for r in c["runs"] for o in r["log"] if o["sql"].startswith("ALTER"))
        nfault += sum(1 for r in c["runs"] if r["err"])
        if c.get("conc") is not None:
            alters += sum(1 for e in c["conc"]["log"] if e["call"]["sql"].startswith("ALTER"))
        if (len(c["runs"]) >= 2 or c.get("conc") is not None) and alters >= 1:
            distinct.add(json.dumps(strip_obs(c), sort_keys=True))
    dur = {}
    for c in cases:
        for r in c["runs"]:
            for pol in r["cfg"]["days"]:
                ns = pol["ns"]
                sec = abs(ns) // 10**9
                k = ("zero-or-negative" if ns <= 0 else "beyond-int32" if sec > 2147483647 else "below-one-minute" if sec < 60
                     else "below-one-day" if sec < 86400 else "one-day-or-more")
                if ns % 10**9 != 0:
                    k += "+fraction"
                dur[k] = dur.get(k, 0) + 1
    glue = {"timeouts_parsed": 0, "timeouts_refused": 0, "blank_elements": 0, "runs_all": 0, "runs_env": 0, "runs_init": 0, "env_refused": 0,
            "runs_with_several_databases": 0, "samples_days_texts": {}}
    for c in cases:
        for r in c["runs"]:
            g = r.get("glue")
            if not g:
                continue
            glue["runs_env" if g["kind"] == "env" else "runs_init" if g["kind"] == "init" else "runs_all"] += 1
            if g["kind"] == "init":
                io = g["init"]
                names = [d.get("db", "") for d in g["dbos"]]
                for k, cond in (("init_several_databases", len(set(names)) > 1), ("init_database_named_twice", len(set(names)) < len(names)),
                                ("init_several_databases_on_one_cluster", shared_cluster(g["dbos"])),
                                ("init_several_databases_on_one_cluster_completed", shared_cluster(g["dbos"]) and not r["err"] and io["rotate_calls"] == 1),
                                ("init_panicked", io["panicked"]), ("init_skipped_by_key", io["init_calls"] == 0 and not io["panicked"]),
                                ("init_refused_key", io["init_calls"] == 0 and io["panicked"]), ("init_ctrl_Init_failed", bool(g.get("init_fails"))),
                                ("init_OMIT_CREATE_TABLES_set", any(kv["k"] == "OMIT_CREATE_TABLES" for kv in g["env"]))):
                    glue[k] = glue.get(k, 0) + (1 if cond else 0)
            glue["runs_through_real_ctrl_Rotate_over_tcp"] = glue.get("runs_through_real_ctrl_Rotate_over_tcp", 0) + (1 if g["kind"] == "ctrl" else 0)
            glue["env_refused"] += 1 if g.get("env_err") else 0
            glue["runs_with_several_databases"] += 1 if len(g["dbos"]) > 1 else 0
            for x in g["parsed"]:
                glue["timeouts_parsed" if x["ok"] else "timeouts_refused"] += 1
            glue["blank_elements"] += sum(1 for d in g["dbos"] for e in d["ttl_policy"] if e["timeout"] == "" and e["move_to"] == "")
            for kv in g.get("env") or []:
                if kv["k"] == "SAMPLES_DAYS":
                    glue["samples_days_texts"][kv["v"]] = glue["samples_days_texts"].get(kv["v"], 0) + 1
    glue["samples_days_texts"] = len(glue["samples_days_texts"])
    # round 8 (seeded C19-h went unseen because one history in twenty had this layout and that one ended in a refused
    # timeout): the layout is now forced by the generator; the reach is an obligation, not a hope
    ck.obligation("generator reach: process starts with several DIFFERENT databases on ONE cluster (same non-empty cluster_name) that ran to "
                  "completion through initDB / ctrl.Rotate / RotateAll: %d (of %d with that layout)"
                  % (glue.get("init_several_databases_on_one_cluster_completed", 0), glue.get("init_several_databases_on_one_cluster", 0)),
                  glue.get("init_several_databases_on_one_cluster_completed", 0) >= 3, "fewer than 3")
    concs = [c["conc"] for c in cases if c.get("conc") is not None]
    conc = {"cases": len(concs), "instances": sum(len(x["cfgs"]) for x in concs), "granted_statements": sum(len(x["eff"]) for x in concs),
            "same_configuration": sum(1 for x in concs if all(y == x["cfgs"][0] for y in x["cfgs"])),
            "with_crashed_instances": sum(1 for x in concs if not all(x["done"])),
            "instances_ended_by_a_fault": sum(sum(1 for y in x["errs"] if y) for x in concs),
            "faults_with_effect": sum(sum(1 for k, y in enumerate(x["errs"]) if y and (x.get("faults") or [])[k]["eff"]) for x in concs),
            "runs_after": sum(len(c.get("after") or []) for c in cases),
            "switches_between_instances": sum(sum(1 for a, bb in zip(x["eff"], x["eff"][1:]) if a != bb) for x in concs)}
    ck.coverage["evaluations"] += len(cases)
    ck.coverage["distinct_nontrivial"] += len(distinct)
    ck.coverage["rule"] += ("histories of 1..6 Rotate runs on one database: random configurations (0-3 tiers, durations 1 s .. 292 years incl. "
                            "sub-second, negative and beyond-int32 values, disks, storage policy present/absent, clustered or not), configuration "
                            "changes/reverts between runs, faults at call indexes (with and without effect); fault-at-every-index families; legacy "
                            "settings layouts; runs through RotateAll/rotateDB (good, bad and blank ttl_policy timeouts, several databases) and "
                            "through portCHEnv (SAMPLES_DAYS / port / key texts); process starts through func initDB of package main (1-3 configured "
                            "databases each with its own state on the fake server - half of the histories with several objects, and the first four of every run, put "
                            "two or three DIFFERENT databases on ONE cluster name -, the variable boolEnv reads, a failing ctrl.Init); server clocks where "
                            "only executed SELECTs/ALTERs take time and ties are answered either way; 2-3 concurrent Rotate goroutines under random schedules (same or "
                            "different configurations, crashed instances, completing runs); server clock 1 us .. 1.5 s per statement; "
                            "non-trivial = (>= 2 runs or concurrent instances) and >= 1 ALTER; distinct by content. ")
    ck.extra["input_distribution"] = {"classes": hist, "runs": nruns, "runs_ended_by_fault": nfault,
                                      "logged_calls": sum(case_size(c)[1] for c in cases),
                                      "tier_durations": dur, "glue": glue, "concurrent": conc,
                                      "with_storage_policy": sum(1 for c in cases for r in c["runs"] if r["cfg"]["policy"]),
                                      "clustered": sum(1 for c in cases for r in c["runs"] if r["cfg"]["cluster"])}
    ck.add_samples([{"class": c["class"], "runs": [{"cfg": r["cfg"], "fault": r["fault"], "err": r["err"], "calls": len(r["log"])}
                                                    for r in c["runs"]]} for c in cases[:4]])


def run(ck):
    ck.trusted += [
        "C19: ClickHouse itself is modelled: ALTER ... MODIFY TTL / MODIFY SETTING storage_policy set the table's value; the settings table is rows stamped with inserted_at (NOW() = whole seconds, now64(9) = nanoseconds) and the settings query answers the value of a row with the greatest stamp (the fake: the first inserted among equals; theorem settings_read_is_last_write: with strictly increasing stamps the answer is the last insert); the server clock advances between two statements of one connection; reads through settings_dist see the rows written to settings",
        "C19: a fault is an error returned by one call, with or without the statement having taken effect; a crash is a fault after which nothing else runs; concurrent instances crash by never issuing another statement",
        "C19: time.ParseDuration is an oracle of the model (any function); the harness reports what the real one returned for each timeout text",
        "C19: rotateDB, RotateAll, boolEnv, portCHEnv and initDB are compiled into the harness as verbatim copies cut out of the repository under test (top-level func ... closing brace at column 0), with maintenance.ConnectV2 replaced by a function handing out the fake connection (rotateDB copy) and, for initDB, package ctrl replaced by a stand-in whose Rotate IS the real ctrl.Rotate and whose Init only records the call (schema creation and migrations are property C18's); that main calls initDB(cfg) after portEnv is read off main.go by the C20 translator only",
        "C19: the fake native-protocol server (harness/cmd/rotate/tcp.go) answers the hello / query / data / ping packets of clickhouse-go v2 and recognises the client's bound statement texts by regular expressions; a database is selected by the database name of the connection's hello packet (names vdb_*: a state of its own; any other name: the history's one database)",
        "C19: the settings rows: theorem stamped_rows_refine_the_map needs the server clock never to go back and to advance over every executed SELECT and ALTER (nothing is asked of INSERTs); nondecreasing_clock_is_not_enough shows that less does not suffice (two statements of one group inside the same now64(9) nanosecond)",
        "C19: disk names containing '%' or a quote (MoveTo is spliced into a Sprintf format and into SQL) are outside the generator",
    ]
    ck.coq_props()
    ok, out = ck.coq_make(["model/RotateObs.vo"])
    if not ck.obligation("model/RotateObs.v (case records, comparison, oracle) compiles", ok, out[-800:]):
        return
    run_rotate(ck)
    if not ck.quick():
        ck.coqchk(["Qryn.props.C19"])
