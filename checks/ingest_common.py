"""Shared by checks/c01.py and checks/c02.py: the correspondence of coq/model/{Ingest,PushHandler}.v with the
real insert services (harness/cmd/ingest) and the evaluation of the C01 / C02 monitors over the events the
implementation was observed to produce.

Level 1 (service scripts): Request / PlanFlush / return-of-Do / Stop on 1..3 real services of all six kinds;
per operation the observed events must equal the model's (mismatches) and the concatenated observed trace
must be accepted by the monitors (violations).
"""
import json
import os
import re
import subprocess
import time

from vcheck import coq_list

KIND = {"samples": "KSamples", "series": "KSeries", "metrics": "KMetrics", "spans": "KSpans", "tags": "KTags",
        "profile": "KProfile"}
NCOLS = {"samples": 5, "series": 4, "metrics": 4, "spans": 9, "tags": 7, "profile": 13}
KEYCOL = {"samples": 1, "series": 1, "metrics": 1, "spans": 0, "tags": 0, "profile": 0}


def b(x):
    return "true" if x else "false"


def is_req(o):
    """a Request operation: plain, or `mreq` = PlanFlush + a Request arriving while that flush waits for its next column set"""
    return o["t"] in ("req", "mreq")


def runs(col):
    return coq_list(["(%d%%N,%d%%N)" % (r[0], r[1]) for r in (col or [])])


def norm_cols(kind, cols):
    cols = list(cols or [])
    cols = cols[:NCOLS[kind]] + [[]] * (NCOLS[kind] - len(cols))
    return [[list(r) for r in (c or []) if r[1] > 0] for c in cols]


def req_coq(kind, cols):
    cols = norm_cols(kind, cols)
    if all(c == cols[0] for c in cols):
        return "(red %s (tbl %s %s))" % (KIND[kind], KIND[kind], runs(cols[0]))
    return "(red %s (oblock %s))" % (KIND[kind], coq_list([runs(c) for c in cols]))


def raw_req_coq(kind, cols):
    """the request as submitted (before the lossy-column reduction), for the well-formedness test"""
    cols = norm_cols(kind, cols)
    if all(c == cols[0] for c in cols):
        return "(tbl %s %s)" % (KIND[kind], runs(cols[0]))
    return "(oblock %s)" % coq_list([runs(c) for c in cols])


def is_wf(kind, cols):
    cols = norm_cols(kind, cols)
    return all(c == cols[0] for c in cols)


def workers_of(c):
    """[(kind, service index)] per worker, and the first worker of every service"""
    ws, base = [], []
    for i, s in enumerate(c["svcs"]):
        base.append(len(ws))
        ws += [(s["kind"], i)] * max(1, s.get("par") or 1)
    return ws, base


def infer_picks(c, ws, base):
    """which worker of its round robin served each request: the one that later sent its first row"""
    picks = {}
    evs = [(i, e) for i, l in enumerate(c.get("obs") or []) for e in (l or [])]
    for i, o in enumerate(c["ops"]):
        if not is_req(o):
            continue
        s = o["s"]
        par = max(1, c["svcs"][s].get("par") or 1)
        picks[o["p"]] = base[s]
        if par == 1:
            continue
        kc = (o.get("cols") or [])
        k = KEYCOL[c["svcs"][s]["kind"]]
        first = next((r[0] for r in (kc[k] if k < len(kc) else []) or [] if r[1] > 0), None)
        if first is None:
            continue
        for j, e in evs:
            if j > i and e["t"] == "send" and base[s] <= e["s"] < base[s] + par:
                col = (e.get("cols") or [])
                if k < len(col) and any(r[0] <= first < r[0] + r[1] for r in (col[k] or [])):
                    picks[o["p"]] = e["s"]
                    break
    return picks


def case_to_coq(c):
    ws, base = workers_of(c)
    picks = infer_picks(c, ws, base)
    reqs = {}
    ops = []
    for o in c["ops"]:
        if o["t"] == "req":
            k = c["svcs"][o["s"]]["kind"]
            reqs[o["p"]] = (k, o.get("cols"))
            ops.append("OReq %d %s %d%%N %s (%d)%%Z" % (picks[o["p"]], KIND[k], o["p"], raw_req_coq(k, o.get("cols")), o.get("sz", 0)))
        elif o["t"] == "mreq":
            k = c["svcs"][o["s"]]["kind"]
            reqs[o["p"]] = (k, o.get("cols"))
            ops.append("OMidReq %d %s %d%%N %s (%d)%%Z" % (picks[o["p"]], KIND[k], o["p"], raw_req_coq(k, o.get("cols")), o.get("sz", 0)))
        elif o["t"] == "plan":
            s = o["s"]
            par = max(1, c["svcs"][s].get("par") or 1)
            if par == 1:
                ops.append("OPlan %d" % base[s])
            else:
                ops.append("OPlanG %s" % coq_list([str(w) for w in range(base[s], base[s] + par)]))
        elif o["t"] == "send":
            ops.append("OSend %d" % o["s"])
        elif o["t"] == "ret":
            ops.append("ORet %d %s" % (o["s"], b(o.get("ok"))))
        elif o["t"] == "stop":
            ops.append("OStop %d" % base[o["s"]])
    sizes = {o["p"]: o.get("sz", 0) for o in c["ops"] if is_req(o)}
    obs = []
    for evs in (c.get("obs") or []):
        l = []
        for e in (evs or []):
            t = e["t"]
            if t in ("req", "res") and e["p"] not in reqs:
                # an event about a promise no operation of the script created: no model event can equal it (a mismatch, not an exception)
                reqs[e["p"]] = (ws[0][0], [])
                picks.setdefault(e["p"], 0)
                sizes.setdefault(e["p"], 0)
            if t == "req":
                k, cols = reqs[e["p"]]
                imm = "None" if e.get("imm") is None else "(Some %s)" % b(e["imm"])
                l.append("EReq %d (PEnv %d%%N) %s %s (%d)%%Z %s" % (picks[e["p"]], e["p"], KIND[k], req_coq(k, cols), sizes[e["p"]], imm))
            elif t == "dial":
                l.append("EDial %d %s" % (e["s"], b(e["ok"])))
            elif t == "swap":
                l.append("ESwap %d" % e["s"])
            elif t == "send":
                k = ws[e["s"]][0]
                l.append("ESend %d %s (oblock %s)" % (e["s"], KIND[k], coq_list([runs(x) for x in (e.get("cols") or [])])))
            elif t == "done":
                l.append("EDone %d %s" % (e["s"], b(e["ok"])))
            elif t == "res":
                k, cols = reqs[e["p"]]
                l.append("EResolve (PEnv %d%%N) %s %s %s" % (e["p"], KIND[k], req_coq(k, cols), b(e["ok"])))
        obs.append(coq_list(l))
    # missing observation lists (the harness stopped early) make the case a mismatch by length
    cfg = coq_list(["(%s, %d, (%d)%%Z)" % (KIND[k], g, c["svcs"][g].get("maxq", 0)) for (k, g) in ws])
    dl = c.get("dials") or []
    dials = coq_list([coq_list([b(x) for x in ((dl[i] if i < len(dl) else None) or [])]) for i in range(len(ws))])
    own = []
    for o in c["ops"]:
        if is_req(o):
            seen = set()
            for col in norm_cols(c["svcs"][o["s"]]["kind"], o.get("cols")):
                for r in col:
                    if (r[0], r[1]) not in seen:
                        seen.add((r[0], r[1]))
                        own.append("(%d%%N, %d%%N, KEnv %d%%N)" % (r[0], r[1], o["p"]))
    return ("{| c_id := (%d)%%Z; c_cfg := %s; c_attempts := %d%%N; c_dials := %s; c_drained := %s;\n     c_ops := %s;\n     c_obs := %s;\n     c_own := %s |}"
            % (c["id"], cfg, c.get("attempts", 1), dials, b(c.get("drained")), coq_list(ops), coq_list(obs), coq_list(own)))


HEADER = ("From Coq Require Import List NArith ZArith Bool.\n"
          "From Qryn Require Import model.Ingest model.PushHandler model.IngestSpec model.IngestFresh model.IngestCases.\n"
          "Import ListNotations.\n")


def parse_ids(flat, name):
    m = re.search(r"%s = \[(.*?)\]\s*: list Z" % name, flat)
    if not m:
        return None
    return [int(x) for x in re.findall(r"-?\d+", m.group(1))]


def eval_cases(ck, name, cases):
    """returns (mismatch ids, C01 violation ids, C02 violation ids, coqc output); for C02 also the ids of the cases
    that meet the freshness hypothesis (FRESH)"""
    txt = (HEADER + "Definition cases : list case := [\n  " + ";\n  ".join(case_to_coq(c) for c in cases) + "].\n"
           "Definition M := Eval vm_compute in mismatches cases.\nPrint M.\n"
           "Definition V1 := Eval vm_compute in c01_violations cases.\nPrint V1.\n"
           "Definition V2 := Eval vm_compute in c02_violations cases.\nPrint V2.\n"
           + ("Definition FR := Eval vm_compute in fresh_cases cases.\nPrint FR.\n" if ck.pid == "C02" else ""))
    rc, out = ck.coq_eval(name, txt)
    if rc != 0:
        return None, None, None, out
    flat = " ".join(out.split())
    m, v1, v2 = parse_ids(flat, "M"), parse_ids(flat, "V1"), parse_ids(flat, "V2")
    if m is None or v1 is None or v2 is None:
        return None, None, None, out
    FRESH.update(parse_ids(flat, "FR") or [])
    return m, v1, v2, out


ACT_NAMES = {0: "Request(promise %d) served by worker %d", 1: "PlanFlush / timer: worker %d planned", 2: "worker %d dials: %s",
             3: "ATake worker %d: FIRST critical section of the swap -- waiting promises and size taken, timer re-armed",
             4: "AInstall worker %d: SECOND critical section -- columns as they are NOW become the portion, fresh columns installed",
             5: "worker %d calls Do with its portion", 6: "Do of worker %d returns: %s", 7: "Stop worker %d", 8: "ping of worker %d fails", 9: "other"}


def diagnose_variant(ck, name, case):
    """Is what was observed on this script the run of the refuted TWO-STEP-SWAP variant of the model (model/IngestSwap2.v: swapBuffers as two
    critical sections, the request of an `mreq` operation served between them)?  Returns None when it is not (or the script has no mreq),
    else the variant's action sequence -- the interleaving that explains the observation (theorem two_step_swap_refuted)."""
    if not any(o["t"] == "mreq" for o in case["ops"]):
        return None
    txt = (HEADER + "Definition c : case :=\n  " + case_to_coq(case) + ".\n"
           "Definition VE := Eval vm_compute in variant_explains c.\nPrint VE.\n"
           "Definition VA := Eval vm_compute in variant_actions c.\nPrint VA.\n"
           "Definition MM := Eval vm_compute in model_mismatch c.\nPrint MM.\n")
    rc, out = ck.coq_eval(name, txt)
    flat = " ".join(out.split())
    if rc != 0 or not re.search(r"VE = true", flat):
        return None
    m = re.search(r"VA = \[(.*?)\]\s*: list", flat)
    acts = []
    for what, w, arg in re.findall(r"\(\s*(\d+)(?:%nat)?,\s*(\d+)(?:%nat)?,\s*(\d+)(?:%N)?\s*\)", m.group(1) if m else ""):
        what, w, arg = int(what), int(w), int(arg)
        if what == 0:
            acts.append(ACT_NAMES[0] % (arg, w))
        elif what in (2, 6):
            acts.append(ACT_NAMES[what] % (w, "accepted" if arg else "refused"))
        elif what == 9:
            acts.append(ACT_NAMES[9])
        else:
            acts.append(ACT_NAMES[what] % w)
    win = [i for i, a in enumerate(acts) if a.startswith("ATake")]
    for i in win:
        if i + 1 < len(acts) and acts[i + 1].startswith("Request"):
            acts[i + 1] += "   <-- IN THE WINDOW: its rows join the columns the swap hands out, its promise is filed for the NEXT block"
    return {"explained_by": "model/IngestSwap2.v: the observations of this script are exactly the run of the two-step-swap variant (variant_explains = true), "
                            "not of the model (model_mismatch = %s); props/C02.v two_step_swap_refuted, props/C01.v ack_sound_two_step_swap_refuted"
                            % ("true" if re.search(r"MM = true", flat) else "false"),
            "action_sequence": acts}


FRESH = set()      # ids of the level-1 cases on which fresh_run (C02's freshness hypothesis) holds
FRESH2 = set()     # ... level-2 cases


def case_weight(c):
    return sum(sum(r[1] for col in (o.get("cols") or []) for r in (col or [])) for o in c["ops"] if is_req(o))


def shard_cases(cases, max_cells=400000, max_n=150):
    """shards bounded by the number of cells Coq has to expand"""
    cur, w = [], 0
    for c in cases:
        cw = case_weight(c) * 4 + 50
        if cur and (w + cw > max_cells or len(cur) >= max_n):
            yield cur
            cur, w = [], 0
        cur.append(c)
        w += cw
    if cur:
        yield cur


def run_harness_parallel(ck, cmd, n, procs, seed, extra=(), tag="l1"):
    """n generated cases spread over `procs` processes (a case needs the process to itself: quiescence is read
    off the goroutine dump); ids are made unique afterwards"""
    from vcheck import bin_path, go_env
    per = (n + procs - 1) // procs
    ps = []
    for i in range(procs):
        outp = os.path.join(ck.work, "%s_%d.jsonl" % (tag, i))
        args = [bin_path(cmd), "--seed", str(seed * 1000 + i), "--n", str(per), "--out", outp] + list(extra)
        ps.append((outp, subprocess.Popen(args, cwd=ck.work, env=go_env(), stdout=subprocess.PIPE, stderr=subprocess.STDOUT, text=True)))
    cases = []
    ok = True
    tail = ""
    t0 = time.time()
    for i, (outp, p) in enumerate(ps):
        try:
            o, _ = p.communicate(timeout=1200)
        except subprocess.TimeoutExpired:
            p.kill()
            o, _ = p.communicate()
            ok = False
        if p.returncode != 0:
            ok = False
            tail += (o or "")[-1500:]
        if os.path.exists(outp):
            for ln in open(outp):
                try:
                    c = json.loads(ln)
                except ValueError:
                    ok = False
                    continue
                c["src"] = "seed=%d id=%d" % (seed * 1000 + i, c["id"])
                c["id"] = i * 100000 + c["id"]
                cases.append(c)
    ck.log("run %s x%d: %d cases (%.1fs)" % (cmd, procs, len(cases), time.time() - t0))
    return ok, cases, tail


def load_corpus(ck, cmd, pid, fname, base, extra=()):
    corpus = os.path.join(os.path.dirname(os.path.dirname(__file__)), "corpus", pid, fname)
    if not os.path.exists(corpus):
        return []
    outp = os.path.join(ck.work, "corpus_" + fname)
    rc, out = ck.go_run(cmd, list(extra) + ["--cases", corpus, "--out", outp])
    if rc != 0:
        ck.obligation("corpus %s/%s ran" % (pid, fname), False, out[-1500:])
        return []
    cs = [json.loads(l) for l in open(outp)]
    for i, c in enumerate(cs):
        c["id"] = base + i
        c["class"] = "corpus:" + str(c.get("class", ""))
    return cs


def nontrivial(c):
    """a script is non-trivial when at least two requests carrying rows were submitted, a block was sent and a Do returned"""
    nreq = sum(1 for o in c["ops"] if is_req(o) and any(r[1] > 0 for col in (o.get("cols") or []) for r in (col or [])))
    evs = [e for l in (c.get("obs") or []) for e in (l or [])]
    return nreq >= 2 and any(e["t"] == "send" for e in evs) and any(e["t"] == "done" for e in evs)


def case_key(c):
    return json.dumps([c["svcs"], c["ops"], c.get("dials")], sort_keys=True)


def smallest(cases):
    return min(cases, key=lambda c: (len(c["ops"]), case_weight(c)))


def shrink(ck, cmd, case, still_bad, budget=40):
    """drop operations while the failure persists (re-running the real code each time)"""
    cur = case
    tries = 0
    changed = True
    while changed and tries < budget:
        changed = False
        for i in range(len(cur["ops"]) - 1, -1, -1):
            if tries >= budget:
                break
            cand = dict(cur)
            cand["ops"] = cur["ops"][:i] + cur["ops"][i + 1:]
            cand.pop("obs", None)
            cand["drained"] = False     # a shortened script no longer ends with the drain
            tries += 1
            inp = os.path.join(ck.work, "shrink_in.jsonl")
            outp = os.path.join(ck.work, "shrink_out.jsonl")
            open(inp, "w").write(json.dumps(cand) + "\n")
            rc, _ = ck.go_run(cmd, ["--cases", inp, "--out", outp])
            if rc != 0:
                continue
            try:
                res = json.loads(open(outp).readline())
            except ValueError:
                continue
            if res.get("err"):
                continue
            if still_bad(res):
                cur = res
                changed = True
                break
    return cur


def run_level1(ck, pid):
    """returns dict(cases, mism, v1, v2, byid) or None when the machinery itself failed"""
    if not ck.go_build("ingest"):
        ck.obligation("harness ingest builds against the repository", False, ck.build_out[-1500:])
        return None
    okm, out = ck.coq_make(["model/IngestCases.vo"])
    if not okm:
        ck.obligation("model/IngestCases.v compiles", False, out[-1500:])
        return None
    n = ck.n(256, 6000)
    procs = 8 if ck.quick() else 16
    cases = load_corpus(ck, "ingest", pid, "scripts.jsonl", 90000000)
    # quick tier: the same classes, smaller volume (large requests of 2000..3500 rows instead of 2000..11000)
    ok, gen, tail = run_harness_parallel(ck, "ingest", n, procs, ck.seed, extra=(["--largespan", "1500"] if ck.quick() else []))
    if not ok:
        ck.obligation("harness ingest ran", False, tail)
        return None
    cases += gen
    broken = [c for c in cases if c.get("err")]
    good = [c for c in cases if not c.get("err")]
    mism, v1, v2 = [], [], []
    shards = list(shard_cases(good))
    from concurrent.futures import ThreadPoolExecutor
    with ThreadPoolExecutor(max_workers=6) as ex:
        results = list(ex.map(lambda ks: eval_cases(ck, "%s_l1_%d" % (pid, ks[0]), ks[1]), enumerate(shards)))
    for m, a, b2, out in results:
        if m is None:
            ck.obligation("ingest cases evaluated inside Coq", False, out[-1500:])
            return None
        mism += m
        v1 += a
        v2 += b2
    wf = [c for c in good if all(is_wf(c["svcs"][o["s"]]["kind"], o.get("cols")) for o in c["ops"] if is_req(o))]
    return {"cases": cases, "good": good, "broken": broken, "mism": mism, "v1": v1, "v2": v2,
            "byid": {c["id"]: c for c in cases}, "wf": wf, "notfresh": [c["id"] for c in wf if c["id"] not in FRESH]}


def coverage_level1(ck, res):
    cases = res["cases"]
    hist, kinds, opk = {}, {}, {}
    distinct = set()
    for c in cases:
        hist[c.get("class", "?")] = hist.get(c.get("class", "?"), 0) + 1
        for s in c["svcs"]:
            kinds[s["kind"]] = kinds.get(s["kind"], 0) + 1
        for o in c["ops"]:
            opk[o["t"]] = opk.get(o["t"], 0) + 1
        if nontrivial(c):
            distinct.add(case_key(c))
    # the operation mreq: how often the request really met a swap in progress (it then waited for the service mutex and was served after
    # the swap: the worker's swap is reported before the call), and what the two INSERTs around it were answered with
    mid = {"mreq_operations": 0, "met_a_swap_in_progress": 0, "no_flush_in_progress (nothing waited, worker busy or stopped)": 0,
           "scripts_with_mreq": 0, "followed_by_refused_then_accepted": 0, "followed_by_accepted_then_refused": 0}
    for c in cases:
        obs = c.get("obs") or []
        has = False
        for i, o in enumerate(c["ops"]):
            if o["t"] != "mreq" or i >= len(obs):
                continue
            has = True
            mid["mreq_operations"] += 1
            ts = [e["t"] for e in (obs[i] or [])]
            if "swap" in ts and "req" in ts and ts.index("swap") < ts.index("req"):
                mid["met_a_swap_in_progress"] += 1
                rets = [bool(x.get("ok")) for x in c["ops"][i + 1:] if x["t"] == "ret" and x["s"] == o["s"]][:2]
                if rets == [False, True]:
                    mid["followed_by_refused_then_accepted"] += 1
                elif rets == [True, False]:
                    mid["followed_by_accepted_then_refused"] += 1
            else:
                mid["no_flush_in_progress (nothing waited, worker busy or stopped)"] += 1
        mid["scripts_with_mreq"] += 1 if has else 0
    ck.extra.setdefault("input_distribution", {})["request_against_a_swap_in_progress"] = mid
    # round 8 (seeded C02-h): how much ACCOUNTED size piles up in one single-worker service between two swaps (the requests registered as
    # waiting, as observed), against the 50 MiB of the unused constant BANDWITH_LIMIT of writer/service
    pile = {"scripts_with_the_overload_scenario": 0, "scripts_piling_up_more_than_50MiB_between_two_swaps": 0, "of_those_while_a_Do_is_blocked": 0,
            "largest_pile_MiB": 0, "histogram_MiB": {"<1": 0, "1..50": 0, "50..100": 0, ">100": 0}}
    for c in cases:
        pile["scripts_with_the_overload_scenario"] += 1 if "overload" in str(c.get("class", "")) else 0
        par = [sv.get("par") or 1 for sv in c["svcs"]]
        base = [sum(par[:i]) for i in range(len(par))]
        wsvc = {base[i]: i for i in range(len(par)) if par[i] == 1}
        pend, infl, top, top_busy = {}, {}, 0, False
        for o, evs in zip(c["ops"], c.get("obs") or []):
            for e in evs or []:
                if e["t"] == "req" and "imm" not in e and par[e["s"]] == 1:
                    pend[e["s"]] = pend.get(e["s"], 0) + (o.get("sz") or 0)
                    if pend[e["s"]] > top:
                        top, top_busy = pend[e["s"]], bool(infl.get(e["s"]))
                elif e["t"] == "swap" and e["s"] in wsvc:
                    pend[wsvc[e["s"]]] = 0
                elif e["t"] == "send" and e["s"] in wsvc:
                    infl[wsvc[e["s"]]] = True
                elif e["t"] == "done" and e["s"] in wsvc:
                    infl[wsvc[e["s"]]] = False
        mibs = top / float(1 << 20)
        pile["largest_pile_MiB"] = max(pile["largest_pile_MiB"], int(mibs))
        pile["histogram_MiB"]["<1" if mibs < 1 else "1..50" if mibs <= 50 else "50..100" if mibs <= 100 else ">100"] += 1
        if top > 50 * 1024 * 1024:
            pile["scripts_piling_up_more_than_50MiB_between_two_swaps"] += 1
            pile["of_those_while_a_Do_is_blocked"] += 1 if top_busy else 0
    ck.extra.setdefault("input_distribution", {})["accounted_size_piled_up_between_two_swaps"] = pile
    ck.coverage["evaluations"] += len(cases)
    ck.coverage["distinct_nontrivial"] += len(distinct)
    ck.coverage["rule"] += ("service scripts: 1..3 real insert services (kinds uniformly among the six), maxQueueSize off/within reach/huge, "
                            "4..14 generated operations (Request 50%, PlanFlush, return of the blocked Do with success 2/3, Stop; one choice in eleven on a single-worker service plays the mid-swap scenario: "
                            "a request, then `mreq` = PlanFlush + a Request submitted while the fetch loop is blocked inside acquireColumns on the column-pool mutex the harness holds, then the two "
                            "consecutive INSERTs answered with opposite outcomes; one choice in twenty-five, once per script, plays the overload scenario: [a small request flushed and its Do left blocked,] "
                            "4..7 requests accounted with 13..30 MiB each -- more than the 50 MiB of BANDWITH_LIMIT pile up in one service between two flushes --, then the blocked Do returns and the pile is flushed and answered) followed by a drain; "
                            "requests of 0, 1, 2..6 or 2000..11000 rows (quick tier: 2000..3500); one script in five draws a third of its requests from the malformed stream "
                            "(a column longer/shorter/empty, empty key column, foreign row, size 0); one in forty has a refused connection. "
                            "non-trivial = at least two requests with rows, a block sent and a Do returned; distinct by content. ")
    ck.extra.setdefault("input_distribution", {}).update({"script_classes": hist, "service_kinds": kinds, "operation_kinds": opk,
                                                           "rows_submitted": sum(c.get("rows", 0) for c in cases)})
    ck.add_samples([{"svcs": c["svcs"], "ops": c["ops"][:6], "obs": (c.get("obs") or [])[:6]} for c in cases[:3]])


# ---------------------------------------------------------------------------------------------- critical sections
def run_regions(ck, pid):
    """translate/gen_c01_regions: the Lock/Unlock regions of genericInsertService.go must be the ones the atomic steps of
    model/Ingest.v stand for (model/IngestRegions.v regions_model / outside_model, theorem model_steps_are_the_critical_sections)"""
    import vcheck
    here = os.path.dirname(os.path.dirname(__file__))
    env = dict(os.environ, VERIF_REPO=vcheck.REPO)
    env.update({k: v for k, v in vcheck.go_env().items() if k in ("GOCACHE",)})
    genf = os.path.join(here, "coq", "gen", "GenC01Regions.v")
    with vcheck.Lock("c01gen"):
        rc, out = vcheck.sh([os.path.join(here, "translate", "gen_c01_regions")], env=env, timeout=300)
        gen = open(genf).read() if rc == 0 and os.path.exists(genf) else ""
    ck.checker_cmds.append("translate/gen_c01_regions")
    ck.obligation("translator gen_c01_regions ran on %s/writer/service/genericInsertService.go" % vcheck.REPO, rc == 0 and bool(gen), out[-1500:])
    if rc != 0 or not gen:
        return
    okm, o = ck.coq_make(["model/IngestRegions.vo"])
    if not okm:
        ck.obligation("model/IngestRegions.v compiles", False, o[-1500:])
        return
    # the generated definitions are inlined (coq/gen is shared by concurrent runs on different trees)
    txt = (gen + "\nDefinition RD := Eval vm_compute in region_diff gen_regions.\nPrint RD.\n"
           "Definition OD := Eval vm_compute in outside_diff gen_outside.\nPrint OD.\n"
           "Definition ROK := Eval vm_compute in regions_ok gen_regions gen_outside.\nPrint ROK.\n"
           "Definition NRG := Eval vm_compute in (List.length gen_regions, List.length gen_outside).\nPrint NRG.\n")
    rc, o = ck.coq_eval("%s_regions" % pid, txt)
    flat = " ".join(o.split())
    if rc != 0:
        ck.obligation("generated critical sections evaluated inside Coq", False, o[-1500:])
        return
    rd = re.search(r"RD = (\[.*?\]) : list string", flat)
    od = re.search(r"OD = (\[.*?\]) : list access", flat)
    rok = re.search(r"ROK = (true|false)", flat)
    nrg = re.search(r"NRG = \((\d+), (\d+)\)", flat)
    same = bool(rd and od and rd.group(1).replace(" ", "") == "[]" and od.group(1).replace(" ", "") == "[]")
    ck.obligation("the Lock/Unlock regions of InsertServiceV2 and the accesses outside them, regenerated from the source, are the ones the model's atomic steps stand for "
                  "(gen_regions = regions_model, gen_outside = outside_model)", same,
                  "regions that differ: %s; unexpected / missing accesses outside a region: %s" % (rd.group(1) if rd else "?", od.group(1) if od else "?"))
    ck.obligation("regions_ok on the regenerated regions: one region per step that touches shared fields, writes = the step's, nothing shared written outside, swapBuffers leaves no alias",
                  bool(rok and rok.group(1) == "true"), flat[-600:])
    if not same or not (rok and rok.group(1) == "true"):
        m = re.search(r"Definition gen_regions.*", gen, re.S)
        ck.violation({"property": pid, "kind": "a critical section of genericInsertService.go is not the atomic step the model takes it for",
                      "explanation": "model/Ingest.v treats each mutex hold as one step (Request, PlanFlush, swapBuffers, the ctx.Done case of Run); the regenerated regions differ from "
                                     "model/IngestRegions.v regions_model / outside_model: a field of the batch is touched outside the mutex, or a region keeps an alias of what it hands out",
                      "regions_that_differ": rd.group(1) if rd else None, "outside_accesses_that_differ": od.group(1) if od else None,
                      "regions_ok": rok.group(1) if rok else None, "generated": (m.group(0) if m else gen)[:6000],
                      "replay": "translate/gen_c01_regions; diff coq/gen/GenC01Regions.v against regions_model in coq/model/IngestRegions.v"}, no_input=True)
    if nrg:
        ck.extra.setdefault("input_distribution", {})["critical_sections"] = {"regions": int(nrg.group(1)), "accesses_outside_regions": int(nrg.group(2))}


def run_promise(ck, pid):
    """writer/utils/promise at the grain of its synchronisation operations (model/PromiseHB.v, proofs/PromiseHBProofs.v promise_completion_is_atomic):
    translate/gen_c01_promise regenerates the micro-operation programs of Done / Get / GetCtx; they must pass the syntactic happens-before check hb_ok
    (every read of res / err ordered after the stores of Done by the close of / receive from the channel) and be the programs of the model; and the real
    promise is hammered from many goroutines (harness/cmd/promstress), plain and under the race detector."""
    import vcheck
    here = os.path.dirname(os.path.dirname(__file__))
    env = dict(os.environ, VERIF_REPO=vcheck.REPO)
    env.update({k: v for k, v in vcheck.go_env().items() if k in ("GOCACHE",)})
    outp = os.path.join(ck.work, "GenC01Promise.v")
    rc, o = vcheck.sh([os.path.join(here, "translate", "gen_c01_promise"), outp], env=env, timeout=300)
    ck.checker_cmds.append("translate/gen_c01_promise")
    gen = open(outp).read() if rc == 0 and os.path.exists(outp) else ""
    ck.obligation("translator gen_c01_promise ran on %s/writer/utils/promise" % vcheck.REPO, rc == 0 and bool(gen), o[-1500:])
    hb_bad = False
    flat = ""
    if gen:
        okm, o = ck.coq_make(["model/PromiseHB.vo"])
        if not okm:
            ck.obligation("model/PromiseHB.v compiles", False, o[-1500:])
            return
        txt = (gen + "\nDefinition HB := Eval vm_compute in gen_hb_ok gen_promise_methods.\nPrint HB.\n"
               "Definition UR := Eval vm_compute in gen_unordered gen_promise_methods.\nPrint UR.\n"
               "Definition SAMEM := Eval vm_compute in methods_eqb gen_promise_methods methods_model.\nPrint SAMEM.\n"
               "Definition SAMEC := Eval vm_compute in ctors_eqb gen_promise_ctors ctors_model.\nPrint SAMEC.\n")
        rc, o = ck.coq_eval("%s_promise" % pid, txt)
        flat = " ".join(o.split())
        if rc != 0:
            ck.obligation("regenerated promise programs evaluated inside Coq", False, o[-1500:])
            return

        def val(name):
            m = re.search(r"\b%s = (.*?) : " % name, flat)
            return m.group(1).strip() if m else "?"
        hb_bad = val("HB") != "true"
        ck.obligation("happens-before, computed from the source of promise.go: Done = the winning CAS, then only stores of plain fields, then close(lock); every other method reads "
                      "res / err only after a receive on lock (an atomic load of `pending` orders nothing: the stores come after the CAS) -- hb_ok, the hypothesis of "
                      "promise_completion_is_atomic", not hb_bad, "hb_ok = %s; reads no channel operation orders after Done's stores (method, fields): %s" % (val("HB"), val("UR")))
        ck.obligation("the regenerated micro-operation programs of Done / Get / GetCtx and the constructors New / Fulfilled are the ones of model/PromiseHB.v (methods_model, ctors_model)",
                      val("SAMEM") == "true" and val("SAMEC") == "true", "methods_eqb = %s, ctors_eqb = %s" % (val("SAMEM"), val("SAMEC")))
        if hb_bad or val("SAMEM") != "true" or val("SAMEC") != "true":
            ck.violation({"property": pid, "kind": "a method of writer/utils/promise reads the result of a promise without a happens-before edge from Done's stores (or the promise is not the one modelled)",
                          "explanation": "model/PushHandler.v takes the completion of a promise as ONE step; proofs/PromiseHBProofs.v promise_completion_is_atomic proves that for programs passing hb_ok: "
                                         "whatever the interleaving, a getter returns the arguments of the ONE winning Done.  Done flips `pending` by CAS BEFORE it stores res / err; a read of res / err that is "
                                         "ordered only after an atomic load of `pending` can see the zero values (0, nil) = success with 0 rows for an INSERT that failed, or a torn pair "
                                         "(fast_path_refuted, fast_path_torn_pair).  The interleaving class: Done's CAS; the getter's load + reads; Done's stores.  The stress below looks for a failing run.",
                          "hb_ok": val("HB"), "unordered_reads": val("UR"), "methods_equal_model": val("SAMEM"), "ctors_equal_model": val("SAMEC"),
                          "generated": gen[gen.find("Definition gen_promise_methods"):][:3000],
                          "replay": "translate/gen_c01_promise /dev/stdout; compare with done_model / get_model / getctx_model in coq/model/PromiseHB.v"}, no_input=True)
        ck.extra.setdefault("input_distribution", {})["promise_programs"] = {"hb_ok": val("HB"), "methods_equal_model": val("SAMEM"), "ctors_equal_model": val("SAMEC")}
    # ---- the dynamic side: the real promise under concurrent Done / Get / GetCtx
    if not ck.go_build("promstress"):
        ck.obligation("harness promstress builds against the repository", False, getattr(ck, "build_out", "")[-1500:])
        return
    n = ck.n(6000, 400000)
    outj = os.path.join(ck.work, "promstress.jsonl")
    rc, o = ck.go_run("promstress", ["--seed", ck.seed, "--n", n, "--out", outj], timeout=1200)
    res = [json.loads(l) for l in open(outj)] if rc == 0 and os.path.exists(outj) else []
    ck.obligation("promise stress ran (patterns pair / fanout / poll / twice / late)", rc == 0 and len(res) == 5, o[-1500:])
    bad = [r for r in res if r.get("bad")]
    ck.obligation("promise stress: every Get / GetCtx returned exactly the (res, err) of the Done call that won, %d Get calls racing %d Done rounds on the real promise" %
                  (sum(r["gets"] for r in res), sum(r["rounds"] for r in res)), not bad,
                  "; ".join("%s: %d of %d gets wrong, first %s" % (r["pattern"], r["bad"], r["gets"], json.dumps(r.get("first_bad"))) for r in bad)[:1500])
    # the same under the race detector (needs cgo; a tree where it cannot be built is reported, not failed)
    race = {"available": False}
    with vcheck.Lock("gomod"):
        vcheck.ensure_harness_module()
    rbin = vcheck.bin_path("promstress_race")
    t0 = time.time()
    rcb, ob = vcheck.sh(["go", "build", "-race", "-modfile=" + vcheck.modfile(), "-tags", "verif", "-o", rbin, "./cmd/promstress"], cwd=vcheck.HARNESS, env=vcheck.go_env(), timeout=1200)
    ck.log("go build -race promstress rc=%d (%.1fs)" % (rcb, time.time() - t0))
    races = []
    if rcb == 0:
        race["available"] = True
        outr = os.path.join(ck.work, "promstress_race.jsonl")
        e = vcheck.go_env()
        e["GORACE"] = "halt_on_error=0 exitcode=0"
        rcr, orr = vcheck.sh([rbin, "--seed", str(ck.seed), "--n", str(ck.n(1500, 60000)), "--out", outr], cwd=ck.work, env=e, timeout=1200)
        races = re.findall(r"WARNING: DATA RACE.*?(?==================|\Z)", orr, re.S)
        race["reports"] = len(races)
        rres = [json.loads(l) for l in open(outr)] if os.path.exists(outr) else []
        race["gets"] = sum(r["gets"] for r in rres)
        ck.obligation("promise stress under the Go race detector (go build -race): no read of res / err races with Done's stores", rcr == 0 and not races and len(rres) == 5,
                      (races[0] if races else orr)[-2500:])
    else:
        ck.trusted.append("C01: the race detector could not be built in this sandbox (go build -race needs cgo): the promise stress ran without it")
    if bad or races:
        w = min(bad, key=lambda r: r["rounds"]) if bad else None
        ck.violation({"property": pid, "kind": "a Get on the real promise returned something else than the (res, err) of the Done call that completed it",
                      "explanation": "C01: doPush reads the outcome of a sub-push with reqPromise.Get(); releaseWaiting completes the promises of a failed INSERT with Done(0, err).  "
                                     "A Get that returns (0, nil) makes doPush (and so the handler) report success for rows no successful INSERT contained.  "
                                     "Interleaving class: Done's CompareAndSwap on `pending`; the getter's atomic load of `pending` and its reads of res / err; Done's stores of res / err; close(lock).",
                      "failing_run": w, "all_patterns": res, "race_detector_reports": len(races), "first_race_report": (races[0][:3000] if races else None),
                      "replay": "harness promstress --n %d (the pattern of failing_run; each round: goroutines released together by a spinning barrier, one promise.New(), Done(v, err) racing Get())" % n})
    ck.coverage["rule"] += ("Promise stress (not counted in evaluations): 5 interleaving patterns of Done / Get / GetCtx on one fresh promise.New() per round (one Done racing one Get; racing three Gets; racing a getter polling "
                            "GetCtx with a cancelled context; two Done calls with different arguments racing two Gets; Get after Done), goroutines released together by a spinning barrier; "
                            "every Get result is compared with the arguments of the winning Done. ")
    ck.extra.setdefault("input_distribution", {})["promise_stress"] = {"patterns": {r["pattern"]: {"rounds": r["rounds"], "gets": r["gets"], "wrong": r["bad"]} for r in res},
                                                                        "race_detector": race}
    ck.add_samples([{"promise_stress": r} for r in res[:2]], limit=8)


def run_bridge(ck, pid):
    """C02, parser_output_wf: the append programs of onSpan / onEntries regenerated by C05's translator and the column tables of
    the six ProcessRequest closures regenerated by translate/gen_c02_columns must pass bridge_ok / columns_ok / details_ok of
    model/IngestBridge.v -- the hypotheses of checked_parsers_give_good_blocks -- and be the programs / tables the instance
    parsed_pushes_give_good_blocks is stated over.  The generated text is inlined (coq/gen is shared by concurrent runs)."""
    import vcheck
    here = os.path.dirname(os.path.dirname(__file__))
    env = dict(os.environ, VERIF_REPO=vcheck.REPO)
    env.update({k: v for k, v in vcheck.go_env().items() if k in ("GOCACHE",)})
    out1 = os.path.join(ck.work, "GenC02Columns.v")
    rc1, o1 = vcheck.sh([os.path.join(here, "translate", "gen_c02_columns"), out1], env=env, timeout=300)
    ck.checker_cmds.append("translate/gen_c02_columns")
    gen1 = open(out1).read() if rc1 == 0 and os.path.exists(out1) else ""
    ck.obligation("translator gen_c02_columns ran on %s/writer/service/impl" % vcheck.REPO, rc1 == 0 and bool(gen1), o1[-1500:])
    binp = os.path.join(here, ".build", "bin", "gen_goroutines_writer")
    if not os.path.exists(binp):
        with vcheck.Lock("c05gen"):
            vcheck.sh([os.path.join(here, "translate", "gen_goroutines_writer")], env=env, timeout=300)
    out2 = os.path.join(ck.work, "GenGoroutinesWriterC02.v")
    rc2, o2 = vcheck.sh([binp, out2], env=env, timeout=300)
    ck.checker_cmds.append("translate/gen_goroutines_writer (C05's translator, private output)")
    gen2 = open(out2).read() if rc2 == 0 and os.path.exists(out2) else ""
    ck.obligation("translator gen_goroutines_writer (append programs of onSpan / onEntries) ran on %s/writer" % vcheck.REPO, rc2 == 0 and bool(gen2), o2[-1500:])
    if not gen1 or not gen2:
        return
    okm, o = ck.coq_make(["model/IngestBridge.vo", "model/IngestFraming.vo", "model/IngestWidths.vo"])
    if not okm:
        ck.obligation("model/IngestBridge.v compiles", False, o[-1500:])
        return
    gen1 = re.sub(r"^(From Coq|Import ListNotations|Open Scope).*\n", "", gen1, flags=re.M)
    txt = (gen2 + "\nFrom Coq Require Import Bool NArith.\nFrom Qryn Require Import model.Ingest model.PushHandler model.IngestSpec model.IngestBridge.\nFrom Qryn Require model.IngestWidths.\n" + gen1 +
           "\nDefinition WID := Eval vm_compute in (hp_width_check gen_on_span_cols && IngestWidths.producers_eqb gen_c02_id_producers IngestWidths.id_producers_model)%bool.\nPrint WID.\n"
           "\nDefinition BOK := Eval vm_compute in bridge_ok gen_on_span_cols gen_spans_fields gen_attrs_fields gen_on_entries_cols gen_spl_fields gen_tsd_fields.\nPrint BOK.\n"
           "Definition UNK := Eval vm_compute in (gen_on_span_unknown, ep_unknown gen_on_entries_cols).\nPrint UNK.\n"
           "Definition COK := Eval vm_compute in columns_ok gen_c02_columns.\nPrint COK.\n"
           "Definition DOK := Eval vm_compute in details_ok gen_c02_columns gen_c02_details.\nPrint DOK.\n"
           "Definition LOK := Eval vm_compute in loops_ok gen_c02_columns gen_c02_loops.\nPrint LOK.\n"
           "Definition LBAD := Eval vm_compute in flat_map (fun sl : string * list loop_t * Z => let '(s, loops, g) := sl in List.app (if Z.eqb g 0 then nil else cons (s, \"guarded appends / exits between appends\"%string, @nil string, g) nil) "
           "(map (fun l : loop_t => (s, fst (fst l), snd (fst l), snd l)) (filter (fun l : loop_t => negb (Z.eqb (snd l) 0)) loops))) gen_c02_loops.\nPrint LBAD.\n"
           "Definition AGR := Eval vm_compute in consumed_agree gen_spans_consumed gen_attrs_consumed gen_spl_consumed gen_tsd_consumed.\nPrint AGR.\n"
           "Definition SAME := Eval vm_compute in (strs_eqb gen_spans_fields spans_fields_model && strs_eqb gen_attrs_fields attrs_fields_model\n"
           "  && strs_eqb gen_spl_fields spl_fields_model && strs_eqb gen_tsd_fields tsd_fields_model\n"
           "  && Nat.eqb (List.length (hp_once gen_on_span_cols)) (List.length (hp_once on_span_cols_model))\n"
           "  && bridge_ok on_span_cols_model gen_spans_fields gen_attrs_fields on_entries_cols_model gen_spl_fields gen_tsd_fields\n"
           "  && forallb (fun ev => match on_span_cols gen_on_span_cols gen_spans_fields gen_attrs_fields (batch0 gen_spans_fields gen_attrs_fields) ev,\n"
           "                              on_span_cols on_span_cols_model gen_spans_fields gen_attrs_fields (batch0 gen_spans_fields gen_attrs_fields) ev with\n"
           "                        | StOk a _, StOk b _ => list_N_eqb (map snd (b_spans a)) (map snd (b_spans b)) && list_N_eqb (map snd (b_attrs a)) (map snd (b_attrs b))\n"
           "                        | StErr, StErr | StPanic, StPanic => true | _, _ => false end)\n"
           "       [{| se_tid := 16; se_sid := 8; se_keys := 3; se_vals := 3; se_bytes := 10 |}; {| se_tid := 16; se_sid := 8; se_keys := 3; se_vals := 2; se_bytes := 10 |};\n"
           "        {| se_tid := 15; se_sid := 8; se_keys := 0; se_vals := 0; se_bytes := 10 |}])%bool.\nPrint SAME.\n")
    rc, o = ck.coq_eval("%s_bridge" % pid, txt)
    flat = " ".join(o.split())
    if rc != 0:
        ck.obligation("regenerated append programs and column tables evaluated inside Coq", False, o[-1500:])
        return

    def val(name):
        m = re.search(r"\b%s = (.*?) : " % name, flat)
        return m.group(1).strip() if m else "?"
    ok_b = val("BOK") == "true" and val("UNK").replace(" ", "") in ("(0,0)", "(0%Z,0%Z)")
    ck.obligation("bridge_ok on the REGENERATED append programs of onSpan / onEntries (every slice field of TempoSamples / TempoTag / TimeSamplesData / "
                  "TimeSeriesData appended exactly once per row, flush resets the batch, every field a ProcessRequest closure reads exists, no statement "
                  "the translator did not understand): the hypothesis of checked_parsers_give_good_blocks", ok_b, "bridge_ok = %s, unknown statements = %s" % (val("BOK"), val("UNK")))
    ok_c = val("COK") == "true" and val("DOK") == "true"
    ok_l = val("LOK") == "true"
    ck.obligation("the loops of the six ProcessRequest closures, regenerated from the source, append like the model's eff (loops_ok: every range loop that appends has a straight-line body -- "
                  "no continue / break / return / if, so every iteration appends to every column of the loop --, no append is guarded by anything else, nothing leaves the closure between its "
                  "first and its last append, and every column receives one value per element of the field eff counts for it): hypothesis of checked_loops_append_like_eff", ok_l,
                  "loops_ok = %s; offending (service, ranged field, columns, control statements): %s" % (val("LOK"), val("LBAD")))
    ck.obligation("the INSERT columns regenerated from the six ProcessRequest closures (serialize()/toIFace() order, request field appended per column, key column, "
                  "single-element appends) are kind_fields / keycol / prof_assigned of the model", ok_c, "columns_ok = %s, details_ok = %s" % (val("COK"), val("DOK")))
    ck.obligation("the fields C05's translator saw the span / log services read are the fields of the regenerated column tables (two translators agree)",
                  val("AGR") == "true", "consumed_agree = %s" % val("AGR"))
    ck.obligation("the regenerated struct field lists are the ones the instance parsed_pushes_give_good_blocks is stated over, and the regenerated onSpan behaves as the "
                  "transcribed one on probe spans", val("SAME") == "true", "SAME = %s" % val("SAME"))
    ck.obligation("FixedString widths: the regenerated onSpan starts with the 16 / 8 byte width check and is the only place under writer/ that appends to a trace-id / span-id "
                  "slice of a request struct (hypotheses of parser_span_requests_never_reach_the_width_panic / regenerated_on_span_appends_only_fixed_widths)",
                  val("WID") == "true", "WID = %s" % val("WID"))
    if not ok_l:
        m3 = re.search(r"Definition gen_c02_loops.*?\n\]\.", gen1, re.S)
        ck.violation({"property": pid, "kind": "a ProcessRequest closure appends a different number of values to different columns for some requests",
                      "explanation": "model/Ingest.v eff appends to every column one value per element of a request field (proofs/IngestLoops.v checked_loops_append_like_eff, for closures passing "
                                     "loops_ok).  The regenerated loop table fails loops_ok: a loop that appends to some columns skips or ends iterations (continue / break / return / if in its body) "
                                     "while the loops of the other columns do not, or an append is guarded: a request that takes that branch makes the block non-rectangular and shifts every row "
                                     "appended behind it, the other requests' rows included.  The dynamic levels below search the request that takes the branch.",
                      "loops_ok": val("LOK"), "offending_loops": val("LBAD"), "generated_loops": (m3.group(0) if m3 else "")[:3000],
                      "replay": "translate/gen_c02_columns /dev/stdout; compare gen_c02_loops with loops_ok in coq/model/IngestBridge.v"}, no_input=True)
    if not (ok_b and ok_c and val("AGR") == "true" and val("SAME") == "true" and val("WID") == "true"):
        m1 = re.search(r"Definition gen_on_span_cols.*?Definition gen_ffa_guard", gen2, re.S)
        m2 = re.search(r"Definition gen_on_entries_cols.*?gen_tsd_consumed[^\n]*", gen2, re.S)
        ck.violation({"property": pid, "kind": "the batching handlers / ProcessRequest closures are not the ones the parser-to-block bridge is proved for",
                      "explanation": "model/IngestBridge.v: a request sent by a parser is the table of its rows because every slice field of the request struct is appended exactly once "
                                     "per submitted row (bridge_ok) and every INSERT column reads one such field (columns_ok / details_ok); the regenerated programs / tables fail that check, "
                                     "so a block can hold a row whose fields come from different submitted rows, or columns of different lengths",
                      "bridge_ok": val("BOK"), "unknown_statements": val("UNK"), "columns_ok": val("COK"), "details_ok": val("DOK"), "consumed_agree": val("AGR"), "same": val("SAME"), "width_check_and_id_producers": val("WID"),
                      "generated_columns": gen1[-3000:], "generated_on_span": (m1.group(0) if m1 else "")[:3000], "generated_on_entries": (m2.group(0) if m2 else "")[:2000],
                      "replay": "translate/gen_c02_columns /dev/stdout; translate/gen_goroutines_writer; compare with kind_fields / on_span_cols_model in coq/model"}, no_input=True)
    ck.extra.setdefault("input_distribution", {})["bridge"] = {"services": 6, "bridge_ok": val("BOK"), "columns_ok": val("COK"), "details_ok": val("DOK"), "loops_ok": val("LOK")}


def cell_case_coq(c):
    def ocells(col):
        return coq_list(["((%d)%%Z, (%d)%%Z)" % (x[0], x[1]) for x in (col or [])])
    obs = []
    for it in (c.get("items") or []):
        if it.get("err"):
            obs.append("None")
        else:
            subs = ["(%s, %s)" % (KIND[sr["kind"]], coq_list([ocells(col) for col in sr["cols"]])) for sr in (it.get("chunk") or [])]
            obs.append("Some %s" % coq_list(subs))
    end = {"": "PendNil", "err": "PendErr false", "panic": "PendPanic"}[c.get("end") or ""]
    if c["kind"] == "spans":
        evs = coq_list(["{| se_tid := %d%%N; se_sid := %d%%N; se_keys := %d; se_vals := %d; se_bytes := %d%%N |}" % (x["tid"], x["sid"], x["keys"], x["vals"], x["bytes"])
                        for x in (c.get("spans") or [])])
        return "{| k_id := (%d)%%Z; k_spans := Some %s; k_logs := []; k_end := %s; k_obs := %s |}" % (c["id"], evs, end, coq_list(obs))
    evs = coq_list(["{| en_lbl_short := %s; en_ts := %d; en_msg := %d; en_val := %d; en_types := %d; en_bad_type := %s; en_series := %d; en_bytes := %d%%N |}"
                    % (b(x.get("lbl_short")), x["ts"], x["msg"], x["val"], x["types"], b(x.get("bad_type")), x["series"], x["bytes"]) for x in (c.get("logs") or [])])
    return "{| k_id := (%d)%%Z; k_spans := None; k_logs := %s; k_end := %s; k_obs := %s |}" % (c["id"], evs, end, coq_list(obs))


def run_cells(ck, pid):
    """level 4: the real parserDoer + onSpan / onEntries behind a scripted decoder whose values carry the identity of the call: the requests sent are compared
    cell by cell with the cell-level interpreter of model/IngestBridge.v (span_items / logs_items); oracle on the observed requests: tables of whole rows"""
    n = ck.n(160, 3000)
    outp = os.path.join(ck.work, "cells.jsonl")
    if not ck.go_build("ingest"):
        ck.obligation("harness ingest builds against the repository", False, getattr(ck, "build_out", "")[-1500:])
        return
    rc, out = ck.go_run("ingest", ["--level", "4", "--seed", ck.seed + 77, "--n", n, "--out", outp], timeout=600)
    if rc != 0:
        ck.obligation("harness ingest (parser cells) ran", False, out[-1500:])
        return
    cases = [json.loads(l) for l in open(outp) if l.strip()]
    broken = [c for c in cases if c.get("err")]
    good = [c for c in cases if not c.get("err")]
    okm, o = ck.coq_make(["model/IngestCellCases.vo"])
    if not okm:
        ck.obligation("model/IngestCellCases.v compiles", False, o[-1500:])
        return
    mism, viol = [], []
    for k in range(0, len(good), 400):
        txt = ("From Coq Require Import List String ZArith NArith Bool.\nFrom Qryn Require Import model.IngestRobust model.IngestPipe.\n"
               "From Qryn Require Import model.Ingest model.PushHandler model.IngestSpec model.IngestBridge model.IngestCellCases.\nImport ListNotations.\n"
               "Definition cases : list cellcase := [\n  " + ";\n  ".join(cell_case_coq(c) for c in good[k:k + 400]) + "].\n"
               "Definition M := Eval vm_compute in cell_mismatches cases.\nPrint M.\nDefinition V := Eval vm_compute in cell_violations cases.\nPrint V.\n")
        rc, out = ck.coq_eval("%s_cells_%d" % (pid, k), txt)
        flat = " ".join(out.split())
        m, v = parse_ids(flat, "M"), parse_ids(flat, "V")
        if rc != 0 or m is None or v is None:
            ck.obligation("parser-cell cases evaluated inside Coq", False, out[-1500:])
            return
        mism += m
        viol += v
    byid = {c["id"]: c for c in cases}
    ck.obligation("harness executed every parser-cell script", not broken, "%d; first: %s" % (len(broken), broken[0]["err"] if broken else ""))
    ck.obligation("correspondence: the requests the real onSpan / onEntries sent = the cell-level interpreter over the append programs, cell by cell "
                  "(which call and which position every element of every slice field came from), chunk by chunk, on %d decoder scripts" % len(good), not mism,
                  "mismatching case ids: %s" % mism[:10])
    ck.obligation("every request the real batching handlers sent is a table of whole rows (all columns one length; at every position the columns agree on the call and the "
                  "position wherever they can tell), the scripted decoder keeping the equal-length contract", not viol, "violating case ids: %s" % viol[:10])
    if viol:
        worst = min((byid[i] for i in viol), key=lambda c: len(json.dumps(c)))
        ck.violation({"property": pid, "kind": "a request sent by the real batching handlers is not a table of whole submitted rows",
                      "explanation": "model/IngestCellCases.v osub_table rejects a sub-request observed behind the real onSpan / onEntries: its columns differ in length, or at some position "
                                     "two columns hold values of different decoder calls / of different positions of one call (a row whose fields come from different submitted rows)",
                      "case": worst, "replay": "harness ingest --level 4 --cases <file with the case object on one line>"})
    elif mism or broken:
        bad = [byid[i] for i in mism] or broken
        worst = min(bad, key=lambda c: len(json.dumps(c)))
        ck.violation({"property": pid, "kind": "model/implementation disagree on what the parser sends for a decoder script; the observed requests are still tables",
                      "case": worst, "broken": "correspondence IngestBridge.span_items / logs_items vs writer/utils/unmarshal/builder.go onSpan / onEntries"}, no_input=True)
    dist = {"span_scripts": 0, "log_scripts": 0, "ended_by_error_response": 0, "with_flush_chunks": 0, "log_scripts_breaking_the_contract": 0, "cells_compared": 0}
    distinct = set()
    for c in good:
        dist["span_scripts" if c["kind"] == "spans" else "log_scripts"] += 1
        items = c.get("items") or []
        if any(it.get("err") for it in items):
            dist["ended_by_error_response"] += 1
        if sum(1 for it in items if not it.get("err")) > 1:
            dist["with_flush_chunks"] += 1
        if c["kind"] == "logs" and any(not (x["msg"] == x["ts"] == x["val"] == x["types"]) for x in c.get("logs") or []):
            dist["log_scripts_breaking_the_contract"] += 1
        ncell = sum(len(col or []) for it in items for sr in (it.get("chunk") or []) for col in sr["cols"])
        dist["cells_compared"] += ncell
        if ncell > 0:
            distinct.add(json.dumps([c.get("spans"), c.get("logs"), c.get("end")], sort_keys=True))
    ck.coverage["evaluations"] += len(cases)
    ck.coverage["distinct_nontrivial"] += len(distinct)
    ck.coverage["rule"] += ("Parser-cell scripts: 1..7 onSpan calls (1 in 20 with a wrong id width, 1 in 20 with fewer / more values than keys) or 1..6 onEntries calls of 0..4 entries (about 1 in 5 breaking "
                            "the equal-length contract, a short label pair or a bad sample type), one script in four with payloads / lines that cross the 1 MiB flush threshold, one in five ended by a "
                            "decoder error or panic; non-trivial = at least one cell was sent; distinct by content. ")
    ck.extra.setdefault("input_distribution", {})["parser_cells"] = dist
    ck.add_samples([{"kind": c["kind"], "calls": (c.get("spans") or c.get("logs"))[:3], "end": c.get("end"),
                     "items": [("error" if it.get("err") else [(sr["kind"], [len(col or []) for col in sr["cols"]]) for sr in it["chunk"]]) for it in (c.get("items") or [])][:3]} for c in good[:2]], limit=6)


# ---------------------------------------------------------------------------------------------- level 2 (HTTP handlers)
L2KINDS = ["series", "samples", "tags", "spans", "profile"]
# errTexts of harness/cmd/ingest/main.go (field "e" of a failing ret)
ERR_TEXTS = ["scripted insert failure", "write tcp ...: write: connection reset by peer", "read tcp ...: read: connection reset by peer",
             "write tcp ...: write: broken pipe", "EOF", "unexpected EOF", "read tcp ...: i/o timeout", "context deadline exceeded",
             "dial tcp: lookup ...: i/o timeout", "code: 241, message: Memory limit (total) exceeded", "connection reset by peer",
             "handshake: clickhouse: connection refused"]


STAMP_CLASS = {"u": "usual (2023)", "p": "before 1970", "e": "the epoch", "f": "far future (2100 / 2150 / 2255)"}


def compress(rids):
    out = []
    for x in rids:
        if out and out[-1][0] + out[-1][1] == x:
            out[-1][1] += 1
        else:
            out.append([x, 1])
    return out


def tbl_coq(kind, rids):
    return "(tbl %s %s)" % (KIND[kind], runs(compress(rids or [])))


def items_coq(items):
    l = []
    for it in (items or []):
        if it.get("err"):
            l.append("IError")
        else:
            l.append("IChunk %s" % coq_list(["(%d, %s, %s, (%d)%%Z)" % (s["g"], KIND[s["kind"]], tbl_coq(s["kind"], s.get("rids")), max(s.get("sz", 1), 1))
                                             for s in (it.get("chunk") or [])]))
    return coq_list(l)


def handler_reqs_coq(items):
    l = []
    for it in (items or []):
        for s in (it.get("chunk") or []):
            l.append("(%s, %s)" % (KIND[s["kind"]], tbl_coq(s["kind"], s.get("rids"))))
    return coq_list(l)


def block_is_table(e):
    return not e.get("counts") and all(r >= 0 for r in (e.get("rids") or []))


def case2_to_coq(c, wps=1):
    ops = []
    for o in (c.get("ops") or []):
        if o["t"] == "http":
            ops.append("O2Http %s" % items_coq(c["reqs"][o.get("h", 0)].get("items")))
        elif o["t"] == "plan":
            ops.append("O2Plan %d" % o["s"])
        elif o["t"] == "send":
            ops.append("O2Send %d" % o["s"])
        elif o["t"] == "ret":
            ops.append("O2Ret %d %s" % (o["s"], b(o.get("ok"))))
    hnum = {}
    for o in (c.get("ops") or []):
        if o["t"] == "http":
            hnum.setdefault(o.get("h", 0), len(hnum))
    obs = []
    confs = []
    for evs in (c.get("obs") or []):
        l = []
        cf = {}
        for e in (evs or []):
            if e["t"] == "conf":
                # ConfirmSeries entered the key of a series row into the announcement cache (wrapper around controller.FPCache)
                h = e.get("h", 0)
                cf.setdefault(hnum.get(h, 999) if h >= 0 else 999, []).extend(e.get("rids") or [])
        confs.append(coq_list(["(%d, %s)" % (h, coq_list(["%d%%N" % (r if r >= 0 else 999999999) for r in sorted(rs)])) for h, rs in sorted(cf.items())]))
        for e in (evs or []):
            t = e["t"]
            if t == "conf":
                continue
            if t in ("sreq", "sres"):
                # seen by the wrapper around the services: which sub-request, which attempt, how its promise ended
                h, i = e.get("h", 0), e.get("i", 0)
                if not e.get("n"):
                    continue                            # a request without rows: not identifiable (the model side drops them too)
                if h < 0 or i < 0 or h not in hnum:
                    l.append("EDial 99 false")          # a Request the pushes of the script do not explain: never matches
                elif t == "sreq":
                    l.append("EReq 0 (PSub %d %d %d%%N) KSamples [] 0%%Z None" % (hnum[h], i, e.get("k", 0)))
                else:
                    l.append("EResolve (PSub %d %d %d%%N) KSamples [] %s" % (hnum[h], i, e.get("k", 0), b(e["ok"])))
                continue
            if t == "dial":
                l.append("EDial %d %s" % (e["s"], b(e["ok"])))
            elif t == "swap":
                l.append("ESwap %d" % e["s"])
            elif t == "send":
                k = L2KINDS[e["s"] // wps]
                if block_is_table(e):
                    l.append("ESend %d %s %s" % (e["s"], KIND[k], tbl_coq(k, e.get("rids"))))
                else:
                    l.append("ESend %d %s []" % (e["s"], KIND[k]))
            elif t == "done":
                l.append("EDone %d %s" % (e["s"], b(e["ok"])))
            elif t == "answer":
                h = e.get("h", 0)
                l.append("EAnswer %d %s %s" % (h, handler_reqs_coq(c["reqs"][h].get("items")), b(e["ok"])))
        obs.append(coq_list(l))
    cfg = coq_list(["(%s, %d, 0%%Z)" % (KIND[k], i) for i, k in enumerate(L2KINDS) for _ in range(wps)])
    dials = coq_list([coq_list([b(x) for x in (d or [])]) for d in (c.get("dials") or [[] for _ in range(len(L2KINDS) * wps)])])
    own = []
    hn = 0
    for o in (c.get("ops") or []):
        if o["t"] != "http":
            continue
        i = 0
        for it in (c["reqs"][o.get("h", 0)].get("items") or []):
            if it.get("err"):
                break
            for sr in (it.get("chunk") or []):
                for run in compress(sr.get("rids") or []):
                    own.append("(%d%%N, %d%%N, KSub %d %d)" % (run[0], run[1], hn, i))
                i += 1
        hn += 1
    return ("{| d_id := (%d)%%Z; d_cfg := %s; d_attempts := %d%%N; d_dials := %s; d_drained := %s; d_handlers := %d;\n     d_ops := %s;\n     d_obs := %s;\n     d_own := %s;\n     d_repeat := %s;\n     d_conf := %s |}"
            % (c["id"], cfg, c.get("attempts", 1), dials, b(c.get("drained")), len(c.get("reqs") or []), coq_list(ops), coq_list(obs), coq_list(own), b(c.get("repeat")), coq_list(confs)))


def eval_cases2(ck, name, cases):
    txt = (HEADER + "Definition cases : list case2 := [\n  " + ";\n  ".join(case2_to_coq(c) for c in cases) + "].\n"
           "Definition M := Eval vm_compute in mismatches2 cases.\nPrint M.\n"
           "Definition V1 := Eval vm_compute in c01_violations2 cases.\nPrint V1.\n"
           "Definition V2 := Eval vm_compute in c02_violations2 cases.\nPrint V2.\n"
           "Definition FR := Eval vm_compute in fresh_cases2 cases.\nPrint FR.\n")
    rc, out = ck.coq_eval(name, txt)
    if rc != 0:
        return None, None, None, out
    flat = " ".join(out.split())
    m, v1, v2 = parse_ids(flat, "M"), parse_ids(flat, "V1"), parse_ids(flat, "V2")
    if m is None or v1 is None or v2 is None:
        return None, None, None, out
    FRESH2.update(parse_ids(flat, "FR") or [])
    return m, v1, v2, out


def run_level2(ck, pid):
    n = ck.n(144, 3000)
    procs = 8 if ck.quick() else 16
    cases = load_corpus(ck, "ingest", pid, "http.jsonl", 80000000, extra=["--level", "2"])
    ok, gen, tail = run_harness_parallel(ck, "ingest", n, procs, ck.seed + 7, extra=["--level", "2"], tag="l2")
    if not ok:
        ck.obligation("harness ingest (HTTP level) ran", False, tail)
        return None
    cases += gen
    broken = [c for c in cases if c.get("err")]
    good = [c for c in cases if not c.get("err")]
    mism, v1, v2 = [], [], []
    shards = [good[i:i + 60] for i in range(0, len(good), 60)]
    from concurrent.futures import ThreadPoolExecutor
    with ThreadPoolExecutor(max_workers=6) as ex:
        results = list(ex.map(lambda ks: eval_cases2(ck, "%s_l2_%d" % (pid, ks[0]), ks[1]), enumerate(shards)))
    for m, a, b2, out in results:
        if m is None:
            ck.obligation("HTTP-level cases evaluated inside Coq", False, out[-1500:])
            return None
        mism += m
        v1 += a
        v2 += b2
    nontab = [c for c in good if any(e["t"] == "send" and not block_is_table(e) for l in (c.get("obs") or []) for e in (l or []))]
    return {"cases": cases, "good": good, "broken": broken, "mism": mism, "v1": v1, "v2": v2, "nontab": nontab,
            "byid": {c["id"]: c for c in cases},
            # a script that pushes the same series twice submits the same series row twice: not fresh by design (class repeat)
            "notfresh": [c["id"] for c in good if c["id"] not in FRESH2 and not c.get("repeat")],
            "repeat": [c for c in good if c.get("repeat")]}


def shrink2(ck, case, still_bad, budget=30):
    cur = case
    tries = 0
    changed = True
    while changed and tries < budget:
        changed = False
        for i in range(len(cur["ops"]) - 1, -1, -1):
            if tries >= budget:
                break
            if cur["ops"][i]["t"] == "http":
                continue            # handler numbers are positions: keep the pushes
            cand = dict(cur)
            cand["ops"] = cur["ops"][:i] + cur["ops"][i + 1:]
            cand.pop("obs", None)
            cand["drained"] = False
            tries += 1
            inp = os.path.join(ck.work, "shrink2_in.jsonl")
            outp = os.path.join(ck.work, "shrink2_out.jsonl")
            open(inp, "w").write(json.dumps(cand) + "\n")
            rc, _ = ck.go_run("ingest", ["--level", "2", "--cases", inp, "--out", outp])
            if rc != 0:
                continue
            try:
                res = json.loads(open(outp).readline())
            except ValueError:
                continue
            if res.get("err"):
                continue
            if still_bad(res):
                cur = res
                changed = True
                break
    return cur


def nontrivial2(c):
    evs = [e for l in (c.get("obs") or []) for e in (l or [])]
    return (any(e["t"] == "done" and not e["ok"] for e in evs) and any(e["t"] == "answer" for e in evs)
            and c.get("attempts", 0) >= 1)


def coverage_level2(ck, res):
    cases = res["cases"]
    att, routes, opk, status, classes, errs, stamps = {}, {}, {}, {}, {}, {}, {}
    spy = {"request_calls": 0, "promises_failed": 0, "promises_ok": 0}
    distinct = set()
    for c in cases:
        att[str(c.get("attempts"))] = att.get(str(c.get("attempts")), 0) + 1
        cl = str(c.get("class", "?")).split()[0]
        cl = cl if cl.startswith(("exhaust", "bigspans", "corpus")) else "random"
        classes[cl] = classes.get(cl, 0) + 1
        for o in c["ops"]:
            if o["t"] == "ret" and not o.get("ok"):
                t = ERR_TEXTS[o.get("e", 0)] if 0 <= o.get("e", 0) < len(ERR_TEXTS) else "?"
                errs[t] = errs.get(t, 0) + 1
        for l in (c.get("obs") or []):
            for e in (l or []):
                if e["t"] == "sreq":
                    spy["request_calls"] += 1
                elif e["t"] == "sres":
                    spy["promises_ok" if e.get("ok") else "promises_failed"] += 1
        for r in c.get("reqs") or []:
            routes[r["route"]] = routes.get(r["route"], 0) + 1
            rejected = any(it.get("err") for it in (r.get("items") or []))
            for ch in r.get("ts") or "":
                k = "%s: %s%s" % (r["route"], STAMP_CLASS.get(ch, ch), " (body refused by the parser)" if rejected else "")
                stamps[k] = stamps.get(k, 0) + 1
        for o in c["ops"]:
            opk[o["t"]] = opk.get(o["t"], 0) + 1
        for l in (c.get("obs") or []):
            for e in (l or []):
                if e["t"] == "answer":
                    status[str(e.get("status"))] = status.get(str(e.get("status")), 0) + 1
        if nontrivial2(c):
            distinct.add(json.dumps([c["reqs"], c["ops"], c.get("attempts")], sort_keys=True))
    # class repeat: the same series pushed again; how often a parser left series rows out (first Request call of a series
    # sub-request carries fewer rows than the body gives rise to on an empty cache)
    rep = {"scripts": 0, "pushes": 0, "pushes_with_series_rows_left_out": 0, "pushes_answered_error": 0}
    for c in cases:
        if not c.get("repeat"):
            continue
        sub = " ".join(str(c.get("class", "?")).split()[:2])
        rep[sub] = rep.get(sub, 0) + 1
        rep["scripts"] += 1
        first = {}
        for l in (c.get("obs") or []):
            for e in (l or []):
                if e["t"] == "sreq" and e.get("s") == 0 and e.get("k", 0) == 0 and e.get("h", 0) >= 0:
                    first.setdefault(e.get("h", 0), e.get("n", 0))
                if e["t"] == "answer" and not e.get("ok"):
                    rep["pushes_answered_error"] += 1
        for h, r in enumerate(c.get("reqs") or []):
            full = sum(len(sr.get("rids") or []) for it in (r.get("items") or []) for sr in (it.get("chunk") or []) if sr.get("kind") == "series")
            rep["pushes"] += 1
            if full > first.get(h, 0):
                rep["pushes_with_series_rows_left_out"] += 1
    ck.extra.setdefault("input_distribution", {})["http_repeated_series"] = rep
    ck.coverage["evaluations"] += len(cases)
    ck.coverage["distinct_nontrivial"] += len(distinct)
    ck.coverage["rule"] += ("HTTP scripts: the real PushStreamV2 (Loki JSON and snappy protobuf), PushV2 (Zipkin JSON), WriteStreamV2 (Prometheus remote write), OTLPPushV2 and PushProfileV2 (pprof, binary/octet-stream) handlers over five real services, RetryAttempts 0..3, "
                            "1..4 pushes (one in ten with a body the parser rejects; one stream / span / series in four dated before 1970, at the epoch or in 2100..2255), 6..19 operations (push, PlanFlush, let a worker call Do, return of Do with success 2/5) then a drain; "
                            "a failing INSERT returns one of 12 real socket / ClickHouse error texts; two scripted classes by case number: exhaust (2 in 10: every INSERT fails until every push is answered, "
                            "every second one with a connection-reset text) and bigspans (1 in 10: a Zipkin push above the parser's 1 MiB chunk threshold, 3-4 chunks, first INSERT fails), repeat (1 in 10: the same Loki series pushed 2-3 times over a real per-script "
                            "announcement cache -- after the previous push was confirmed / while it is in flight / after its series INSERT failed for good); "
                            "every Request call of doPush and the completion of its promise are observed through a wrapper around the services and compared with the model; "
                            "non-trivial = RetryAttempts >= 1, at least one failed INSERT and one answer; distinct by content. ")
    ck.extra.setdefault("input_distribution", {}).update({"http_retry_attempts": att, "http_routes": routes, "http_operation_kinds": opk,
                                                           "http_status_codes": status, "http_script_classes": classes,
                                                           "http_insert_error_texts": errs, "http_request_calls_seen_by_wrapper": spy,
                                                           "http_timestamp_classes_per_stream_or_span": stamps})
    ck.add_samples([{"attempts": c.get("attempts"), "reqs": [{"route": r["route"], "items": r["items"]} for r in c["reqs"]][:2],
                     "ops": c["ops"][:8], "obs": (c.get("obs") or [])[:8]} for c in cases[:2]], limit=5)


# ---------------------------------------------------------------------------------------------- level 3 (soak, a test)
def run_soak(ck, pid):
    """real timers, concurrent clients, random INSERT outcomes; only the monitors are run on the observed log"""
    n = ck.n(3, 40)
    outp = os.path.join(ck.work, "soak.jsonl")
    rc, out = ck.go_run("ingest", ["--level", "3", "--seed", ck.seed + 31, "--n", n, "--out", outp], timeout=1200)
    if rc != 0:
        ck.obligation("soak test ran", False, out[-1500:])
        return None
    cases = [json.loads(l) for l in open(outp)]
    broken = [c for c in cases if c.get("err")]
    good = [c for c in cases if not c.get("err")]
    v1, v2 = [], []
    if good:
        txt = (HEADER + "Definition cases : list case2 := [\n  " + ";\n  ".join(case2_to_coq(c, wps=4) for c in good) + "].\n"
               "Definition M : list Z := [].\nPrint M.\n"
               "Definition V1 := Eval vm_compute in c01_violations2 cases.\nPrint V1.\n"
               "Definition V2 := Eval vm_compute in c02_violations2 cases.\nPrint V2.\n")
        rc, o = ck.coq_eval("%s_soak" % pid, txt)
        flat = " ".join(o.split())
        v1, v2 = parse_ids(flat, "V1"), parse_ids(flat, "V2")
        if rc != 0 or v1 is None or v2 is None:
            ck.obligation("soak log evaluated inside Coq", False, o[-1500:])
            return None
    nontab = [c for c in good if any(e["t"] == "send" and not block_is_table(e) for l in (c.get("obs") or []) for e in (l or []))]
    evs = [e for c in cases for l in (c.get("obs") or []) for e in (l or [])]
    ck.extra["soak_test"] = {
        "what": "TEST, not a comparison with the model: PushInterval 2 ms, maxQueueSize 400, round robins of 2 workers, 16 concurrent clients x 6 pushes per run over all HTTP routes, "
                "RetryAttempts 3, fake ClickHouse answering after 0..300 us with an error one time in four; the C01/C02 monitors are run on the observed event log",
        "runs": len(cases), "pushes": sum(len(c.get("reqs") or []) for c in cases),
        "blocks": sum(1 for e in evs if e["t"] == "send"), "failed_inserts": sum(1 for e in evs if e["t"] == "done" and not e["ok"]),
        "answers_success": sum(1 for e in evs if e["t"] == "answer" and e["ok"]), "answers_error": sum(1 for e in evs if e["t"] == "answer" and not e["ok"]),
    }
    return {"cases": cases, "good": good, "broken": broken, "v1": v1, "v2": v2, "nontab": nontab, "byid": {c["id"]: c for c in cases}}
