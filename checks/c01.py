"""C01 -- a push is acknowledged only after ClickHouse accepted all of its rows.

props/C01.v: theorems over the global ingest model (all insert workers, promise store, HTTP handlers with
retry) in monitor form.  Tie: harness/cmd/ingest drives the real services (and, level 2, the real HTTP
handlers) over a scripted fake ClickHouse client; the model must reproduce every observed event and the
monitors must accept the observed trace.
"""
from checks import ingest_common as ic


def run(ck):
    ck.trusted += [
        "C01: the Go memory model as far as the promise needs it (sequentially consistent sync/atomic operations; a receive from a closed channel is ordered after the close; "
        "plain reads see ANY write they are not ordered after -- modelled as seeing the current value of the field in an interleaving of the micro-operations of model/PromiseHB.v)",
        "C01: Go mutex semantics (a Lock/Unlock region is atomic with respect to the other regions of the same mutex); WHICH regions exist and what they touch is "
        "regenerated from the source and compared with model/IngestRegions.v on every run; "
        "timers, the 1 s sleep after a refused connection and the watchdog are modelled as nondeterministic steps (SPlan, SDial, SPingFail)",
        "C01: the unsynchronised read of svc.running, ch-go block encoding and real-time bounds are outside the model; "
        "requests of the wrong Go type for a service (never produced by the routes) are not modelled",
    ]
    ck.coq_props()
    ic.run_regions(ck, "C01")
    ic.run_promise(ck, "C01")
    res = ic.run_level1(ck, "C01")
    if res is None:
        return
    byid = res["byid"]
    for c in res["broken"][:1]:
        stuck = [x for x in res["broken"] if "watchdog" in (x.get("err") or "") or "no quiescence" in (x.get("err") or "")]
        if stuck:
            # the system under test stopped making progress on a script whose database answers every Do the script lets return:
            # requests are never answered -- the liveness clause of C01, with the script as the failing input
            w = ic.smallest(stuck)
            ck.violation({"property": "C01", "kind": "the insert path stopped making progress (dead-lock / goroutine that never parks): requests of this script are never answered",
                          "explanation": "every_push_is_answered_exactly_once: while the database keeps answering every request gets its answer; on the implementation the script below "
                                         "leaves goroutines of the system under test running or blocked outside a channel operation for more than 30 s (harness: waitQuiet / watchdog)",
                          "harness_error": w["err"], "case": w, "replay": "harness ingest --cases <file with this case>"})
        else:
            ck.violation({"property": "C01", "kind": "the script could not be executed deterministically on the implementation",
                          "harness_error": c["err"], "case": c, "replay": "harness ingest --cases <file with this case>"}, no_input=True)
    ck.obligation("harness executed every generated script (quiescence reached, no panic)", not res["broken"],
                  "%d scripts; first: %s" % (len(res["broken"]), res["broken"][0]["err"] if res["broken"] else ""))
    ck.obligation("correspondence: model events = observed events on %d service scripts" % len(res["good"]), not res["mism"],
                  "mismatching case ids: %s" % res["mism"][:10])
    ck.obligation("C01 monitors (ack_sound, promise discipline, one answer) accept every observed trace", not res["v1"],
                  "violating case ids: %s" % res["v1"][:10])
    if res["v1"]:
        worst = ic.smallest([byid[i] for i in res["v1"]])

        def still_bad(c):
            m, v1, v2, _ = ic.eval_cases(ck, "C01_shrink", [c])
            return bool(v1)
        worst = ic.shrink(ck, "ingest", worst, still_bad)
        diag = ic.diagnose_variant(ck, "C01_variant", worst)
        ck.violation({"property": "C01", "kind": "acknowledgement discipline violated by the implementation",
                      "explanation": "the C01 monitors of model/IngestSpec.v (amon_step / smon_step / one_answer_b) reject the events observed on the real services: "
                                     "a promise was completed with success before / without a successful Do containing its rows, or outside the release of its own block",
                      "case": worst, "replay": "harness ingest --cases <file with the case object on one line>",
                      **({"interleaving": diag} if diag else {})})
    elif res["mism"]:
        worst = ic.smallest([byid[i] for i in res["mism"]])
        ck.violation({"property": "C01", "kind": "model/implementation disagree; the C01 monitors still accept every observed trace",
                      "case": worst, "broken": "correspondence Ingest.sstep / PushHandler.gstep vs writer/service"}, no_input=True)
    ic.coverage_level1(ck, res)
    run_samerows(ck)
    run_http(ck)


def run_samerows(ck):
    """level 5 (harness/cmd/ingest/samerows.go): service scripts whose requests carry rows ANOTHER request has already queued -- in the open
    batch of the same worker or in the batch of another worker of the round robin.  Level 1 draws fresh row ids per request, so a
    ProcessRequest closure whose decision depends on what is queued (seeded C01-h and its family) behaves there like the unchanged one.
    Model side: eff takes no worker state (request_with_rows_joins_the_batch, a_request_with_rows_waits_whatever_is_queued_elsewhere)."""
    n = ck.n(48, 1200)
    ok, cases, tail = ic.run_harness_parallel(ck, "ingest", n, 4 if ck.quick() else 12, ck.seed + 13, extra=["--samerows"], tag="l5")
    if not ok:
        ck.obligation("harness ingest --samerows ran", False, tail)
        return
    for c in cases:
        c["id"] += 50000000
    broken = [c for c in cases if c.get("err")]
    good = [c for c in cases if not c.get("err")]
    mism, v1 = [], []
    for k, shard in enumerate(ic.shard_cases(good)):
        m, a, _, out = ic.eval_cases(ck, "C01_l5_%d" % k, shard)     # the C02 oracles (blocks of distinct rows) do not apply: rows repeat by construction
        if m is None:
            ck.obligation("repeated-rows cases evaluated inside Coq", False, out[-1500:])
            return
        mism += m
        v1 += a
    byid = {c["id"]: c for c in cases}
    ck.obligation("harness executed every repeated-rows service script (quiescence reached, no panic)", not broken,
                  "%d scripts; first: %s" % (len(broken), broken[0]["err"] if broken else ""))
    ck.obligation("correspondence: model events = observed events on %d service scripts whose requests repeat rows already queued "
                  "(same worker / another worker of the round robin; all six kinds)" % len(good), not mism, "mismatching case ids: %s" % mism[:10])
    ck.obligation("C01 monitors accept every observed trace of the repeated-rows scripts (a request with rows is never completed by Request itself; "
                  "success only with every cell in one accepted block)", not v1, "violating case ids: %s" % v1[:10])
    if v1:
        worst = ic.smallest([byid[i] for i in v1])

        def still_bad(c):
            m, a, _, _ = ic.eval_cases(ck, "C01_shrink5", [c])
            return bool(a)
        worst = ic.shrink(ck, "ingest", worst, still_bad)
        ck.violation({"property": "C01", "kind": "acknowledgement discipline violated on a request that repeats rows another request had queued",
                      "explanation": "the C01 monitors (amon_step / smon_step, model/IngestSpec.v) reject the events observed on the real services: a request carrying rows was "
                                     "completed by Request itself, or acknowledged by a block that does not hold all of its rows (the rows sit in another request's batch, "
                                     "whose INSERT may fail) -- Ingest.eff appends every row of a request whatever is queued (request_with_rows_joins_the_batch)",
                      "case": worst, "replay": "harness ingest --cases <file with the case object on one line>"})
    elif mism or broken:
        bad = [byid[i] for i in mism] or broken
        ck.violation({"property": "C01", "kind": "model/implementation disagree on a script whose requests repeat queued rows; the C01 monitors still accept every observed trace",
                      "case": ic.smallest(bad), "broken": "correspondence Ingest.sstep (eff: what ProcessRequest appends does not depend on the batch) vs writer/service/impl"},
                     no_input=True)
    hist, kinds = {}, {}
    rr_apart = 0
    for c in cases:
        hist[c.get("class", "?")] = hist.get(c.get("class", "?"), 0) + 1
        kinds[c["svcs"][0]["kind"]] = kinds.get(c["svcs"][0]["kind"], 0) + 1
        if (c["svcs"][0].get("par") or 1) > 1:
            ws, base = ic.workers_of(c)
            picks = ic.infer_picks(c, ws, base)
            if len({picks[o["p"]] for o in c["ops"][:2] if ic.is_req(o) and o["s"] == 0}) > 1:
                rr_apart += 1
    ck.coverage["evaluations"] += len(cases)
    ck.coverage["distinct_nontrivial"] += len({ic.case_key(c) for c in cases if ic.nontrivial(c)})
    ck.coverage["rule"] += ("repeated-rows service scripts: one service of each kind in turn (every second one a round robin of 2..3 workers) [+ a bystander service], request 1 with 1..3 "
                            "fresh rows, request 2 = the same rows / one of them / a fresh row then those rows [a third copy], flush, first INSERT refused in 3 of 4, the rows submitted "
                            "once more, flush, drain. ")
    ck.extra.setdefault("input_distribution", {})["repeated_rows_service_scripts"] = {
        "classes": hist, "kind_of_the_service_under_test": kinds, "round_robin_scripts_where_the_two_requests_met_different_workers": rr_apart}


def run_http(ck):
    """level 2: the real HTTP handlers (doParse / doPush with retry) over real services"""
    res = ic.run_level2(ck, "C01")
    if res is None:
        return
    byid = res["byid"]
    ck.obligation("harness executed every HTTP script (quiescence reached, parser output tabular)", not res["broken"],
                  "%d scripts; first: %s" % (len(res["broken"]), res["broken"][0]["err"] if res["broken"] else ""))
    ck.obligation("correspondence: model = observed (blocks as row sets, Do returns, answers) on %d HTTP scripts" % len(res["good"]),
                  not res["mism"], "mismatching case ids: %s" % res["mism"][:10])
    ck.obligation("C01 monitors accept every observed HTTP trace (success status only with all rows in accepted INSERTs; one answer; every push answered after a drain)",
                  not res["v1"], "violating case ids: %s" % res["v1"][:10])
    if res["v1"]:
        worst = min((byid[i] for i in res["v1"]), key=lambda c: (len(c["ops"]), len(c["reqs"])))

        def still_bad(c):
            m, v1, v2, _ = ic.eval_cases2(ck, "C01_shrink2", [c])
            return bool(v1)
        worst = ic.shrink2(ck, worst, still_bad)
        for r in worst.get("reqs") or []:
            try:
                r["body_text"] = bytes.fromhex(r["body"]).decode("utf8", "replace")
            except ValueError:
                pass
        worst["insert_error_texts"] = {str(o.get("e", 0)): ic.ERR_TEXTS[o.get("e", 0)] for o in worst.get("ops") or []
                                       if o.get("t") == "ret" and not o.get("ok") and 0 <= o.get("e", 0) < len(ic.ERR_TEXTS)}
        ck.violation({"property": "C01", "kind": "an HTTP push was acknowledged although no successful INSERT held all of its rows (or it was never / twice answered)",
                      "explanation": "amon_step / one_answer_b / answered-after-drain (model/IngestSpec.v, model/IngestCases.v) reject the events observed on the real handlers: "
                                     "see the answer events and the done events of the blocks carrying the rows of that push",
                      "case": worst, "replay": "harness ingest --level 2 --cases <file with the case object on one line>"})
    elif res["mism"] or res["broken"]:
        bad = [byid[i] for i in res["mism"]] or res["broken"]
        worst = min(bad, key=lambda c: (len(c["ops"]), len(c["reqs"])))
        ck.violation({"property": "C01", "kind": "model/implementation disagree on an HTTP script; the C01 monitors still accept every observed trace",
                      "case": worst, "broken": "correspondence PushHandler.gstep (doParse/doPush/retry) vs writer/controller"}, no_input=True)
    ic.coverage_level2(ck, res)
    soak = ic.run_soak(ck, "C01")
    if soak is not None:
        ck.obligation("soak TEST (real timers, concurrent clients): every push answered while the database kept answering", not soak["broken"],
                      "; ".join(c["err"] for c in soak["broken"])[:500])
        ck.obligation("soak TEST: the C01 monitors accept the observed event log", not soak["v1"], "violating runs: %s" % soak["v1"])
        if soak["v1"] or soak["broken"]:
            bad = [soak["byid"][i] for i in soak["v1"]] or soak["broken"]
            c = dict(bad[0])
            ck.violation({"property": "C01", "kind": "soak test: a push was acknowledged without a successful INSERT holding its rows, answered twice, or never answered",
                          "note": "observed under real timers and concurrency; the log below is the evidence, re-running may take another interleaving",
                          "case": {"id": c["id"], "attempts": c.get("attempts"), "err": c.get("err"), "reqs": [{"route": r["route"], "items": r["items"]} for r in c["reqs"]],
                                   "obs": c.get("obs")},
                          "replay": "harness ingest --level 3 --seed <seed> --n <n> (timing dependent)"})
