"""C20 — with basic auth configured no route is reachable without the credentials.

1. translate/gen_routes re-reads main.go and every function the router value is passed to and writes the ordered
   assembly (NewRouter / Use / routes / Serve, each under its condition) to coq/gen/GenRoutes.v (+ .build/gen/GenRoutes.json for the harness).
2. props/C20.v: auth_first_everywhere is re-proved over the regenerated assembly for all 2^n valuations of its
   conditions; the behavioural theorems (no_handler_without_credentials, right_credentials_pass,
   compression_cors_cannot_bypass, basic_auth_accepts_exactly, b64_roundtrip ...) hold for all requests.
3. harness authroutes interprets the same assembly with the REAL mux, middlewares and registration functions:
   router.Walk must list exactly the routes of the assembly; every route x method x Authorization class x
   Accept-Encoding x Origin is served and the observation compared, inside Coq, with model/Router.v (mismatches) and
   with the property's oracle spec_ok (spec_violations); BasicAuthMiddleware alone and base64 DecodeString are
   compared with model/Auth.v on generated header byte strings.
"""
import json
import os
import re
import subprocess

import vcheck
from vcheck import coq_string

ROOT = os.path.dirname(os.path.dirname(os.path.abspath(__file__)))
GEN_V = os.path.join(ROOT, "coq", "gen", "GenRoutes.v")
GEN_JSON = os.path.join(ROOT, ".build", "gen", "GenRoutes.json")

MUX_EXPECT = {
    "use_after_route": "200 A,B,handler",     # a Use after the registration still covers the route
    "use_before_route": "200 A,B,handler",
    "subrouter": "200 A,B,S,handler",         # parent's chain, then the sub-router's own
    "method_mismatch": "405 ",                # no middleware runs
    "not_found": "404 ",
    "fresh_router": "200 handler",            # a router made by NewRouter shares nothing
}

HEAD = ("From Coq Require Import List String Ascii Bool NArith.\n"
        "From Qryn Require Import model.Auth model.Router gen.GenRoutes.\n"
        "Import ListNotations.\nOpen Scope string_scope.\nOpen Scope N_scope.\n")


def unhex(h):
    return bytes.fromhex(h)


def ids_of(out, name):
    flat = " ".join(out.split())
    m = re.search(name + r" = \[(.*?)\]\s*: list N", flat)
    if not m:
        return None
    return [int(x) for x in re.findall(r"\d+", m.group(1))]


def coq_bool(b):
    return "true" if b else "false"


def eval_route_groups(ck, name, groups):
    """groups: list of (walk line, root, cases, with_spec) -- several configurations / served roots in ONE Coq file
    -> (mismatch ids, spec violation ids, names of configurations whose dispatch is not exact, output)"""
    strs = {}

    def ref(b):
        if b not in strs:
            strs[b] = "s%d" % len(strs)
        return strs[b]
    body = ""
    ms, vs, xs = [], [], []
    for gi, (walk, root, cases, with_spec) in enumerate(groups):
        cfg = walk["config"]
        lines = []
        for c in cases:
            q, o = c["req"], c["obs"]
            auth = unhex(q["auth"]) if q["has_auth"] else b""
            # a hijacked connection answers on the raw socket: headers set on the ResponseWriter (CORS) are not sent;
            # the CORS flag is not compared for those (status, handler-ran, WWW-Authenticate and gzip are)
            cors = o["cors"] if not o.get("hijacked") else bool(cfg["cors"])
            lines.append("mk %d %s %s %s %s %d %d %s %d %s %s %s" % (
                c["id"], ref(q["method"].encode()), ref(q["path"].encode()), ref(auth), coq_bool(q["gzip"]), q["hstatus"],
                o["status"], coq_bool(o["ran"] > 0), o["backend"], coq_bool(o["www"]),
                coq_bool(o["gzip"]), coq_bool(cors)))
        body += "Definition ops%d := Eval vm_compute in active (env_of_list [%s]) gen_assembly.\n" % (gi, "; ".join(coq_bool(b) for b in walk["env"]))
        body += "Definition login%d := %s.\nDefinition pass%d := %s.\n" % (gi, coq_string(cfg["login"]), gi, coq_string(cfg["pass"]))
        body += "Definition cases%d : list rcase := [\n  %s].\n" % (gi, ";\n  ".join(lines))
        xs.append("dispatch_exact ops%d" % gi)
        ms.append("mismatches true login%d pass%d ops%d %d%%nat cases%d" % (gi, gi, gi, root, gi))
        if with_spec:
            vs.append("spec_violations login%d pass%d cases%d" % (gi, gi, gi))
    txt = HEAD
    for b, n in strs.items():
        txt += "Definition %s : string := %s.\n" % (n, coq_string(b))
    txt += ("Definition mk (id : N) (m p a : string) (gz : bool) (tag st : N) (hr : bool) (be : N) (w g c : bool) : rcase :=\n"
            "  {| c_id := id; c_req := {| q_method := m; q_path := p; q_auth := a; q_gzip := gz; q_tag := tag |};\n"
            "     c_obs := {| o_status := st; o_handler := hr; o_backend := be; o_www := w; o_gzip := g; o_cors := c |} |}.\n")
    txt += body
    txt += "Definition X := Eval vm_compute in [%s].\nPrint X.\n" % "; ".join(xs)
    txt += "Definition M := Eval vm_compute in (%s)%%list.\nPrint M.\n" % " ++ ".join(ms + ["[]"])
    txt += "Definition V := Eval vm_compute in (%s)%%list.\nPrint V.\n" % " ++ ".join(vs + ["[]"])
    rc, out = ck.coq_eval(name, txt)
    if rc != 0:
        return None, None, None, out
    flat = " ".join(out.split())
    m = re.search(r"X = \[(.*?)\]\s*: list bool", flat)
    flags = re.findall(r"true|false", m.group(1)) if m else []
    inexact = [g[0]["cfg"] for g, fl in zip(groups, flags) if fl != "true"]
    if len(flags) != len(groups):
        inexact = [g[0]["cfg"] for g in groups]
    return ids_of(out, "M"), ids_of(out, "V"), inexact, out


def eval_auth_cases(ck, name, login, pw, cases):
    lines = []
    for c in cases:
        auth = unhex(c["auth"]) if c["has_auth"] else b""
        lines.append("{| a_id := %d; a_auth := %s; a_status := %d; a_next := %s; a_www := %s; a_payload := %s; a_decode_ok := %s |}" % (
            c["id"], coq_string(auth), c["status"], coq_bool(c["next"]), coq_bool(c["www"]),
            coq_string(unhex(c["payload"] or "")), coq_bool(c["dec_ok"])))
    txt = HEAD
    txt += "Definition login := %s.\nDefinition pass := %s.\n" % (coq_string(login), coq_string(pw))
    txt += "Definition cases : list acase := [\n  " + ";\n  ".join(lines) + "].\n"
    txt += "Definition M := Eval vm_compute in auth_mismatches true login pass cases.\nPrint M.\n"
    txt += "Definition V := Eval vm_compute in auth_spec_violations login pass cases.\nPrint V.\n"
    rc, out = ck.coq_eval(name, txt)
    if rc != 0:
        return None, None, out
    return ids_of(out, "M"), ids_of(out, "V"), out


def curl_of(c, cfg=None):
    q = c["req"]
    h = ""
    if q.get("has_auth"):
        h = " -H %s" % json.dumps("Authorization: " + unhex(q["auth"]).decode("latin1"))
    if q.get("auth2"):
        h += " -H %s" % json.dumps("Authorization: " + unhex(q["auth2"]).decode("latin1"))
    if q.get("gzip"):
        h += " -H 'Accept-Encoding: gzip'"
    if q.get("origin") or q.get("preflight"):
        h += " -H 'Origin: http://elsewhere.example'"
    if q.get("preflight"):
        h += " -H 'Access-Control-Request-Method: %s' -H 'Access-Control-Request-Headers: authorization'" % q["preflight"]
    if q.get("upgrade"):
        h += " -H 'Connection: Upgrade' -H 'Upgrade: websocket' -H 'Sec-WebSocket-Version: 13' -H 'Sec-WebSocket-Key: dGhlIHNhbXBsZSBub25jZQ=='"
    return "curl -i -X %s%s http://<qryn>:3100%s   # configured credentials: %s" % (q["method"], h, q["path"], cfg or c.get("cfg"))


def regen(ck):
    env = dict(os.environ)
    env["VERIF_REPO"] = vcheck.REPO
    env.setdefault("GOCACHE", os.path.join(vcheck.BUILD, "gocache"))
    with vcheck.Lock("c20gen"):
        p = subprocess.run([os.path.join(ROOT, "translate", "gen_routes")], env=env, stdout=subprocess.PIPE,
                           stderr=subprocess.STDOUT, text=True, timeout=600)
    ck.checker_cmds.append("translate/gen_routes")
    return p.returncode, p.stdout


ENV_HEADER = """// Code generated by checks/c20.py from %(repo)s/main.go -- verbatim copies, DO NOT EDIT.
package main

import (
	"fmt"
	"os"
	"strconv"
	"strings"

	clconfig "github.com/metrico/cloki-config"
	"github.com/metrico/cloki-config/config"
)

var _ = fmt.Sprint
var _ = os.Getenv
var _ = strconv.Atoi
var _ = strings.SplitN
var _ *clconfig.ClokiConfig
var _ config.ClokiBaseDataBase

const envGenerated = true

"""


def extract_func(src, name):
    """the text of top-level `func name(` up to its closing brace at column 0 (gofmt layout)"""
    m = re.search(r"^func %s\(" % re.escape(name), src, re.M)
    if not m:
        return None
    end = src.find("\n}\n", m.start())
    return None if end < 0 else src[m.start():end + 3]


def extract_closure(src, roots, skip=()):
    """roots plus every top-level function of the same file they (transitively) call: a refactoring that moves part of a
    copied function into a helper next to it keeps the copy complete. Returns (ordered names, {name: text}, missing roots)."""
    tops = re.findall(r"^func (\w+)\(", src, re.M)
    texts, order, missing = {}, [], []
    todo = list(roots)
    while todo:
        n = todo.pop(0)
        if n in texts or n in skip:
            continue
        t = extract_func(src, n)
        if t is None:
            if n in roots:
                missing.append(n)
            continue
        texts[n] = t
        order.append(n)
        body = re.sub(r"//[^\n]*", "", re.sub(r"/\*.*?\*/", "", t[t.index("{"):], flags=re.S))   # calls in comments do not count
        for h in tops:
            if h not in texts and h not in todo and h not in skip and re.search(r"\b%s\(" % re.escape(h), body):
                todo.append(h)
    return order, texts, missing


def run_env(ck):
    """portEnv (package main) compiled verbatim into harness/cmd/authenv; model/AuthEnv.v port_env on the same environments"""
    src = open(os.path.join(vcheck.REPO, "main.go")).read()
    parts, missing = [], []
    order, texts, missing = extract_closure(src, ["portEnv", "portCHEnv", "boolEnv"],
                                            skip=("main", "init", "initFlags", "initDB", "initPyro", "httpStart"))
    parts = ["// ---- main.go: func %s\n%s" % (n, texts[n]) for n in order]
    if not ck.obligation("portEnv, portCHEnv and boolEnv found in main.go", not missing, "missing: %s" % missing):
        return
    gdir = os.path.join(vcheck.BUILD, "gen", vcheck.repo_tag())
    os.makedirs(gdir, exist_ok=True)
    gen = os.path.join(gdir, "authenv_portenv_gen.go")
    txt = ENV_HEADER % {"repo": vcheck.REPO} + "\n".join(parts)
    if not os.path.exists(gen) or open(gen).read() != txt:
        open(gen, "w").write(txt)
    ov = os.path.join(gdir, "authenv_overlay.json")
    open(ov, "w").write(json.dumps({"Replace": {os.path.join(vcheck.HARNESS, "cmd", "authenv", "portenv_gen.go"): gen}}))
    with vcheck.Lock("gomod"):
        vcheck.ensure_harness_module()
    rc, out = vcheck.sh(["go", "build", "-modfile=" + vcheck.modfile(), "-overlay=" + ov, "-tags", "verif", "-o",
                         vcheck.bin_path("authenv"), "./cmd/authenv"], cwd=vcheck.HARNESS, env=vcheck.go_env(), timeout=1200)
    ck.log("go build authenv (+ portEnv copied from main.go) rc=%d" % rc)
    if not ck.obligation("harness authenv builds with the copied portEnv", rc == 0, out[-1500:]):
        return
    outp = os.path.join(ck.work, "authenv.jsonl")
    rc, out = ck.go_run("authenv", ["--seed", ck.seed, "--n", ck.n(400, 6000), "--out", outp])
    if not ck.obligation("harness authenv ran", rc == 0, out[-1500:]):
        return
    cases = [json.loads(l) for l in open(outp)]
    bad = [c for c in cases if c.get("panic")]
    if not ck.obligation("portEnv never panics on generated environments", not bad, str(bad[:1])[:500]):
        ck.violation({"property": "C20", "kind": "portEnv panicked", "case": bad[0]})
        return

    def cfgc(a):
        return "{| a_user := %s; a_pass := %s; a_cors := %s; a_origin := %s; a_mode := %s |}" % (
            coq_string(a["user"]), coq_string(a["pass"]), coq_bool(a["cors"]), coq_string(a["origin"]), coq_string(a["mode"]))
    preset = "[{| o_cluster := \"\"; o_ttl_policy := []; o_ttl_days := 7; o_storage_policy := \"\" |}]"
    rows = []
    for c in cases:
        env = "[" + "; ".join("(%s, %s)" % (coq_string(kv["k"]), coq_string(kv["v"])) for kv in c["env"]) + "]"
        rows.append("{| ec_id := %d; ec_env := %s; ec_file := %s; ec_preset := %s; ec_err := %s; ec_out := %s |}" % (
            c["id"], env, cfgc(c["file"]), preset if c["preset"] else "[]", coq_bool(c["err"]), cfgc(c["out"])))
    txt = ("From Coq Require Import List ZArith Bool String Ascii.\nFrom Qryn Require Import model.Router model.RotateCfg model.AuthEnv.\n"
           "Import ListNotations.\nOpen Scope string_scope.\nOpen Scope Z_scope.\n"
           "Definition cases : list ecase := [\n  " + ";\n  ".join(rows) + "].\n"
           "Definition EM := Eval vm_compute in env_mismatches cases.\nPrint EM.\n"
           "Definition EV := Eval vm_compute in env_violations cases.\nPrint EV.\n")
    rc, out = ck.coq_eval("C20_env", txt)
    flat = " ".join(out.split())
    m = re.search(r"EM = \[(.*?)\]\s*: list Z", flat)
    v = re.search(r"EV = \[(.*?)\]\s*: list Z", flat)
    if not ck.obligation("environments evaluated inside Coq", rc == 0 and m and v, out[-1500:]):
        return
    mism = [int(x) for x in re.findall(r"\d+", m.group(1))]
    viol = [int(x) for x in re.findall(r"\d+", v.group(1))]
    byid = {c["id"]: c for c in cases}
    ck.obligation("correspondence: model AuthEnv.port_env = portEnv of main.go on %d environments (error, Username, Password, Cors, Mode)" % len(cases),
                  not mism, "mismatching ids: %s" % mism[:10])
    ck.obligation("a login and a password given by the environment (or the file) are the Username and Password main sees (CLOKI_ over QRYN_ over file)",
                  not viol, "violating ids: %s" % viol[:10])
    if viol:
        w = min((byid[i] for i in viol), key=lambda c: len(c["env"]))
        ck.violation({"property": "C20", "kind": "portEnv does not hand the configured credentials to main: BasicAuth is not installed with them",
                      "case": w, "replay": "harness authenv --cases <file with the line `case`>"})
    elif mism:
        w = min((byid[i] for i in mism), key=lambda c: len(c["env"]))
        ck.violation({"property": "C20", "kind": "model/AuthEnv.v and portEnv disagree; the oracle accepts", "case": w}, no_input=True)
    # the configuration FILE reader (cloki-config: viper + mapstructure, not qryn's code) driven the way main drives it
    # (clconfig.New with the path, ReadConfig, then the verbatim portEnv): the values of the file reach the fields byte
    # for byte -- in particular a non-empty password never becomes empty (blanks, quotes, backslashes, non-ASCII)
    real = [c for c in cases if c.get("via_file")]
    changed = [c for c in real if c.get("read") != c["file"]]
    emptied = [c for c in real if (c["file"]["pass"] and not (c.get("read") or {}).get("pass")) or (c["file"]["user"] and not (c.get("read") or {}).get("user"))]
    ck.obligation("configuration file reader (cloki-config ReadConfig, as main calls it) hands username, password, cors and mode of %d generated files to the fields unchanged (%d distinct credential texts)"
                  % (len(real), len(set(c["file"]["pass"] for c in real) | set(c["file"]["user"] for c in real))),
                  bool(real) and not changed, "first: %s" % json.dumps(changed[:1])[:600])
    if emptied:
        w = emptied[0]
        ck.violation({"property": "C20", "kind": "a configured non-empty login/password is EMPTY after the configuration reader: main installs no BasicAuth (login_without_password_is_open)",
                      "case": w, "replay": "harness authenv --cases <file with the line `case`>"})
    both = sum(1 for c in cases if not c["err"] and c["out"]["user"] and c["out"]["pass"])
    ck.extra["configuration_file_reader"] = {"files": len(real), "changed_by_the_reader": len(changed), "emptied": len(emptied),
                                             "credential_texts": sorted(set(c["file"]["pass"] for c in real))[:40]}
    ck.coverage["evaluations"] += len(cases)
    ck.coverage["distinct_nontrivial"] += len(set(json.dumps(c["env"]) for c in cases if not c["err"] and (c["out"]["user"] or c["out"]["pass"])))
    ck.extra["environments"] = {"cases": len(cases), "refused": sum(1 for c in cases if c["err"]), "login_and_password": both,
                                "only_one_of_them": sum(1 for c in cases if not c["err"] and bool(c["out"]["user"]) != bool(c["out"]["pass"])),
                                "modes_seen": sorted(set(c["out"]["mode"] for c in cases if not c["err"]))}


def run(ck):
    # coq/gen/GenRoutes.v is shared by every run of this check (also runs against a scratch VERIF_REPO): serialise them
    with vcheck.Lock("c20run"):
        run_locked(ck)


def run_locked(ck):
    ck.trusted += [
        "C20: translate/gen_routes' reading of main.go and of the functions the router value is passed to (go/ast; package main cannot be linked). "
        "Checked by: every registration call site of a file importing gorilla/mux must be reached (else OUnknown fails assembly_ok), the census of "
        "every http.Serve / ListenAndServe / http.Server / net.Listen / mux.NewRouter / NewServeMux / fasthttp / fiber / grpc site of every non-test "
        "source file (all build tags) must be explained by an interpreted operation (else OUnknown / OServeOther), and "
        "router.Walk of the real router built from the same assembly must list exactly the assembly's routes",
        "C20: the census is syntactic (go/ast without type information): a server started by a dependency (third-party package) or through a value "
        "whose type hides the call (an interface wrapping http.Server) is outside it; http.DefaultServeMux is shown unreachable only with respect "
        "to serving calls in the repository's own sources",
        "C20: 'pass-through' of AcceptEncoding / Cors / Logging = the translator's path analysis of their handler bodies (exactly one next.ServeHTTP on "
        "every path, no answer written before it) + the measured probe of the three wrappers alone; what their ResponseWriter wrappers do to the "
        "answer of BasicAuth is covered by the route-by-route comparison only",
        "C20: gorilla/mux v1.8.1 dispatch as transcribed in model/Router.v (first full match; 405/404 without middleware; middlewares of the "
        "router chain applied at match time) -- measured on every run by the harness's mux probe and the route-by-route comparison; net/http",
        "C20: condition atoms are treated as independent booleans (over-approximation: mode == all and mode == writer may both hold); "
        "the configuration FILE reader is outside the model; portEnv (environment -> Username, Password, Cors, Mode) is model/AuthEnv.v, tied by "
        "running a verbatim copy of boolEnv / portCHEnv / portEnv cut out of main.go (go build -overlay); that main calls portEnv before it "
        "assembles the router is read from the source by the translator only as far as the conditions go",
        "C20: handlers are instrumented by the harness (route.Handler(wrapper)) to observe 'the handler ran'; the real handlers are invoked "
        "only in the five 'exec' controls",
    ]
    rc, out = regen(ck)
    if not ck.obligation("translator gen_routes ran on " + vcheck.REPO, rc == 0 and os.path.exists(GEN_JSON), out[-1500:]):
        return
    asm = json.load(open(GEN_JSON))
    ops = asm["ops"]
    nroutes = sum(1 for o in ops if o["op"] == "route")
    unknown = [o for o in ops if o["op"] in ("unknown", "serveother")]
    kinds = set(a["kind"] for a in asm["atoms"])
    ck.obligation("assembly read from the sources is not empty (a served router, routes, login and password conditions)",
                  any(o["op"] == "serve" for o in ops) and nroutes > 0 and {"login_set", "pass_set"} <= kinds,
                  "routes=%d serve=%d atoms=%s" % (nroutes, sum(1 for o in ops if o["op"] == "serve"), sorted(kinds)))
    ck.obligation("translator followed the router value everywhere (no OUnknown / OServeOther)", not unknown,
                  "; ".join("%s @%s" % (o.get("what"), o["pos"]) for o in unknown[:6]))
    ck.extra["assembly"] = {"ops": len(ops), "routes": nroutes, "atoms": [a["kind"] for a in asm["atoms"]], "notes": asm.get("notes")}
    # census of listeners / servers / handler registrations in EVERY non-test source file (all build tags)
    census = asm.get("census") or []
    flagged = [c for c in census if c.get("flagged")]
    ck.obligation("census: every site that can open a listener or attach a handler outside the tracked router is explained by the assembly "
                  "(%d sites: %s)" % (len(census), ", ".join("%s x%d" % (k, v["sites"]) for k, v in sorted((asm.get("census_counts") or {}).items()))),
                  not flagged and len(census) > 0, "; ".join("%s @%s %s" % (c["kind"], c["pos"], c.get("src", "")) for c in flagged[:6]))
    ck.obligation("census: nothing serves http.DefaultServeMux (a nil handler), so what http.Handle / pprof / expvar register there is unreachable",
                  not asm.get("default_mux_served"), "served at %s; registered patterns %s" % (asm.get("default_mux_served"), asm.get("default_mux_patterns")))
    opaque = {o["mw"]: o["opaque"] for o in ops if o["op"] == "use" and o.get("opaque")}
    ck.obligation("source of the middlewares: BasicAuthMiddleware reads nothing of the request but the Authorization header; the wrappers the model treats as pass-through (AcceptEncoding, Cors, Logging): every path through the handler "
                  "calls next.ServeHTTP exactly once and nothing answers before it", not opaque, json.dumps(opaque))
    ck.extra["routes_accepting_OPTIONS"] = sorted(set(o["tpl"] for o in ops if o["op"] == "route" and (not o.get("methods") or "OPTIONS" in o["methods"])))
    ck.extra["server_census"] = {"counts": asm.get("census_counts"), "sites": census,
                                 "default_mux_patterns": asm.get("default_mux_patterns"), "default_mux_served": asm.get("default_mux_served"),
                                 "pass_through_source": asm.get("pass_through_source"),
                                 "verification_hook_files_skipped (zz_verif_*.go under //go:build verif, not part of the product)": asm.get("hook_files_skipped")}

    props_ok = ck.coq_props()

    if props_ok and not ck.quick():
        ck.coqchk(["Qryn.props.C20"])

    # informational: is BasicAuth literally the first middleware everywhere (it is today)? not required by the property
    if props_ok:
        rc, out = ck.coq_eval("C20_strict", HEAD + "Definition S := Eval vm_compute in all_envs gen_natoms gen_must assembly_strict gen_assembly.\nPrint S.\n")
        ck.extra["basic_auth_strictly_first_in_every_chain"] = "S = true" in " ".join(out.split())

    if not ck.go_build("authroutes"):
        ck.obligation("harness authroutes builds against the repository", False, ck.build_out[-1500:])
        return
    n = ck.n(300, 20000)
    outp = os.path.join(ck.work, "authroutes.jsonl")
    args = ["--assembly", GEN_JSON, "--seed", ck.seed, "--n", n, "--out", outp]
    if not ck.quick():
        args.append("--full")
    rc, out = ck.go_run("authroutes", args)
    if rc != 0:
        ck.obligation("harness authroutes ran", False, out[-1500:])
        return
    lines = [json.loads(l) for l in open(outp)]

    # corpus: witnesses of the fixed defect, re-run against the real code
    corpus = os.path.join(ROOT, "corpus", "C20", "cases.jsonl")
    if os.path.exists(corpus):
        cp = os.path.join(ck.work, "corpus_out.jsonl")
        rc, out = ck.go_run("authroutes", ["--assembly", GEN_JSON, "--replay", corpus, "--out", cp])
        if rc == 0:
            for i, l in enumerate(open(cp)):
                c = json.loads(l)
                if c.get("kind") in ("case", "auth"):
                    c["id"] = 9000000 + i
                    c["class"] = "corpus:" + c.get("class", "")
                    lines.append(c)
        else:
            ck.obligation("corpus replay ran", False, out[-800:])

    if ck.replay:
        rp = json.load(open(ck.replay))
        if isinstance(rp.get("case"), dict):
            tmp = os.path.join(ck.work, "replay_in.jsonl")
            open(tmp, "w").write(json.dumps(rp["case"]) + "\n")
            cp = os.path.join(ck.work, "replay_out.jsonl")
            rc, out = ck.go_run("authroutes", ["--assembly", GEN_JSON, "--replay", tmp, "--out", cp])
            for l in open(cp):
                c = json.loads(l)
                if c.get("kind") not in ("case", "auth"):
                    continue
                c["id"] = 9900000
                c["class"] = "replay:" + c.get("class", "")
                lines.append(c)
                ck.log("replayed:", json.dumps(c["obs"] if "obs" in c else c))

    # -------- gorilla/mux facts
    probe = [l for l in lines if l["kind"] == "muxprobe"]
    bad = {k: probe[0].get(k) for k in MUX_EXPECT if not probe or probe[0].get(k) != MUX_EXPECT[k]}
    ck.obligation("gorilla/mux behaves as model/Router.v assumes (Use covers earlier routes; sub-router inherits; 404/405 skip middlewares; fresh router shares nothing)",
                  not bad, json.dumps(bad))

    # -------- the pass-through wrappers alone; the default mux of a process that links the repository's packages
    mwp = [l for l in lines if l["kind"] == "mwprobe"]
    ck.obligation("AcceptEncoding / Cors / Logging call next exactly once and pass its status on, for every method (incl. OPTIONS) and header set "
                  "(pre-flight, Access-Control-Request-Method alone, websocket upgrade, gzip): %d probes" % (mwp[0]["n"] if mwp else 0),
                  bool(mwp) and mwp[0]["bad"] == 0 and mwp[0]["n"] > 0, json.dumps(mwp[0].get("rows") if mwp else None))
    # -------- the compression wrapper call by call: model/GzipWriter.v on scripted next handlers
    gzp = [l for l in lines if l["kind"] == "gzprobe"]
    gcases = gzp[0]["cases"] if gzp else []
    if ck.obligation("gzip writer probe ran (%d scripted next handlers behind the real AcceptEncodingMiddleware)" % len(gcases),
                     bool(gcases) and not any(c.get("panic") for c in gcases), str([c for c in gcases if c.get("panic")][:1])[:400]):
        def ev(e):
            if e["kind"] == "header":
                return "UHeader %d %s" % (e["code"], coq_bool(e["ce"]))
            if e["kind"] == "raw":
                return "URaw %d%%nat %s" % (e["len"], coq_bool(e["ce"]))
            return "UGzip %s %s" % (coq_bool(e["len"] > 0), coq_bool(e["ce"]))
        rows = ["{| gc_id := %d; gc_gzip := %s; gc_next := [%s]; gc_obs := [%s] |}" % (
            c["id"], coq_bool(c["gzip"]), "; ".join(("AHeader %d" % a["code"]) if a["h"] else ("AWrite %d%%nat" % a["len"]) for a in c["next"]),
            "; ".join(ev(e) for e in c["obs"])) for c in gcases]
        txt = ("From Coq Require Import List ZArith Bool.\nFrom Qryn Require Import model.GzipWriter.\nImport ListNotations.\nOpen Scope Z_scope.\n"
               "Definition cases : list gzcase := [\n  " + ";\n  ".join(rows) + "].\n"
               "Definition GM := Eval vm_compute in gz_mismatches cases.\nPrint GM.\n"
               "Definition GV := Eval vm_compute in gz_violations cases.\nPrint GV.\n")
        rc, out = ck.coq_eval("C20_gzip", txt)
        flat = " ".join(out.split())
        gm = re.search(r"GM = \[(.*?)\]\s*: list Z", flat)
        gv = re.search(r"GV = \[(.*?)\]\s*: list Z", flat)
        if ck.obligation("gzip writer cases evaluated inside Coq", rc == 0 and gm and gv, out[-1200:]):
            gmi = [int(x) for x in re.findall(r"\d+", gm.group(1))]
            gvi = [int(x) for x in re.findall(r"\d+", gv.group(1))]
            byid = {c["id"]: c for c in gcases}
            ck.obligation("correspondence: model GzipWriter.accept_encoding = AcceptEncodingMiddleware + gzipResponseWriter, call by call on the underlying writer (WriteHeader / Write, Content-Encoding at that moment), %d scripted handlers (%d answering like a refusal)"
                          % (len(gcases), sum(1 for c in gcases if c["next"] and c["next"][0]["h"] and c["next"][0]["code"] // 100 != 2)),
                          not gmi, "mismatching: %s" % json.dumps([byid[i] for i in gmi[:2]])[:900])
            ck.obligation("the compression wrapper hands a refusal (non-2xx status first) to the wire unchanged and never changes the first status next chose",
                          not gvi, "violating: %s" % json.dumps([byid[i] for i in gvi[:2]])[:900])
            if gvi:
                w = min((byid[i] for i in gvi), key=lambda c: len(c["next"]))
                ck.violation({"property": "C20", "kind": "the compression wrapper alters an answer of the handler behind it (a refusal does not reach the client as BasicAuth wrote it)",
                              "case": {"kind": "gzprobe", "accept_encoding": w["accept_encoding"], "next_handler_calls": w["next"], "calls_reaching_the_underlying_writer": w["obs"]},
                              "replay": "bin/check C20   (harness probe kind=gzprobe, case %d)" % w["id"]})
            elif gmi:
                w = min((byid[i] for i in gmi), key=lambda c: len(c["next"]))
                ck.violation({"property": "C20", "kind": "model/GzipWriter.v and gzipResponseWriter disagree; the oracle accepts", "case": w}, no_input=True)
            ck.coverage["evaluations"] += len(gcases)
    aup = [l for l in lines if l["kind"] == "authprobe"]
    ck.obligation("BasicAuthMiddleware alone decides on the Authorization header only: across 10 methods x 13 paths (query / userinfo look-alikes) x 7 header "
                  "sets (pre-flight, upgrade, X-Forwarded-For 127.0.0.1, Proxy-Authorization / X-Api-Key, cookies, probe agents) x 3 remote addresses, "
                  "absent / wrong credentials never reach next, the right ones always do: %d probes" % (aup[0]["n"] if aup else 0),
                  bool(aup) and aup[0]["bad"] == 0 and aup[0]["n"] > 1000, json.dumps(aup[0].get("rows") if aup else None)[:1200])
    if aup and aup[0]["bad"]:
        r0 = aup[0]["rows"][0]
        ck.violation({"property": "C20", "kind": "BasicAuthMiddleware lets a request without the credentials through (or refuses the right ones) depending on "
                      "something other than the Authorization header", "case": {"kind": "authprobe", **r0},
                      "configured": {"login": aup[0]["login"], "password": aup[0]["pass"]},
                      "curl": "curl -i -X %s%s http://<qryn>:3100%s   # header set '%s', remote address %s; configured credentials: %s / %s -> observed %d, next called: %s"
                      % (r0["method"], (" -H %s" % json.dumps("Authorization: " + r0["authorization"])) if r0["authorization"] else "", r0["path"], r0["headers"],
                         r0["remote"], aup[0]["login"], aup[0]["pass"], r0["status"], r0["next"]),
                      "replay": "bin/check C20   (harness probe kind=authprobe)"})
    # -------- path cleaning: path_clean (model) = "an empty mux router does not redirect" on generated paths
    pp = [l for l in lines if l["kind"] == "pathprobe"]
    prow = pp[0]["rows"] if pp else []
    if prow:
        txt = HEAD + "Definition P : list (N * string * bool) := [\n  %s].\n" % ";\n  ".join(
            "(%d, %s, %s)" % (i, coq_string(unhex(r["path"])), coq_bool(r["redirect"])) for i, r in enumerate(prow))
        txt += ("Definition PM := Eval vm_compute in flat_map (fun x : N * string * bool => let '(i, p, red) := x in "
                "if Bool.eqb (path_clean p) (negb red) then [] else [i]) P.\nPrint PM.\n")
        rc, out = ck.coq_eval("C20_paths", txt)
        pm = ids_of(out, "PM") if rc == 0 else None
        nred = sum(1 for r in prow if r["redirect"])
        ck.obligation("path_clean (model/Router.v) = gorilla/mux's cleanPath(p) == p on %d generated paths over '/', '.', letters (%d redirected with 301, %d not)"
                      % (len(prow), nred, len(prow) - nred), pm == [] and nred > 100 and len(prow) - nred > 100,
                      "disagreeing paths: %s" % ([unhex(prow[i]["path"]).decode("latin1") for i in (pm or [])[:8]] if pm is not None else out[-600:]))
        if pm:
            ck.violation({"property": "C20", "kind": "model/Router.v path_clean and gorilla/mux path cleaning disagree", "case": {"kind": "pathprobe", **prow[pm[0]]},
                          "path": unhex(prow[pm[0]]["path"]).decode("latin1")}, no_input=True)
        ck.coverage["evaluations"] += len(prow)
    else:
        ck.obligation("path probe ran", False, "no pathprobe line")
    dmp = [l for l in lines if l["kind"] == "defaultmux"]
    dm_status = dmp[0]["status"] if dmp else {}
    ck.extra["default_mux_of_a_process_linking_the_packages"] = dm_status
    if asm.get("default_mux_served"):
        exposed = sorted(p for p, st in dm_status.items() if st != 404)
        if exposed:
            where = asm["default_mux_served"][0]
            ck.violation({"property": "C20", "kind": "http.DefaultServeMux is served and exposes handlers outside the router that carries BasicAuth",
                          "served_at": asm["default_mux_served"],
                          "serving_call": [c.get("src") for c in census if c["pos"] in asm["default_mux_served"]], "exposed_paths": {p: dm_status[p] for p in exposed},
                          "registered_patterns": asm.get("default_mux_patterns"),
                          "case": {"kind": "defaultmux", "path": exposed[0], "observed_status": dm_status[exposed[0]]},
                          "curl": "curl -i http://<qryn>:<port of the listener opened at %s>%s   # no Authorization header; configured credentials: any" % (where, exposed[0]),
                          "replay": "bin/check C20   (harness probe kind=defaultmux: GET %s on http.DefaultServeMux of a process linking the repository's packages -> %d)"
                          % (exposed[0], dm_status[exposed[0]])})

    # -------- Walk = assembly
    walks = {l["cfg"]: l for l in lines if l["kind"] == "walk"}
    agg_bad = []
    for cfgname, w in walks.items():
        tier = w["config"].get("tier") or "rich"
        # per root router, in registration order (sub-routers are walked at their parent's position: compared as a set then)
        e = sorted(((r["router"], i, r["tpl"], sorted(r.get("methods") or [])) for i, r in enumerate(w["expected"])))
        g = sorted(((r["router"], i, r["tpl"], sorted(r.get("methods") or [])) for i, r in enumerate(w["walked"])))
        e = [(a, c, d) for a, _, c, d in e]
        g = [(a, c, d) for a, _, c, d in g]
        if any(o["op"] == "subrouter" for o in ops):
            key = lambda x: (x[1], x[2])
            e, g = sorted(e, key=key), sorted(g, key=key)
            e, g = [x[1:] for x in e], [x[1:] for x in g]
        detail = ""
        if e != g:
            only_e = [x for x in e if x not in g]
            only_g = [x for x in g if x not in e]
            detail = "assembly only: %s; router only: %s; (order differs: %s)" % (only_e[:5], only_g[:5], sorted(e) == sorted(g))
        ok1 = e == g and len(g) > 0
        ok2 = not w.get("problems") and len(w.get("served") or []) >= 1
        if tier == "rich":
            ck.obligation("router.Walk lists exactly the %d routes of the assembly [%s]" % (len(e), cfgname), ok1, detail)
            ck.obligation("assembly interpreted without problems; exactly one served root [%s]" % cfgname, ok2,
                          "problems=%s served=%s" % (w.get("problems"), w.get("served")))
        elif not (ok1 and ok2):
            agg_bad.append("%s: %s problems=%s served=%s" % (cfgname, detail, w.get("problems"), w.get("served")))
        if w.get("unknown_atoms"):
            ck.extra["condition_atoms_outside_the_configuration"] = w["unknown_atoms"]
        if w.get("fallback"):
            ck.extra.setdefault("registration_functions_not_linked_by_the_harness", []).extend(sorted(set(w["fallback"])))
    enum = [c for c, w in walks.items() if (w["config"].get("tier") or "rich") != "rich"]
    ck.obligation("router.Walk lists exactly the assembly's routes, interpreted without problems, in each of the %d enumerated configurations "
                  "(every Mode literal, \"\", an unknown mode x CORS off / on with empty origin / on with origin; ownHttpServer; ':' in the login; "
                  "login or password empty)" % len(enum), not agg_bad and len(enum) >= 10, "; ".join(agg_bad[:4]))
    ck.extra["configurations_enumerated"] = [{"name": c, "tier": walks[c]["config"].get("tier"), "routes": len(walks[c]["walked"]),
                                              "env": "".join("1" if b else "0" for b in walks[c]["env"])} for c in walks]
    # which valuations of the atoms did the harness realise?  Realisable by configuration with login and password set:
    # CORS on/off x (one Mode literal true | none true); ownHttpServer false (main always hands reader.Init the router);
    # HaveStatic as the build has it; atoms outside the configuration as in the extra configuration
    kinds_by_id = {a["id"]: a["kind"] for a in asm["atoms"]}
    mode_ids = [i for i, k in kinds_by_id.items() if k.startswith("mode_eq:")]
    cors_ids = [i for i, k in kinds_by_id.items() if k == "cors_enable"]
    exercised = set(tuple(w["env"]) for w in walks.values())
    base = walks.get("all/B", {}).get("env")
    missing = []
    if base:
        for cors in ([False, True] if cors_ids else [False]):
            for m in mode_ids + [None]:
                env = list(base)
                for i in mode_ids:
                    env[i] = (i == m)
                for i in cors_ids:
                    env[i] = cors
                if tuple(env) not in exercised:
                    missing.append("".join("1" if b else "0" for b in env))
    nreal = (2 if cors_ids else 1) * (len(mode_ids) + 1)
    ck.obligation("every valuation of the condition atoms that a configuration with login and password can realise (%d: CORS x (each Mode literal | none)) "
                  "is built with the real router and exercised" % nreal, bool(base) and not missing, "missing valuations: %s" % missing[:5])
    ck.extra["distinct_valuations_exercised"] = len(exercised)
    ck.extra["valuations_realisable_with_credentials"] = nreal
    ow = walks.get("open/login-without-password")
    ck.obligation("the witness valuation of theorem login_without_password_is_open (gen_open_witness) is the one the harness builds for "
                  "'login set, password empty, Mode all, CORS off'", bool(ow) and asm.get("open_witness") == ow["env"],
                  "gen_open_witness=%s harness=%s" % (asm.get("open_witness"), ow and ow["env"]))

    # -------- route cases
    cases = [l for l in lines if l["kind"] == "case"]
    panics = [c for c in cases if c["obs"].get("panic")]
    for c in panics[:1]:
        ck.violation({"property": "C20", "kind": "panic while serving", "case": c, "replay": curl_of(c)})
    byid = {c["id"]: c for c in cases}
    twice = [c for c in cases if c["obs"]["ran"] > 1]
    ck.obligation("no request ran a route handler more than once", not twice, "ids %s" % [c["id"] for c in twice[:5]])
    mism, viol = [], []
    inexact = []
    shard = 9000
    groups = []   # (walk, root, cases, with_spec)
    for cfgname, w in walks.items():
        with_spec = (w["config"].get("tier") or "rich") != "open"
        for root in sorted(set(c.get("root", 0) for c in cases if c["cfg"] == cfgname)):
            cs = [c for c in cases if c["cfg"] == cfgname and c.get("root", 0) == root and not c["obs"].get("panic")]
            for k in range(0, len(cs), shard):
                groups.append((w, root, cs[k:k + shard], with_spec))
    # pack the groups into files of at most `shard` cases
    files, curf, curn = [], [], 0
    for g in groups:
        if curf and curn + len(g[2]) > shard:
            files.append(curf)
            curf, curn = [], 0
        curf.append(g)
        curn += len(g[2])
    if curf:
        files.append(curf)
    for fi, gs in enumerate(files):
        m, v, inex, out = eval_route_groups(ck, "C20_routes_%d" % fi, gs)
        if m is None or v is None:
            ck.obligation("route cases evaluated inside Coq [%s]" % ", ".join(g[0]["cfg"] for g in gs)[:200], False, out[-1500:])
            return
        inexact += inex
        mism += m
        viol += v
    nspec = sum(len(g[2]) for g in groups if g[3])
    ck.obligation("spec oracle spec_ok accepts every observation of the real router (%d requests in %d configurations with login and password set)"
                  % (nspec, len(set(g[0]["cfg"] for g in groups if g[3]))), not viol and not panics, "violating case ids: %s" % viol[:10])
    if viol:
        worst = min((byid[i] for i in viol), key=lambda c: (len(c["req"]["auth"]), c["req"]["gzip"], c["req"]["origin"], bool(c["req"].get("upgrade")), c["id"]))
        cfg = walks[worst["cfg"]]["config"]
        ck.violation({"property": "C20", "kind": "a request without exactly the configured credentials got past the authentication (or one with them was refused)",
                      "case": worst, "configured": {"login": cfg["login"], "password": cfg["pass"], "cors": cfg.get("cors"), "mode": cfg.get("mode")},
                      "authorization_header": unhex(worst["req"]["auth"]).decode("latin1") if worst["req"]["has_auth"] else None,
                      "observed": worst["obs"], "explanation": "spec_ok (model/Router.v) rejects this observation of the real router: exact_credentials is %s for this header"
                      % ("true" if worst["obs"]["status"] in (400, 401) else "false"),
                      "curl": curl_of(worst, "%s / %s%s" % (cfg["login"], cfg["pass"], ", CORS enabled" if cfg.get("cors") else "")),
                      "replay": "bin/check C20 --replay <this file>   (harness: authroutes --assembly .build/gen/GenRoutes.json --replay <file with the case line>)"})
    strict_cfgs = [c for c in walks if c not in inexact]
    mism_gate = [i for i in mism if byid[i]["cfg"] in strict_cfgs or byid[i]["obs"]["status"] not in (404, 405)]
    ck.obligation("correspondence: model dispatch+chain = real router on %d requests (%d configurations)" % (len(cases), len(walks)), not mism_gate,
                  "mismatching case ids: %s" % mism_gate[:10])
    if mism_gate and not viol:
        worst = byid[mism_gate[0]]
        ck.violation({"property": "C20", "kind": "model and implementation disagree; the property's oracle accepts the observation",
                      "case": worst, "curl": curl_of(worst), "broken": "correspondence Router.dispatch vs mux + middlewares"}, no_input=True)
    if inexact:
        ck.extra["dispatch_not_exact_in"] = sorted(set(inexact))

    # -------- named controls (measured on the real code; each is the replay of a theorem of props/C20.v)
    def pick(cfg, rclass, cls, **kw):
        for c in cases:
            if c["cfg"] == cfg and c["rclass"] == rclass and c["class"] == cls and all(c["req"].get(k) == v for k, v in kw.items()):
                return c
        return None
    controls = {}

    def control(name, c, ok, theorem):
        controls[name] = {"theorem": theorem, "ok": bool(c) and bool(ok(c)), "request": c and curl_of(c, None), "observed": c and c["obs"]}
    control("preflight OPTIONS without credentials on a GET route: router's 405, no middleware, no handler",
            pick("all+cors/A", "preflight-options", "absent", path="/ready"), lambda c: c["obs"]["status"] == 405 and c["obs"]["ran"] == 0, "preflight_cannot_bypass")
    control("pre-flight headers on the route's own method without credentials: 401 from BasicAuth, no handler, no CORS answer",
            pick("all+cors/A", "preflight-header", "absent", path="/ready"),
            lambda c: c["obs"]["status"] == 401 and c["obs"]["ran"] == 0 and c["obs"]["www"] and not c["obs"]["cors"], "preflight_cannot_bypass")
    control("websocket handshake on the tail route without credentials: 401, connection not taken over",
            pick("all+cors/A", "ws-handshake", "absent", gzip=True), lambda c: c["obs"]["status"] == 401 and c["obs"]["ran"] == 0 and not c["obs"].get("hijacked"),
            "no_handler_without_credentials")
    control("websocket handshake on the tail route with the credentials and Accept-Encoding: gzip: handler runs, hijacks through the wrappers, 101",
            pick("all+cors/A", "ws-handshake", "right", gzip=True), lambda c: c["obs"]["status"] == 101 and c["obs"]["ran"] == 1 and c["obs"].get("hijacked"),
            "right_credentials_pass")
    control("login containing ':' -- the header built from the configured credentials is refused (401)",
            pick("colon-login", "route", "right", path="/ready"), lambda c: c["obs"]["status"] == 401 and c["obs"]["ran"] == 0, "colon_login_locks_out")
    control("password containing ':' -- the header built from the configured credentials passes",
            pick("all+cors/A", "route", "right", path="/ready", gzip=False, origin=False), lambda c: c["obs"]["ran"] == 1 and c["obs"]["status"] not in (400, 401),
            "password_may_contain_colon")
    control("login set, password EMPTY: main() installs no BasicAuth -- GET /ready without any header reaches the handler (fail-open; premise of C20 not met)",
            pick("open/login-without-password", "route", "absent", path="/ready"), lambda c: c["obs"]["ran"] == 1 and c["obs"]["status"] not in (400, 401),
            "login_without_password_is_open")
    control("password set, login EMPTY: the same",
            pick("open/password-without-login", "route", "absent", path="/ready"), lambda c: c["obs"]["ran"] == 1 and c["obs"]["status"] not in (400, 401),
            "login_without_password_is_open")
    def pick_auth(login, pw, cls):
        for l in lines:
            if l["kind"] == "auth" and l["login"] == login and l["pass"] == pw and l["class"] == cls:
                return l
        return None

    def control_auth(name, a, ok, theorem):
        controls[name] = {"theorem": theorem, "ok": bool(a) and bool(ok(a)),
                          "request": a and ("BasicAuthMiddleware(%r, %r) <- Authorization: %s" % (a["login"], a["pass"], unhex(a["auth"]).decode("latin1") if a["has_auth"] else "<absent>")),
                          "observed": a and {"status": a["status"], "next_called": a["next"]}}
    control_auth("BasicAuthMiddleware with an EMPTY password accepts 'login:' (Basic dXNlcjo=)", pick_auth("user", "", "right"), lambda a: a["next"],
                 "empty_password_accepts_exactly")
    control_auth("BasicAuthMiddleware with an EMPTY password refuses the login alone (no colon in the payload)", pick_auth("user", "", "user-only"),
                 lambda a: not a["next"] and a["status"] == 401, "empty_password_accepts_exactly")
    control_auth("BasicAuthMiddleware with an EMPTY password challenges a request without header", pick_auth("user", "", "absent"),
                 lambda a: not a["next"] and a["status"] == 401 and a["www"], "empty_password_accepts_exactly")
    control_auth("BasicAuthMiddleware with a login containing ':' refuses the header built from the credentials", pick_auth("us:er", "pass", "right"),
                 lambda a: not a["next"] and a["status"] == 401, "colon_login_locks_out")
    badc = [k for k, v in controls.items() if not v["ok"]]
    ck.obligation("named controls on the real router (%d): pre-flight, websocket handshake, ':' in login / password, empty password" % len(controls),
                  not badc, "; ".join("%s -> %s" % (k, controls[k]["observed"]) for k in badc[:3]))
    ck.extra["controls"] = controls

    # -------- the real handlers (back-end log is live; nothing reaches it without the credentials)
    execs = [l for l in lines if l["kind"] == "exec"]
    leak = [c for c in execs if c["class"] != "right" and (c["obs"]["ran"] or c["obs"]["backend"])]
    live = [c for c in execs if c["class"] == "right" and c["obs"]["backend"] > 0]
    reached = [c for c in execs if c["class"] == "right" and c["obs"]["ran"] == 1]
    ck.obligation("real handlers + fake back-ends: no call without the credentials; with them the handler runs and the back-end log records calls",
                  not leak and len(live) >= 3 and len(reached) == len([c for c in execs if c["class"] == "right"]),
                  "leaks: %s live=%d" % ([(c["class"], c["req"]["path"], c["obs"]) for c in leak[:3]], len(live)))
    if leak:
        cfg = walks[leak[0]["cfg"]]["config"]
        ck.violation({"property": "C20", "kind": "a real handler / back-end ran without exactly the credentials", "case": leak[0],
                      "authorization_header": unhex(leak[0]["req"]["auth"]).decode("latin1") if leak[0]["req"]["has_auth"] else None,
                      "configured": {"login": cfg["login"], "password": cfg["pass"]},
                      "curl": curl_of(leak[0], "%s / %s" % (cfg["login"], cfg["pass"]))})

    # -------- the middleware alone + base64
    auths = [l for l in lines if l["kind"] == "auth"]
    abyid = {c["id"]: c for c in auths}
    am, av = [], []
    creds = sorted(set((c["login"], c["pass"]) for c in auths))
    for k, (lg, pw) in enumerate(creds):
        cs = [c for c in auths if (c["login"], c["pass"]) == (lg, pw)]
        for j in range(0, len(cs), 6000):
            m, v, out = eval_auth_cases(ck, "C20_auth_%d_%d" % (k, j // 6000), lg, pw, cs[j:j + 6000])
            if m is None or v is None:
                ck.obligation("auth cases evaluated inside Coq", False, out[-1500:])
                return
            am += m
            av += v
    ck.obligation("BasicAuthMiddleware meets the oracle on %d header byte strings (accepts exactly the credentials)" % len(auths), not av,
                  "violating ids: %s" % av[:10])
    if av and not viol:
        worst = min((abyid[i] for i in av), key=lambda c: len(c["auth"]))
        ck.violation({"property": "C20", "kind": "BasicAuthMiddleware accepted a header that does not carry exactly the credentials (or refused one that does)",
                      "case": worst, "configured": {"login": worst["login"], "password": worst["pass"]},
                      "authorization_header": unhex(worst["auth"]).decode("latin1"), "observed": {"status": worst["status"], "next_called": worst["next"]},
                      "replay": "bin/check C20 --replay <this file>"})
    ck.obligation("correspondence: model basic_auth + base64 decoder = BasicAuthMiddleware + base64.StdEncoding.DecodeString on %d headers" % len(auths),
                  not am, "mismatching ids: %s" % am[:10])
    if am and not av and not viol and not mism_gate:
        worst = min((abyid[i] for i in am), key=lambda c: len(c["auth"]))
        ck.violation({"property": "C20", "kind": "model/Auth.v and the middleware (or base64) disagree; oracle accepts", "case": worst,
                      "authorization_header": unhex(worst["auth"]).decode("latin1")}, no_input=True)

    # -------- coverage
    hist, rhist = {}, {}
    distinct = set()
    for c in cases:
        hist[c["class"]] = hist.get(c["class"], 0) + 1
        rhist[c["rclass"]] = rhist.get(c["rclass"], 0) + 1
        if c["req"]["has_auth"] and len(c["req"]["auth"]) > 12 and c["rclass"] == "route":
            distinct.add((c["cfg"], c["req"]["method"], c["req"]["path"], c["req"]["auth"], c["req"]["gzip"], c["req"]["origin"],
                          c["req"].get("preflight"), c["req"].get("upgrade"), c["req"].get("auth2")))
    adist = set((c["login"], c["auth"]) for c in auths if len(c["auth"]) > 12)
    ck.coverage["evaluations"] += len(cases) + len(auths) + len(execs)
    ck.coverage["distinct_nontrivial"] += len(distinct) + len(adist)
    ck.coverage["rule"] += ("routes: every walked route x registered method x %d Authorization classes x Accept-Encoding{none,gzip} x Origin{none,set} in the "
                            "main configuration (mode all, CORS on), 6 classes x rotating combinations in 3 further configurations (CORS off, mode writer, "
                            "mode reader), other-method / trailing-slash / unrouted paths, CORS pre-flight (OPTIONS and the route's own method with "
                            "Access-Control-Request-Method/-Headers; no / wrong / right credentials), two Authorization header lines, websocket handshakes on the "
                            "tail route over a real TCP connection, plus random header byte strings; 3 classes + pre-flight on every route in each of the "
                            "enumerated configurations (all realisable valuations); non-trivial = a request that "
                            "matches a route and carries an Authorization value of more than 6 bytes; distinct by (configuration, method, path, header, flags). "
                            "auth: BasicAuthMiddleware alone on the classes and random mutations for 7 credential pairs (one with ':' in the login, one with an empty "
                            "password, one with an empty login, one with both empty). " % len(set(c["class"] for c in cases if not c["class"].startswith(("random", "right-", "near", "corpus")))))
    ck.extra["input_distribution"] = {"authorization_classes": hist, "request_classes": rhist,
                                      "configurations": {k: {"routes": len(w["walked"]), "env": w["env"]} for k, w in walks.items()}}
    samp = [c for c in cases if c["class"] in ("trailing-garbage", "right", "wrong-pass") and c["rclass"] == "route"][:3]
    ck.add_samples([{"cfg": c["cfg"], "request": c["req"], "authorization": unhex(c["req"]["auth"]).decode("latin1"), "observed": c["obs"]} for c in samp])
    ck.add_samples([{"exec": c["req"]["path"], "class": c["class"], "observed": c["obs"]} for c in execs if c["class"] == "right"][:2])
    run_env(ck)
