"""C09 — a LogQL result does not depend on which engine ran each pipeline stage.

model/InternalEngine.v transcribes every stage of reader/logql/logql_transpiler_v2/internal_planner
(the WrapProcess channel pipeline, filters, parsers, label/line format, drop, unwrap, the bucket-array
aggregators, by/without + hash.go, comparison, limit, response optimizer); props/C09.v proves, for every
batching of the upstream entries, batching invariance and agreement with a reference LogQL semantics
written in the same file.  Correspondence: harness/cmd/inteng plans generated query strings with the
production planner, swaps the ClickHouse getter for a scripted upstream, runs the real chain (in a child
process: a stage panic kills the process) and prints the chain as read off the planned structs, the
input batches, the output and the oracle tables; the model (mismatches) and the specification oracle
(spec_violations) are evaluated inside Coq over the implementation's observations.  Round 8: the aggregators of the query
are read off a second parse of the query text; the planned aggregator stages and their order must be model/InternalEnginePlan.v
plan_aggs of them, and the specification oracle runs over the chain the parsed query prescribes (ref_chain), not over the
order the planner chose.
"""
import binascii
import json
import os
import re

import vcheck
from vcheck import coq_list, coq_string

PID = "C09"
ROOT = os.path.dirname(os.path.dirname(os.path.abspath(__file__)))


# ------------------------------------------------------------------------------------------ printers
def unhex(s):
    return binascii.unhexlify(s) if s else b""


def cs(b):
    """Coq string literal in string scope from bytes/str"""
    s = coq_string(b)
    if s.startswith("("):
        return s
    return s + "%string"


def cf(h):
    """Go %x float -> Coq float literal"""
    if h in ("", None):
        return "0%float"
    if h == "+Inf":
        return "infinity"
    if h == "-Inf":
        return "neg_infinity"
    if h == "NaN":
        return "nan"
    neg = h.startswith("-")
    body = h.lstrip("+-")
    m = re.match(r"^0x([0-9a-fA-F]+)(?:\.([0-9a-fA-F]*))?p([+-]\d+)$", body)
    if not m:
        raise ValueError("float " + h)
    lit = "0x%s%sp%s%d" % (m.group(1), ("." + m.group(2)) if m.group(2) else "", "-" if m.group(3)[0] == "-" else "+", abs(int(m.group(3))))
    return ("(-%s)%%float" % lit) if neg else "%s%%float" % lit


class Pool:
    """file-level pools: Coq elaborates literals slowly (about 70 us per string byte, 1 ms per 20-digit number), so every
    distinct string / label set / big number is defined once and referenced by name"""

    def __init__(self):
        self.strs, self.lbls, self.nums, self.flts = {}, {}, {}, {}
        self.defs = []

    def s(self, b):
        if isinstance(b, str):
            b = b.encode("utf8", "surrogateescape")
        if b not in self.strs:
            name = "s%d" % len(self.strs)
            self.strs[b] = name
            self.defs.append("Definition %s : string := %s." % (name, cs(b)))
        return self.strs[b]

    def l(self, m):
        items = tuple(sorted(((k.encode("utf8", "surrogateescape"), v.encode("utf8", "surrogateescape")) for k, v in m.items()), key=lambda kv: kv[0]))
        if items not in self.lbls:
            body = coq_list(["(%s, %s)" % (self.s(k), self.s(v)) for k, v in items])
            name = "l%d" % len(self.lbls)
            self.lbls[items] = name
            self.defs.append("Definition %s : lbls := %s." % (name, body))
        return self.lbls[items]

    def ol(self, m):
        return "None" if m is None else "(Some %s)" % self.l(m)

    def n(self, x):
        if x < 1000000:
            return "%d%%N" % x
        if x not in self.nums:
            name = "n%d" % len(self.nums)
            self.nums[x] = name
            self.defs.append("Definition %s : N := %d%%N." % (name, x))
        return self.nums[x]

    def z(self, x):
        if -1000000 < x < 1000000:
            return "%d" % x if x >= 0 else "(%d)" % x
        return "(Z.of_N %s)" % self.n(x) if x >= 0 else "(- Z.of_N %s)" % self.n(-x)

    def f(self, h):
        if h not in self.flts:
            name = "f%d" % len(self.flts)
            self.flts[h] = name
            self.defs.append("Definition %s : float := %s." % (name, cf(h)))
        return self.flts[h]


ERRK = {"": "ENone", "eof": "EEof", "err": "EErr", "panic": "EPanic"}
KILLS = [True]


def centry(P, base, e):
    if e["err"] == "eof" and e["ts"] == 0 and e["fp"] == 0 and e.get("labels") is None and not e["msg"]:
        return "eofE"
    ts = e["ts"]
    off = ts - base
    if 0 <= off < 10 ** 13:
        return "(mkE %s %d %s %s %s %s %s)" % (P.z(base), off, P.n(e["fp"]), P.ol(e.get("labels")), P.s(unhex(e["msg"])), P.f(e["val"]), ERRK[e["err"]])
    return "(mkE 0 %s %s %s %s %s %s)" % (P.z(ts), P.n(e["fp"]), P.ol(e.get("labels")), P.s(unhex(e["msg"])), P.f(e["val"]), ERRK[e["err"]])


CMP = {">": "CGt", ">=": "CGe", "<": "CLt", "<=": "CLe", "==": "CEq", "!=": "CNe"}
LRA = {"rate": "LRate", "count_over_time": "LCount", "bytes_rate": "LBytesRate", "bytes_over_time": "LBytesOver", "absent_over_time": "LAbsent"}
UAGG = {"rate": "URate", "sum_over_time": "USum", "avg_over_time": "UAvg", "max_over_time": "UMax", "min_over_time": "UMin",
        "first_over_time": "UFirst", "last_over_time": "ULast"}
AGGOP = {"sum": "ASum", "min": "AMin", "max": "AMax", "avg": "AAvg", "count": "ACount", "stddev": "AUnsupported", "stdvar": "AUnsupported"}


def cfilter(P, f):
    if f.get("simple"):
        s = f["simple"]
        if s.get("ill"):
            head = "(HSimple float (SfIll float))"
        elif s["is_str"]:
            op = {"=": "SoEq", "!=": "SoNe", "=~": "SoRe", "!~": "SoNre"}[s["fn"]]
            head = "(HSimple float (SfStr float %s %s %s))" % (op, P.s(s["label"]), P.s(unhex(s["str"])))
        else:
            head = "(HSimple float (SfNum float %s %s %s))" % (CMP[s["fn"]], P.s(s["label"]), P.f(s["num"]))
    else:
        head = "(HComplex float %s)" % cfilter(P, f["complex"])
    tail = "None"
    if f.get("tail"):
        if f.get("op") == "and":
            tail = "(Some (true, %s))" % cfilter(P, f["tail"])
        elif f.get("op") == "or":
            tail = "(Some (false, %s))" % cfilter(P, f["tail"])
    return "(LF float %s %s)" % (head, tail)


def cstage(P, i, st):
    k = st["k"]
    if k == "line_filter":
        op = {"|=": "LfContains", "!=": "LfNotContains", "|~": "LfRe", "!~": "LfNotRe"}[st["op"]]
        return "SLineFilter float %s %s" % (op, P.s(unhex(st.get("val", ""))))
    if k == "label_filter":
        return "SLabelFilter float %s" % cfilter(P, st["filter"])
    if k == "parser":
        return "SParser float %d%%N" % i
    if k == "label_format":
        ops = []
        for o in st.get("fmt") or []:
            if o["const"]:
                ops.append("LFConst %s %s" % (P.s(o["label"]), P.s(unhex(o["val"]))))
            else:
                ops.append("LFCopy %s %s" % (P.s(o["label"]), P.s(o["val"])))
        return "SLabelFormat float %s" % coq_list(ops)
    if k == "line_format":
        return "SLineFormat float %d%%N" % i
    if k == "unwrap":
        return "SUnwrap float %s" % P.s(st.get("label", ""))
    if k == "drop":
        return "SDrop float %s %s" % (coq_list([P.s(x) for x in st.get("names") or []]), coq_list([P.s(x) for x in st.get("vals") or []]))
    if k == "by_without":
        return "SByWithout float %s %s" % ("true" if st.get("by") else "false", coq_list([P.s(x) for x in st.get("names") or []]))
    if k == "lra":
        return "SAgg float (KLra %s) %s" % (LRA.get(st["fn"], "LOther"), P.z(st.get("dur", 0)))
    if k == "unwrap_agg":
        return "SAgg float (KUnwrap %s) %s" % (UAGG.get(st["fn"], "UOther"), P.z(st.get("dur", 0)))
    if k == "agg_op":
        return "SAgg float (KAggOp %s) %s" % (AGGOP.get(st["fn"], "AOther"), P.z(st.get("dur", 0)))
    if k == "comparison":
        return "SComparison float %s %s" % (CMP[st["op"]], P.f(st["val"]))
    if k == "limit":
        return "SLimit float"
    if k == "optimizer":
        return "SOptimizer float"
    raise ValueError(k)


def cobs(P, base, out):
    if out["err"] == "crash":
        return "(ObsErr float ECrash)"
    if out["err"] == "panic":
        return "(ObsErr float EPanic)"
    if out["err"] == "err":
        return "(ObsErr float EErr)"
    if out["err"] == "plan":
        return "(ObsErr float ENone)"
    return "(ObsOk float %s)" % coq_list([centry(P, base, e) for e in out["entries"]])


def ctables(P, t):
    fp = coq_list(["(%s, %s)" % (P.l(r["labels"] or {}), P.n(r["fp"])) for r in t.get("fp") or []])
    rex = coq_list(["((%s, %s), %s)" % (P.s(unhex(r["pat"])), P.s(unhex(r["subj"])), "true" if r["m"] else "false") for r in t.get("re") or []])
    pf = coq_list(["(%s, %s)" % (P.s(unhex(r["s"])), P.f(r["v"])) for r in (t.get("pf") or []) if r["ok"]])
    pa = coq_list(["((%d%%N, %s), %s)" % (r["id"], P.s(unhex(r["msg"])), ("(Some %s)" % P.l(r["kv"] or {})) if r["ok"] else "None") for r in t.get("parse") or []])
    tm = coq_list(["((%d%%N, %s), %s)" % (r["id"], P.l(r["labels"] or {}), ("(Some %s)" % P.s(unhex(r["s"]))) if r["ok"] else "None") for r in t.get("tmpl") or []])
    return "(Build_tables %s %s %s %s %s)" % (fp, rex, pf, pa, tm)


def case_to_coq(P, c):
    base = c["from"]
    return ("(Build_fcase %d %s (Build_ctx %s %s %s)\n     %s\n     %s %s\n     %s)" % (
        c["id"], ctables(P, c["tab"]), P.z(c["from"]), P.z(c["to"]), P.z(c["limit"]),
        coq_list([cstage(P, i, s) for i, s in enumerate(c["chain"])]),
        coq_list([coq_list([centry(P, base, e) for e in b]) for b in c["in"]]), "true" if KILLS[0] else "false",
        cobs(P, base, c["out"]) + (" true" if c["out"].get("cancel") else " false")))


PRELUDE = ("From Coq Require Import List ZArith NArith Bool String Ascii Floats.\nFrom Qryn Require Import model.InternalEngine.\n"
           "Import ListNotations.\nOpen Scope Z_scope.\n"
           "Definition mkE (base off : Z) (fp : N) (l : option lbls) (m : string) (v : float) (k : errk) : fentry :=\n"
           "  {| e_ts := base + off; e_fp := fp; e_lbl := l; e_msg := m; e_val := v; e_err := k |}.\n"
           "Definition eofE : fentry := mkE 0 0 0%N None EmptyString 0%float EEof.\n")


def ids_of(s):
    return [int(x) for x in re.findall(r"-?\d+", s)]


PRELUDE_PLAN = PRELUDE.replace("model.InternalEngine.", "model.InternalEngine model.InternalEnginePlan.")


def cbw(P, b):
    if b is None:
        return "None"
    return "(Some (%s, %s))" % ("true" if b.get("by") else "false", coq_list([P.s(x) for x in b.get("names") or []]))


def ccmpq(P, q):
    if q is None:
        return "None"
    return "(Some (%s, %s))" % (CMP[q["op"]], P.f(q["val"]))


def crangeq(P, r):
    return "(Build_rangeq float %s %s %s %s %s %s %s)" % (
        "true" if r.get("unwrap") else "false", LRA.get(r["fn"], "LOther"), UAGG.get(r["fn"], "UOther"), P.z(r.get("dur", 0)),
        cbw(P, r.get("pre")), cbw(P, r.get("suf")), ccmpq(P, r.get("cmp")))


def ctopq(P, c):
    """the aggregators of the case's query as the harness PARSED them (a second parse of the query text): model
    InternalEnginePlan.plan_aggs turns them into the aggregator stages the specification oracle judges the output by"""
    a = c.get("aggs")
    if a is None:
        raise ValueError("case %s (%s) carries no parsed aggregators" % (c.get("id"), c.get("query")))
    if a["kind"] == "log":
        return "(QLog float)"
    if a["kind"] == "range":
        return "(QRange float %s)" % crangeq(P, a["range"])
    return "(QAgg float (Build_aggq float %s %s %s %s %s))" % (
        AGGOP.get(a["fn"], "AOther"), cbw(P, a.get("pre")), cbw(P, a.get("suf")), ccmpq(P, a.get("cmp")), crangeq(P, a["range"]))


# one vm_compute for the three results: every Eval compiles the case list anew (2-3 s on the 2001-series case)
EVAL3 = ("Definition R := Eval vm_compute in (mismatches cases, agg_plan_mismatches qs cases, ref_spec_violations qs cases).\n"
         "Definition M := Eval vm_compute in fst (fst R).\nPrint M.\n"
         "Definition A := Eval vm_compute in snd (fst R).\nPrint A.\n"
         "Definition V := Eval vm_compute in snd R.\nPrint V.\n")


def eval_chain_cases(ck, name, cases):
    P = Pool()
    body = ";\n  ".join(case_to_coq(P, c) for c in cases)
    qs = ";\n  ".join(ctopq(P, c) for c in cases)
    # M: the model run_chain over the chain the planner BUILT (read off the planned structs) = the observation;
    # A: the aggregator stages of that chain = plan_aggs of the query as parsed (model of planAggregators);
    # V: the specification oracle over the chain the PARSED query prescribes (ref_chain), not over the planner's choice
    txt = (PRELUDE_PLAN + "\n".join(P.defs) + "\nDefinition cases : list fcase := [\n  " + body + "].\n"
           "Definition qs : list ftopq := [\n  " + qs + "].\n"
           + EVAL3)
    rc, out = ck.coq_eval(name, txt)
    if rc != 0:
        return None, None, None, out
    flat = " ".join(out.split())
    m = re.search(r"M = \[(.*?)\]\s*: list Z", flat)
    a = re.search(r"A = \[(.*?)\]\s*: list Z", flat)
    v = re.search(r"V = \[(.*?)\]\s*: list \(Z \* Z\)", flat)
    if not m or not v or not a:
        return None, None, None, out
    vv = ids_of(v.group(1))
    return ids_of(m.group(1)), list(zip(vv[0::2], vv[1::2])), ids_of(a.group(1)), out


def fhex_of(tok):
    """a float as Coq prints it (decimal, 17 significant digits: read back exactly) -> Go's %x form / +Inf / -Inf / NaN"""
    if tok == "infinity":
        return "+Inf"
    if tok == "neg_infinity":
        return "-Inf"
    if tok == "nan":
        return "NaN"
    return float(tok).hex()


def expected_of(ck, name, c):
    """what the reference semantics (sem_chain over the case's oracle tables, the list spec_code compares with) prescribes for the
    case: evaluated inside Coq, handed back as rows over the pools of the generated file.  None when the evaluation fails."""
    P = Pool()
    body = case_to_coq(P, c)
    topq = ctopq(P, c)
    # label sets the reference may prescribe although the real chain never showed them: every pooled label set minus the labels a
    # drop stage of the chain names (a drop that misses a parameter leaves the right label set nowhere in the observation); names only
    # the printed `expected`, never a verdict
    dnames = sorted({n for st in c.get("chain") or [] if st.get("k") == "drop" for n in st.get("names") or []})[:5]
    for items in list(P.lbls):
        d = {k.decode("utf8", "surrogateescape"): v.decode("utf8", "surrogateescape") for k, v in items}
        hit = [n for n in dnames if n in d]
        for mask in range(1, 1 << len(hit)):
            P.l({k: v for k, v in d.items() if not any(k == n and mask >> i & 1 for i, n in enumerate(hit))})
    lnames = sorted(P.lbls.items(), key=lambda kv: int(kv[1][1:]))
    snames = sorted(P.strs.items(), key=lambda kv: int(kv[1][1:]))
    txt = (PRELUDE_PLAN + "\n".join(P.defs) + "\nDefinition E := Eval vm_compute in expected_rows %s %s\n  (ref_case %s %s).\nPrint E.\n" % (
        coq_list([n for _, n in lnames]), coq_list([n for _, n in snames]), topq, body))
    rc, out = ck.coq_eval(name, txt)
    if rc != 0:
        return None
    flat = " ".join(out.split())
    m = re.search(r"E = \[(.*?)\]\s*: list", flat)
    if not m:
        return None
    rows = []
    for row in [x for x in m.group(1).split(";") if x.strip()]:
        tok = re.findall(r"neg_infinity|infinity|nan|-?\d+(?:\.\d*)?(?:e[+-]?\d+)?", row.replace("%Z", "").replace("%float", ""))
        if len(tok) != 4:
            return None
        li, si = int(tok[1]), int(tok[2])
        rows.append({"ts": c["from"] + int(tok[0]),
                     "labels": ({k.decode("utf8", "replace"): v.decode("utf8", "replace") for k, v in lnames[li][0]} if li >= 0 else "(a label set that occurs nowhere in the case)"),
                     "msg": (snames[si][0].decode("utf8", "replace") if si >= 0 else "(a line that occurs nowhere in the case)"),
                     "val": fhex_of(tok[3]), "val_decimal": tok[3]})
    return rows


def got_rows(c):
    return [{"ts": e["ts"], "labels": e.get("labels"), "msg": unhex(e["msg"]).decode("utf8", "replace"), "val": e["val"],
             "val_decimal": ("%r" % float.fromhex(e["val"])) if e["val"].startswith(("0x", "-0x")) else e["val"]}
            for e in c["out"]["entries"] if e["err"] == ""]


def eval_fp_cases(ck, name, cases):
    rows = []
    P = Pool()
    for c in cases:
        tab = [(unhex(p["s"]), p["h"]) for p in c.get("fp_pairs") or []] + [(unhex(c["fp_descr"]), c["fp_descr_h"])]
        rows.append("{| p_id := %d; p_labels := %s; p_ch := %s; p_out := %s |}" % (
            c["id"], P.l(c.get("fp_labels") or {}), coq_list(["(%s, %s)" % (P.s(s), P.n(h)) for s, h in tab]), P.n(c["fp_out"])))
    txt = (PRELUDE + "\n".join(P.defs) + "\nDefinition cases : list fpcase := [\n  " + ";\n  ".join(rows) + "].\n"
           "Definition M := Eval vm_compute in fp_mismatches cases.\nPrint M.\n")
    rc, out = ck.coq_eval(name, txt)
    if rc != 0:
        return None, out
    flat = " ".join(out.split())
    m = re.search(r"M = \[(.*?)\]\s*: list Z", flat)
    if not m:
        return None, out
    return ids_of(m.group(1)), out


def cjv(P, n):
    t = n["t"]
    if t == "s":
        return "(JStr %s)" % P.s(unhex(n.get("s", "")))
    if t == "r":
        return "(JRaw %s)" % P.s(unhex(n.get("s", "")))
    if t == "o":
        return "(JObj %s)" % coq_list(["(%s, %s)" % (P.s(unhex(kv["k"])), cjv(P, kv["v"])) for kv in n.get("kv") or []])
    return "(JArr %s)" % coq_list([cjv(P, x) for x in n.get("l") or []])


def cjspec(P, params):
    if not params:
        return "JsonAll"
    return "(JsonParams %s)" % coq_list(["(%s, %s)" % (P.s(p["label"]), coq_list(
        [("PKey %s" % P.s(unhex(x.get("key", "")))) if x["str"] else ("PIdx %s" % P.z(x["idx"])) for x in p["path"]])) for p in params])


def eval_json_cases(ck, name, rows):
    P = Pool()
    body = ";\n  ".join("{| j_id := %d; j_spec := %s; j_tree := %s; j_obs := %s |}" % (
        i, cjspec(P, r.get("params")), ("(Some %s)" % cjv(P, r["tree"])) if r.get("tree") else "None", P.l(r.get("kv") or {}))
        for i, r in rows)
    txt = (PRELUDE.replace("model.InternalEngine.", "model.InternalEngine model.InternalJson.") + "\n".join(P.defs) +
           "\nDefinition cases : list jcase := [\n  " + body + "].\n"
           "Definition M := Eval vm_compute in json_mismatches cases.\nPrint M.\n"
           "Definition V := Eval vm_compute in json_spec_violations cases.\nPrint V.\n")
    rc, out = ck.coq_eval(name, txt)
    if rc != 0:
        return None, None, out
    flat = " ".join(out.split())
    m = re.search(r"M = \[(.*?)\]\s*: list Z", flat)
    v = re.search(r"V = \[(.*?)\]\s*: list Z", flat)
    if not m or not v:
        return None, None, out
    return ids_of(m.group(1)), ids_of(v.group(1)), out


def cparams(P, params):
    return coq_list(["(%s, %s)" % (P.s(p["label"]), coq_list(
        [("PKey %s" % P.s(unhex(x.get("key", "")))) if x["str"] else ("PIdx %s" % P.z(x["idx"])) for x in p["path"]])) for p in params or []])


def eval_logfmt_cases(ck, name, rows):
    P = Pool()
    body = ";\n  ".join("{| l_id := %d; l_params := %s; l_pairs := %s; l_obs := %s |}" % (
        i, cparams(P, r.get("params")),
        ("(Some %s)" % coq_list(["(%s, %s)" % (P.s(unhex(k)), P.s(unhex(v))) for k, v in r.get("pairs") or []])) if r.get("pairs_ok") else "None",
        P.l(r.get("kv") or {})) for i, r in rows)
    txt = (PRELUDE.replace("model.InternalEngine.", "model.InternalEngine model.InternalJson.") + "\n".join(P.defs) +
           "\nDefinition cases : list lcase := [\n  " + body + "].\n"
           "Definition M := Eval vm_compute in logfmt_mismatches cases.\nPrint M.\n"
           "Definition V := Eval vm_compute in logfmt_spec_violations cases.\nPrint V.\n")
    rc, out = ck.coq_eval(name, txt)
    if rc != 0:
        return None, None, out
    flat = " ".join(out.split())
    m = re.search(r"M = \[(.*?)\]\s*: list Z", flat)
    v = re.search(r"V = \[(.*?)\]\s*: list Z", flat)
    if not m or not v:
        return None, None, out
    return ids_of(m.group(1)), ids_of(v.group(1)), out


NONASCII = re.compile(rb"[\x80-\xff]")


def multibyte_keys(r):
    """does a key of the row (json tree keys at any depth / logfmt pair keys) hold a byte >= 0x80; written with escapes only?"""
    def keys(n):
        if not n:
            return
        for kv in n.get("kv") or []:
            yield unhex(kv["k"])
            yield from keys(kv["v"])
        for x in n.get("l") or []:
            yield from keys(x)
    ks = list(keys(r.get("tree"))) + [unhex(k) for k, _ in r.get("pairs") or []]
    mb = any(NONASCII.search(k) for k in ks)
    return mb, mb and not NONASCII.search(unhex(r["msg"]))


def wellformed(b):
    try:
        b.decode("utf8")
        return True
    except UnicodeDecodeError:
        return False


def run_logfmt_rows(ck, cases, label):
    """the logfmt stage's own code (HandleLogfmt: sanitizeLabel on every key, the field table of `| logfmt l="key"`) =
    model/InternalJson.v over the pairs of the decoder kr/logfmt"""
    seen, rows = set(), []
    for c in cases:
        for r in (c.get("tab") or {}).get("parse") or []:
            if not r.get("logfmt"):
                continue
            key = json.dumps([r.get("params"), r["msg"]], sort_keys=True)
            if key in seen:
                continue
            seen.add(key)
            rows.append(r)
    if not rows:
        return
    rows = list(enumerate(rows))
    m, v, out = eval_logfmt_cases(ck, "C09_%s_logfmt" % label, rows)
    if m is None:
        ck.obligation("%s: logfmt rows evaluated inside Coq" % label, False, out[-2500:])
        return
    ck.obligation("%s: logfmt stage (sanitizeLabel on every key, later pair wins, field table of `| logfmt l=\"key\"`) = model InternalJson.logfmt_decode over the pairs of kr/logfmt on %d distinct (parameters, line) rows" % (label, len(rows)),
                  not m, "rows %s" % m[:10])
    ck.obligation("%s: the labels `| logfmt` assigns are the pairs of the line under the names the definition by value gives them (one _ per character outside [a-zA-Z0-9_]); a field label holds the last value of its key; on the observed labels" % label, not v, "rows %s" % v[:10])
    byi = dict(rows)
    bad = v or m
    if bad:
        r = min((byi[i] for i in bad), key=lambda r: len(r["msg"]))
        ck.violation({"property": PID, "kind": ("the logfmt stage names / assigns a label differently from the LogQL definition" if v else "model/implementation disagree on the logfmt stage"),
                      "line": unhex(r["msg"]).decode("utf8", "replace"), "line_hex": r["msg"], "query": '{app="x"} | logfmt' + (" " + ", ".join('%s=<path>' % p["label"] for p in r.get("params") or []) if r.get("params") else ""),
                      "params": r.get("params"), "observed_labels": r.get("kv"), "pairs_of_the_decoder": [[unhex(k).decode("utf8", "replace"), unhex(x).decode("utf8", "replace")] for k, x in r.get("pairs") or []],
                      "replay": "ParserPlanner{Op: logfmt, ParameterNames/Values from params} on the single line: harness inteng --cases with {\"query\": ..., \"in\": [[{\"msg\": line_hex, \"labels\": {}}]]}"}, no_input=not v)
    h = ck.extra.setdefault("logfmt_rows", {"rows": 0, "with_params": 0, "refused_by_decoder": 0, "multibyte_key": 0, "needs_sanitising": 0, "illformed_utf8_key": 0})
    h["rows"] += len(rows)
    for _, r in rows:
        h["with_params"] += bool(r.get("params"))
        h["refused_by_decoder"] += not r.get("pairs_ok")
        h["multibyte_key"] += multibyte_keys(r)[0]
        h["needs_sanitising"] += any(re.search(rb"[^a-zA-Z0-9_]", unhex(k)) for k, _ in r.get("pairs") or [])
        h["illformed_utf8_key"] += any(not wellformed(unhex(k)) for k, _ in r.get("pairs") or [])


def jdepth(n):
    if not n:
        return 0
    return 1 + max([jdepth(kv["v"]) for kv in n.get("kv") or []] + [jdepth(x) for x in n.get("l") or []] + [0])


def run_json_rows(ck, cases, label):
    """the json stage's own code (flattening, sanitizeLabel, path walker) = model/InternalJson.v over the jx value tree"""
    seen, rows, odd = set(), [], 0
    for c in cases:
        for r in (c.get("tab") or {}).get("parse") or []:
            if not r.get("json"):
                continue
            key = json.dumps([r.get("params"), r["msg"]], sort_keys=True)
            if key in seen:
                continue
            seen.add(key)
            if not r.get("plain"):
                odd += 1          # jx.Skip and the full walk disagree on the line: reported, not compared
                continue
            rows.append(r)
    if not rows:
        return
    rows = list(enumerate(rows))
    m, v, out = eval_json_cases(ck, "C09_%s_json" % label, rows)
    if m is None:
        ck.obligation("%s: json rows evaluated inside Coq" % label, False, out[-2500:])
        return
    ck.obligation("%s: json stage (nested-key flattening, sanitizeLabel, path walker with array indexes) = model InternalJson.json_decode over the jx value tree on %d distinct (parameters, line) rows" % (label, len(rows)),
                  not m, "rows %s" % m[:10])
    ck.obligation("%s: every json parameter label holds what the path finds in the document and nothing else is assigned (jlookup, distinct names); the labels `| json` assigns are the scalar leaves of the document under the names the definition by value gives them (members joined with _, one _ per CHARACTER outside [a-zA-Z0-9_]: json_all_ref), on the observed labels" % label, not v, "rows %s" % v[:10])
    byi = dict(rows)
    bad = v or m
    if bad:
        r = min((byi[i] for i in bad), key=lambda r: len(r["msg"]))
        ck.violation({"property": PID, "kind": ("a json stage assigns a label that is not what its path finds in the line / names a label differently from the LogQL definition (one _ per character)" if v else "model/implementation disagree on the json stage"),
                      "line": unhex(r["msg"]).decode("utf8", "replace"), "line_hex": r["msg"], "query": '{app="x"} | json' + (" " + ", ".join('%s=<path>' % p["label"] for p in r.get("params") or []) if r.get("params") else ""),
                      "params": r.get("params"), "observed_labels": r.get("kv"), "tree": r.get("tree"),
                      "replay": "ParserPlanner{Op: json, ParameterNames/Values from params} on the single line (harness inteng Mode json)"}, no_input=not v)
    h = ck.extra.setdefault("json_rows", {"rows": 0, "with_params": 0, "refused_by_jx": 0, "depth>=3": 0, "skip_walk_disagree": 0, "needs_sanitising": 0, "index_paths": 0,
                                          "multibyte_key": 0, "multibyte_key_written_as_escapes": 0})
    h["rows"] += len(rows)
    h["skip_walk_disagree"] += odd
    for _, r in rows:
        h["with_params"] += bool(r.get("params"))
        h["refused_by_jx"] += not r.get("tree")
        h["depth>=3"] += jdepth(r.get("tree")) >= 3
        h["needs_sanitising"] += any(re.search(rb"[^a-zA-Z0-9_]", k.encode()) for k in (r.get("kv") or {})) or (not r.get("params") and bool(re.search(rb'"[^"]*[^a-zA-Z0-9_"][^"]*"\s*:', unhex(r["msg"]))))
        h["index_paths"] += any(not x["str"] for p in r.get("params") or [] for x in p["path"])
        mb, esc = multibyte_keys(r)
        h["multibyte_key"] += mb
        h["multibyte_key_written_as_escapes"] += esc


ANCHORED = re.compile(rb"^(?:\^|\\A)([A-Za-z0-9_ ]+)(?:\$|\\z)$")


def fp_table_rows(ck, cases, label):
    """the fingerprint oracle table of the chain cases is filled by the real `fingerprint` (hash.go, code under test): a sample of
    its rows (label sets that actually passed a tap: extracted, renamed, dropped ...) is put through the structure check too --
    CityHash64 of every key / value / descriptor from the library, the (sum, xor, product) structure from the model"""
    import hashlib
    rows = {}
    for c in cases:
        for r in (c.get("tab") or {}).get("fp") or []:
            rows.setdefault(json.dumps(r["labels"] or {}, sort_keys=True), r)
    cap = ck.n(250, 3000)
    keys = sorted(rows, key=lambda k: hashlib.sha1(k.encode()).hexdigest())[:cap]
    if not keys:
        return []
    src = os.path.join(ck.work, "fp_rows_%s_in.jsonl" % label)
    dst = os.path.join(ck.work, "fp_rows_%s.jsonl" % label)
    with open(src, "w") as f:
        for i, k in enumerate(keys):
            f.write(json.dumps({"id": 3000000 + i, "mode": "fp", "class": "fp+table-row", "fp_labels": rows[k]["labels"] or {}, "out": {"err": "", "entries": []}}) + "\n")
    rc, out = ck.go_run("inteng", ["--cases", src, "--out", dst])
    if rc != 0:
        ck.obligation("%s: harness inteng ran the fingerprint-table rows" % label, False, out[-1500:])
        return []
    res = load(dst)
    bad = [c for c, k in zip(res, keys) if c["fp_out"] != rows[k]["fp"]]
    ck.obligation("%s: the fingerprint oracle table holds what `fingerprint` returns (%d sampled of %d distinct label sets that passed a tap; the sample also goes through the hash.go structure check)" % (label, len(keys), len(rows)),
                  not bad, "label sets: %s" % [c["fp_labels"] for c in bad[:3]])
    h = ck.extra.setdefault("oracle_audit_fp", {"distinct_label_sets_in_tables": 0, "structure_checked": 0})
    h["distinct_label_sets_in_tables"] += len(rows)
    h["structure_checked"] += len(res)
    return res


def run_oracle_audit(ck, cases, label):
    """where the oracle tables of the chain cases come from.  regexp / ParseFloat rows: the library called by the harness.  json /
    logfmt rows: the stage under test on the single line, every row cross-checked against the model over the tree / pairs of the
    decoder library (run_json_rows / run_logfmt_rows) -- rows that escape that cross-check are counted here.  template rows: the
    library (harness refRender); the stage's own rendering of the single entry is recorded next to it and must agree."""
    h = ck.extra.setdefault("oracle_audit", {"tmpl_rows": 0, "tmpl_rows_dropped": 0, "parse_rows": 0, "parse_rows_not_cross_checked": 0, "re_rows": 0,
                                             "re_rows_anchored_literal": 0, "re_rows_anchored_literal_on_a_line_that_only_contains_it": 0,
                                             "cases_line_filter_anchored_literal": 0, "cases_where_substring_reading_changes_the_result": 0})
    bad_t, seen_t = [], set()
    unchecked = []
    for c in cases:
        tab = c.get("tab") or {}
        for r in tab.get("tmpl") or []:
            key = json.dumps([r.get("tmpl"), r.get("labels")], sort_keys=True)
            if key in seen_t:
                continue
            seen_t.add(key)
            h["tmpl_rows"] += 1
            h["tmpl_rows_dropped"] += not r["ok"]
            if bool(r["ok"]) != bool(r.get("stage_ok")) or (r["ok"] and r["s"] != r.get("stage_s")):
                bad_t.append((c, r))
        ops = {i: st.get("op") for i, st in enumerate(c["chain"]) if st["k"] == "parser"}
        for r in tab.get("parse") or []:
            h["parse_rows"] += 1
            op = ops.get(r["id"])
            if (op == "json" and not (r.get("json") and r.get("plain"))) or (op == "logfmt" and not r.get("logfmt")) or op not in ("json", "logfmt"):
                h["parse_rows_not_cross_checked"] += 1
                if r.get("ok"):
                    unchecked.append((c, r))
        # regular-expression rows: anchored literals on lines that contain the literal without being it
        lf = {unhex(st.get("val", "")): st["op"] for st in c["chain"] if st["k"] == "line_filter" and st.get("op") in ("|~", "!~")}
        changes = False
        for r in tab.get("re") or []:
            h["re_rows"] += 1
            m = ANCHORED.match(unhex(r["pat"]))
            if not m:
                continue
            h["re_rows_anchored_literal"] += 1
            subj = unhex(r["subj"])
            if m.group(1) in subj and subj != m.group(1):
                h["re_rows_anchored_literal_on_a_line_that_only_contains_it"] += 1
                if unhex(r["pat"]) in lf and not r["m"]:
                    changes = True
        h["cases_line_filter_anchored_literal"] += any(ANCHORED.match(p_) for p_ in lf)
        h["cases_where_substring_reading_changes_the_result"] += changes
    ck.obligation("%s: the line a fresh LineFormatterPlanner renders for a single entry = what text/template renders with the documented function set (harness refRender; the template oracle table is filled from the library, not from the stage) on %d distinct (template, labels) rows" % (label, len(seen_t)),
                  not bad_t, "; ".join("%s on %s: library %s, stage %s" % (r.get("tmpl"), r.get("labels"), (r["ok"], unhex(r["s"] or "")), (r.get("stage_ok"), unhex(r.get("stage_s") or ""))) for _, r in bad_t[:3]))
    if bad_t:
        c, r = min(bad_t, key=lambda p: (len(json.dumps(p[1].get("labels"))), size_of(p[0])))
        lbl = dict(r.get("labels") or {})
        line = lbl.pop("_entry", "")
        ck.violation({"property": PID, "kind": "| line_format renders a line differently from the LogQL definition (text/template over the labels and _entry)",
                      "query": '{app="x"} | line_format %s' % json.dumps(r.get("tmpl")), "template": r.get("tmpl"), "labels": lbl, "line": line,
                      "definition": {"rendered": r["ok"], "line": unhex(r["s"] or "").decode("utf8", "replace")},
                      "observed": {"rendered": r.get("stage_ok"), "line": unhex(r.get("stage_s") or "").decode("utf8", "replace")},
                      "replay": "LineFormatterPlanner{Template: template} on the single entry (labels, line): harness inteng --cases with {\"query\": ..., \"in\": [[{\"labels\": ..., \"msg\": hex(line)}]]}"})
    ck.obligation("%s: every row of the json / logfmt decode table that assigns labels is cross-checked against the model over the decoder library's tree / pairs (a table filled by the stage under test is not taken on trust)" % label,
                  not unchecked, "; ".join("%s on %r" % (c["query"], unhex(r["msg"])) for c, r in unchecked[:3]))


PIPE = {"line_filter": "PLineFilter", "label_filter": "PLabelFilter", "json": "PJson", "json_params": "PJsonParams", "logfmt": "PLogfmt",
        "regexp": "PRegexp", "line_format": "PLineFormat", "label_format": "PLabelFormat", "unwrap": "PUnwrap", "drop": "PDrop"}
PIPE_STAGES = ("line_filter", "label_filter", "parser", "line_format", "label_format", "unwrap", "drop")


def internal_pipe_kinds(c):
    """pipeline-stage kinds of the in-process chain as planned (the stages before the aggregators / limit)"""
    out = []
    for s in c["chain"]:
        if s["k"] not in PIPE_STAGES:
            break
        if s["k"] == "parser":
            out.append("json" if s["op"] == "json" and not s.get("params") else "json_params" if s["op"] == "json" else "logfmt" if s["op"] == "logfmt" else "regexp")
        else:
            out.append(s["k"])
    return out


CMPF = {">": lambda a, b: a > b, ">=": lambda a, b: a >= b, "<": lambda a, b: a < b, "<=": lambda a, b: a <= b, "==": lambda a, b: a == b, "!=": lambda a, b: a != b}


def inner_cmp_decides(c):
    """a vector aggregation over count_over_time / bytes_over_time / rate with a comparison written INSIDE it: does some group of the
    by / without clause hold two or more series of the range aggregation of which one falls on the other side of the threshold than
    the group's total?  (Only there the place of the comparison -- before or behind the regrouping -- shows in the answer of a sum.)
    Read off the recorded output of the range-aggregation stage; a measure of the generator's reach, never a verdict."""
    a = c.get("aggs") or {}
    rq = a.get("range") or {}
    if a.get("kind") != "agg" or not rq.get("cmp") or rq.get("unwrap") or c["out"]["err"] != "":
        return False
    ch, so = c["chain"], c.get("stage_out") or []
    j = next((i for i, st in enumerate(ch) if st["k"] == "lra"), None)
    if j is None or j >= len(so) or j + 1 >= len(ch) or ch[j + 1]["k"] != "comparison":
        return False
    bw = a.get("suf") or a.get("pre") or {"by": True, "names": []}
    try:
        th = float.fromhex(rq["cmp"]["val"])
        groups = {}
        for e in so[j] or []:
            if e["err"] != "":
                continue
            l = e.get("labels") or {}
            g = {k: v for k, v in l.items() if (k in (bw.get("names") or [])) == bool(bw.get("by"))}
            d = groups.setdefault((e["ts"], json.dumps(g, sort_keys=True)), {})
            k = json.dumps(l, sort_keys=True)
            d[k] = d.get(k, 0.0) + float.fromhex(e["val"])
    except ValueError:
        return False
    f = CMPF[rq["cmp"]["op"]]
    return any(len(d) >= 2 and any(f(v, th) != f(sum(d.values()), th) for v in d.values()) for d in groups.values())


def eval_plan_cases(ck, name, cases):
    rows = []
    for c in cases:
        rows.append("{| q_id := %d; q_absent := %s; q_pipes := %s; q_bp := %d; q_internal := %s |}" % (
            c["id"], "true" if c.get("absent") else "false", coq_list([PIPE[k] for k in c.get("pipes") or []]),
            c["bp"], ("(Some %s)" % coq_list([PIPE[k] for k in internal_pipe_kinds(c)])) if (c.get("chain") or c["out"]["err"] == "nosplit") else "None"))
    txt = (PRELUDE + "Definition cases : list plancase := [\n  " + ";\n  ".join(rows) + "].\n"
           "Definition M := Eval vm_compute in plan_mismatches cases.\nPrint M.\n")
    rc, out = ck.coq_eval(name, txt)
    if rc != 0:
        return None, out
    flat = " ".join(out.split())
    m = re.search(r"M = \[(.*?)\]\s*: list Z", flat)
    if not m:
        return None, out
    return ids_of(m.group(1)), out


# ------------------------------------------------------------------------------------------ known findings
def panic_mode():
    """how a stage panic ends, read from the source: 'entry' when TamePanic is deferred directly (recover works),
    'crash' when it is called from inside a deferred closure (recover returns nil, the process dies)"""
    p = os.path.join(vcheck.REPO, "reader/logql/logql_transpiler_v2/internal_planner/planner_generic.go")
    src = open(p).read()
    if re.search(r"defer\s+shared\.TamePanic\(", src):
        return "entry"
    return "crash"


def size_of(c):
    return (sum(len(b) for b in c["in"]), len(c["chain"]), len(c["query"]))


def classify(c, code):
    """map a specification violation to a recorded finding id (or None = new violation).  No finding is open for C09: every
    defect the oracle met was repaired in /repo (findings.d/C09.txt, `fixed:` lines), so nothing is classified away."""
    return None


# ------------------------------------------------------------------------------------------ main
def load(path):
    cases = [json.loads(l) for l in open(path)]
    for c in cases:
        c["in"] = [b or [] for b in (c.get("in") or [])]
        c["chain"] = c.get("chain") or []
        c["tab"] = c.get("tab") or {}
        c["out"]["entries"] = c["out"].get("entries") or []
    return cases


def run_cases(ck, cases, label):
    all_rows_cases = cases
    cases = [c for c in cases if c.get("mode", "") != "json"]
    chain_cases = [c for c in cases if c.get("mode", "") != "fp"]
    fp_cases = [c for c in cases if c.get("mode", "") == "fp"]
    def ill(f):
        return bool(f) and (bool((f.get("simple") or {}).get("ill")) or ill(f.get("complex")) or ill(f.get("tail")))

    def predicted_refusal(c):
        return any((s["k"] == "agg_op" and s.get("fn") in ("stddev", "stdvar")) or (s["k"] == "label_filter" and ill(s.get("filter"))) for s in c["chain"])
    pp = [c for c in chain_cases if c["out"]["err"] == "planpanic"]
    ck.obligation("%s: Process() of no planned stage panics (a panic there is answered 500 Internal Server Error by the controller's recover)" % label, not pp,
                  "; ".join("%s: %s" % (c["query"], c["out"].get("err_msg", "")[:80]) for c in pp[:3]))
    if pp:
        c = min(pp, key=size_of)
        ck.violation({"property": PID, "kind": "Process() of an in-process stage panics: the request fails with status 500 although the expression is one the ClickHouse planner refuses with an error message",
                      "query": c["query"], "case": slim(c), "panic": c["out"].get("err_msg"),
                      "replay": "harness inteng --cases <file with this case as one JSON line>"})
    runnable = [c for c in chain_cases if c.get("chain") and (c["out"]["err"] in ("", "err", "panic", "crash") or (c["out"]["err"] == "plan" and predicted_refusal(c)))]
    skipped = [c for c in chain_cases if c not in runnable]
    bad = [c for c in skipped if c["out"]["err"] not in ("nosplit", "parse", "plan", "planpanic")]
    ck.obligation("%s: every generated case ran (no timeout / unknown processor)" % label, not bad,
                  "; ".join("%s: %s %s" % (c["id"], c["out"]["err"], c["out"].get("err_msg", "")[:100]) for c in bad[:5]))
    refused = [c for c in chain_cases if c["class"] == "refused"]
    not_refused = [c for c in refused if c["out"]["err"] != "plan"]
    ck.obligation("%s: topk / bottomk / quantile_over_time over a split pipeline and a zero range [0s] are refused by the planner (%d queries): they never run in process" % (label, len(refused)),
                  not not_refused, "; ".join("%s -> %s" % (c["query"], c["out"]["err"]) for c in not_refused[:3]))
    pm = panic_mode()
    KILLS[0] = pm == "crash"
    wrong_kind = [c for c in runnable if (c["out"]["err"] == "crash" and pm != "crash") or (c["out"]["err"] == "panic" and pm != "entry" and not any(e["err"] == "panic" for b in c["in"] for e in b))]
    ck.obligation("%s: a stage panic ends the way the source says (%s)" % (label, pm), not wrong_kind, "cases: %s" % [c["id"] for c in wrong_kind[:5]])
    TYPES = {"lra": "LRAPlanner", "unwrap_agg": "UnwrapAggPlanner", "agg_op": "AggOpPlanner", "label_format": "LabelFormatPlanner", "parser": "ParserPlanner"}
    attr_bad = [c for c in runnable if c["out"]["err"] == "crash" and not (0 <= c.get("crash_stage", -1) < len(c["chain"]) and
                TYPES.get(c["chain"][c["crash_stage"]]["k"], "?") in (c.get("crash_trace") or ""))]
    ck.obligation("%s: a process death is attributed to the stage named in its stack trace" % label, not attr_bad, "cases: %s" % [c["id"] for c in attr_bad[:5]])
    pipe_bad = [c for c in runnable if c.get("pipelined") == "differs"]
    ck.obligation("%s: the pipelined chain and the stage-by-stage replay send the same entries" % label, not pipe_bad, "cases: %s" % [c["id"] for c in pipe_bad[:5]])
    mism, viol = [], []
    shard = 300
    # a many-series case (2000+ entries) costs as much as a thousand ordinary ones: it gets a shard of its own, evaluated first
    big = [c for c in runnable if sum(len(b) for b in c["in"]) >= 500]
    small = [c for c in runnable if sum(len(b) for b in c["in"]) < 500]
    shards = [("big%d" % k, [c]) for k, c in enumerate(big)] + [(k // shard, small[k:k + shard]) for k in range(0, len(small), shard)]
    from concurrent.futures import ThreadPoolExecutor
    planned = [c for c in chain_cases if c["out"]["err"] != "parse" and c.get("pipes") is not None]
    plan_res = fp_res = None
    with ThreadPoolExecutor(max_workers=5) as ex:
        futs = [ex.submit(eval_chain_cases, ck, "C09_%s_%s" % (label, a[0]), a[1]) for a in shards]
        # while the shards are evaluated: the json / logfmt rows, the plan and the fingerprint cases (this thread)
        fp_cases = fp_cases + fp_table_rows(ck, runnable, label)
        run_json_rows(ck, all_rows_cases, label)
        run_logfmt_rows(ck, all_rows_cases, label)
        run_oracle_audit(ck, runnable, label)
        if planned:
            plan_res = eval_plan_cases(ck, "C09_%s_plan" % label, planned)
        if fp_cases:
            fp_res = eval_fp_cases(ck, "C09_%s_fp" % label, fp_cases)
        results = [f.result() for f in futs]
    aplan = []
    for m, v, a, out in results:
        if m is None:
            ck.obligation("%s: cases evaluated inside Coq" % label, False, out[-2500:])
            return runnable, fp_cases
        mism += m
        viol += v
        aplan += a
    byid = {c["id"]: c for c in runnable}
    # round 8: the aggregator stages (by/without, range aggregation, vector aggregation, comparisons, limit, optimizer) and their
    # ORDER as planned = model InternalEnginePlan.plan_aggs of the query as the harness parsed it a second time; the specification
    # oracle below judges the output by the chain the parsed query prescribes, so a planner that reorders stages no longer takes
    # the reference with it
    ck.obligation("%s: the aggregator stages of the planned chain and their order = model plan_aggs (planAggregators / planByWithout / groupByNothing) of the parsed query on %d cases" % (label, len(runnable)),
                  not aplan, "; ".join("%s: planned %s" % (byid[i]["query"], [st["k"] for st in byid[i]["chain"]]) for i in aplan[:3]))
    ah = ck.extra.setdefault("aggregator_plans", {"cases": 0, "vector_aggregation": 0, "inner_comparison_under_a_vector_aggregation": 0,
                                                  "of_those_sum_over_count_or_bytes_over_time": 0, "outer_comparison": 0, "range_comparison": 0, "unwrap_with_clause": 0})
    ah["planned_otherwise_than_the_model"] = ah.get("planned_otherwise_than_the_model", 0) + len(aplan)
    for c in runnable:
        a = c.get("aggs") or {}
        ah["cases"] += 1
        ah["vector_aggregation"] += a.get("kind") == "agg"
        inner = a.get("kind") == "agg" and bool((a.get("range") or {}).get("cmp"))
        ah["inner_comparison_under_a_vector_aggregation"] += inner
        ah["of_those_sum_over_count_or_bytes_over_time"] += inner and a.get("fn") == "sum" and a["range"]["fn"] in ("count_over_time", "bytes_over_time") and not a["range"].get("unwrap")
        ah["outer_comparison"] += a.get("kind") == "agg" and bool(a.get("cmp"))
        ah["range_comparison"] += a.get("kind") == "range" and bool(a["range"].get("cmp"))
        ah["unwrap_with_clause"] += bool((a.get("range") or {}).get("unwrap")) and bool(a["range"].get("pre") or a["range"].get("suf"))
        dec = inner_cmp_decides(c)
        ah["inner_comparison_splits_a_group"] = ah.get("inner_comparison_splits_a_group", 0) + dec
        ah["of_those_sum_over_count_or_bytes_over_time_"] = ah.get("of_those_sum_over_count_or_bytes_over_time_", 0) + (dec and a.get("fn") == "sum" and a["range"]["fn"] in ("count_over_time", "bytes_over_time"))
    ck.obligation("%s: correspondence model run_chain = implementation on %d (chain, batching) cases" % (label, len(runnable)), not mism,
                  "mismatching case ids: %s" % mism[:10])
    known = ck.known_findings()
    new = []
    for cid, code in viol:
        if code == 1 and "Too many time-series" in (byid[cid]["out"].get("err_msg") or ""):
            continue        # the documented limit of 2000 series per aggregation is a refusal, not a wrong answer
        fid = classify(byid[cid], code)
        if fid and fid in known:
            ck.report_known(fid, known[fid][:160])
        else:
            new.append((cid, code))
    ck.obligation("%s: specification oracle spec_code accepts every observed output outside the recorded findings" % label, not new,
                  "violating (case, code): %s" % new[:10])
    if new:
        cid, code = min(new, key=lambda p: size_of(byid[p[0]]))
        c = byid[cid]
        exp = expected_of(ck, "C09_%s_expected" % label, c) if code in (1, 2, 3) else None
        def row_key(r_):
            return (json.dumps(r_["labels"], sort_keys=True), r_["ts"])
        if exp is not None:
            exp = sorted(exp, key=row_key)
        ck.violation({"property": PID, "kind": {1: "request fails although the reference semantics yields a result",
                                                2: "entries/values differ from the reference semantics",
                                                3: "series identity: fingerprints and label sets do not correspond one to one",
                                                4: "an upstream error was swallowed",
                                                5: "the limit stage cancelled the upstream query although the entries that arrived cannot fill the limit"}.get(code, "spec"),
                      "code": code, "query": c["query"], "range": c.get("range"), "case": slim(c),
                      "expected": exp if exp is not None else "(not evaluated)", "got": sorted(got_rows(c), key=row_key) if c["out"]["err"] == "" else {"error": c["out"]["err"], "message": c["out"].get("err_msg")},
                      "planned_stages": [st["k"] for st in c["chain"]], "aggregators_as_parsed": c.get("aggs"),
                      "planned_aggregator_stages_differ_from_the_model_of_planAggregators": cid in aplan,
                      "explanation": "spec_code (model/InternalEngine.v) rejects the output the real chain sent for this input; expected = the reference semantics sem_chain on the input entries over the chain the PARSED query prescribes (pipeline stages as planned ++ InternalEnginePlan.plan_aggs: range aggregation, its comparison, THEN by/without, vector aggregation, outer comparison) (series ordered by label set; series are identified by label set, fingerprints are not compared), got = the data entries the real chain sent",
                      "replay": "harness inteng --cases <file with this case as one JSON line>"})
    elif mism:
        c = min((byid[i] for i in mism), key=size_of)
        ck.violation({"property": PID, "kind": "model/implementation disagree; the reference semantics still accepts every output",
                      "query": c["query"], "case": slim(c), "broken": "correspondence InternalEngine.run_chain vs internal_planner"}, no_input=True)
    elif aplan:
        c = min((byid[i] for i in aplan), key=size_of)
        ck.violation({"property": PID, "kind": "the planner builds other aggregator stages (or another order) than the model of planAggregators; no generated input shows a different result",
                      "query": c["query"], "planned_stages": [st["k"] for st in c["chain"]], "aggregators_as_parsed": c.get("aggs"),
                      "broken": "correspondence InternalEnginePlan.plan_aggs vs internal_planner.planAggregators"}, no_input=True)
    if planned:
        m, out = plan_res
        if m is None:
            ck.obligation("%s: plan cases evaluated inside Coq" % label, False, out[-2000:])
        else:
            ck.obligation("%s: GetBreakpoint and the split of the pipeline = model get_breakpoint / internal_pipes on %d planned queries" % (label, len(planned)), not m, "case ids %s" % m[:10])
            if m:
                c = [c for c in planned if c["id"] in m][0]
                ck.violation({"property": PID, "kind": "split point: the observed breakpoint / in-process part is not the first stage ClickHouse cannot run (theorem split_point_is_first_unsupported_stage is about get_breakpoint, which this query contradicts)",
                              "query": c["query"], "pipes": c.get("pipes"), "bp": c["bp"], "internal": internal_pipe_kinds(c),
                              "replay": "harness inteng --cases <file with {\"query\": ...} as one JSON line>"})
    if fp_cases:
        m, out = fp_res
        if m is None:
            ck.obligation("%s: fingerprint cases evaluated inside Coq" % label, False, out[-2000:])
        else:
            ck.obligation("%s: hash.go fingerprint = model fingerprint over CH64 tables on %d label sets" % (label, len(fp_cases)), not m, "case ids %s" % m[:10])
            if m:
                c = [c for c in fp_cases if c["id"] in m][0]
                ck.violation({"property": PID, "kind": "hash.go structure differs from the model", "case": c}, no_input=True)
    return runnable, fp_cases


def slim(c):
    d = dict(c)
    d.pop("stage_out", None)
    return d


def nontrivial(c):
    n = sum(1 for b in c["in"] for e in b if e["err"] == "")
    return n >= 2 and len(c["in"]) >= 2 and len(c["chain"]) >= 3


def dead_code_scan(ck):
    """MatrixStepPlanner (two copies) is not modelled: it must stay without a construction site"""
    hits = []
    root = os.path.join(vcheck.REPO, "reader")
    for dp, dn, fn in os.walk(root):
        for f in fn:
            if f.endswith(".go") and not f.endswith("_test.go"):
                txt = open(os.path.join(dp, f), errors="replace").read()
                for m in re.finditer(r"MatrixStepPlanner\s*\{", txt):
                    line = txt[:m.start()].splitlines()[-1] if txt[:m.start()].splitlines() else ""
                    if not re.search(r"type\s+$", line + " ") and "type MatrixStepPlanner" not in txt[max(0, m.start() - 5):m.end()]:
                        hits.append(os.path.relpath(os.path.join(dp, f), vcheck.REPO))
    ck.obligation("MatrixStepPlanner (unmodelled) has no construction site in reader/", not hits, ", ".join(hits[:5]))


def negative_limit_scan(ck):
    """the spec domain of the limit keeps 0 <= limit: is that what the handlers guarantee?  While QueryRange / Query pass a
    negative limit on (ClickHouse path: `LIMIT -n` is sent; in process: nothing is forwarded) the recorded finding is printed;
    once both handlers refuse it the finding is gone (and a handler that loses the refusal again is reported)."""
    src = open(os.path.join(vcheck.REPO, "reader/controller/queryRangeController.go")).read()
    refusals = len(re.findall(r"if\s+limit\s*<\s*0\s*\{\s*PromError\(400", src))
    known = ck.known_findings()
    if refusals >= 2:
        ck.obligation("QueryRange and Query refuse a negative limit with 400 before planning", True)
    elif "negative-limit-not-refused" in known:
        ck.report_known("negative-limit-not-refused", known["negative-limit-not-refused"][:200])
    else:
        ck.obligation("QueryRange and Query refuse a negative limit with 400 before planning", False, "%d of 2 handlers refuse it" % refusals)
        ck.violation({"property": PID, "kind": "a negative limit reaches the planners: the ClickHouse path sends LIMIT -n, the in-process limit stage forwards nothing",
                      "request": "/loki/api/v1/query_range?query={a=\"b\"}&start=1700000040000000000&end=1700000340000000000&limit=-5",
                      "replay": "harness readfuzz --cases (probe/loki_range with limit=-5): status 200 and one statement issued"})


INDEX_FINDING = "json-index-part-printed-as-key"


def json_index_scan(ck):
    """`| json x="a[0]"` on the line {"a":[5]}: the in-process walker reads [0] as the first item of an array (typed path part,
    model PIdx) and assigns x="5", as LogQL does.  What does the ClickHouse path send?  JSONExtract*(json, indices_or_keys...):
    a String argument is an object KEY, an Integer argument is an array INDEX counted from 1 (ClickHouse documentation of
    the JSON functions).  The statement is planned by the real ClickHouse planner; the path arguments are read off its text."""
    line = '{"a":[5],"b":{"1":"k"}}'
    base = 1700000000 * 10 ** 9
    cases = [{"id": 1, "mode": "sql", "class": "sql", "query": '{app="x"} | json x="a[0]"', "from": base, "to": base + 60 * 10 ** 9, "limit": 10, "out": {"err": ""}},
             {"id": 2, "class": "log", "query": '{app="x"} | line_format "{{._entry}}" | json x="a[0]"', "from": base, "to": base + 60 * 10 ** 9, "limit": 10, "out": {"err": ""},
              "in": [[{"ts": base + 1, "fp": 7, "labels": {"app": "x"}, "msg": binascii.hexlify(line.encode()).decode(), "val": "0x0p+00", "err": ""},
                      {"ts": 0, "fp": 0, "labels": None, "msg": "", "val": "0x0p+00", "err": "eof"}]]}]
    inp = os.path.join(ck.work, "jsonidx_in.jsonl")
    outp = os.path.join(ck.work, "jsonidx.jsonl")
    open(inp, "w").write("".join(json.dumps(c) + "\n" for c in cases))
    rc, out = ck.go_run("inteng", ["--cases", inp, "--out", outp])
    if rc != 0:
        ck.obligation("harness inteng planned the json index query on both engines", False, out[-1500:])
        return
    res = [json.loads(l) for l in open(outp)]
    sql = res[0].get("sql") or ""
    ents = [e for e in (res[1]["out"].get("entries") or []) if e["err"] == ""]
    inproc = ents[0].get("labels") if ents else None
    ck.obligation("in process `| json x=\"a[0]\"` assigns the first item of the array (x=\"5\" on %s)" % line, bool(inproc) and inproc.get("x") == "5", "labels %s" % inproc)
    m = re.search(r"JSONExtractString\(string, ([^)]*)\)", sql)
    args = m.group(1).replace(" ", "") if m else None
    known = ck.known_findings()
    if args == "'a',1":
        ck.obligation("an [n] part of a json path reaches ClickHouse as an array index (a number, counted from 1), as the in-process walker reads it", True)
    elif args == "'a','1'" and INDEX_FINDING in known:
        ck.report_known(INDEX_FINDING, known[INDEX_FINDING][:200])
    else:
        ck.obligation("an [n] part of a json path reaches ClickHouse as an array index (a number, counted from 1), as the in-process walker reads it", False,
                      "path arguments printed: %s" % args)
        ck.violation({"property": PID, "kind": "the two engines read a json path differently: the ClickHouse path sends the [n] part as a string (an object key for JSONExtract*), the in-process walker reads an array index",
                      "query": '{app="x"} | json x="a[0]"', "line": line, "in_process_labels": inproc,
                      "clickhouse_call": m.group(0) if m else sql[-400:],
                      "clickhouse_reading": "JSONExtractString(string, 'a','1') looks for the member \"1\" of the value under a; a is an array: '' -> no label x",
                      "replay": "harness inteng --cases with {\"mode\":\"sql\",\"query\":...} prints the statement; the same query as a chain case gives the in-process labels"})


COMPOSITE_FINDING = "json-path-ends-at-composite"


def json_composite_scan(ck):
    """a json parameter whose path ends at an object / array.  ClickHouse path: the real planner prints
    if(JSONType(string, 'a') == 'String', JSONExtractString(string, 'a'), JSONExtractRaw(string, 'a')) -- for an object the raw
    text (ClickHouse documentation of JSONExtractRaw: "returns a part of JSON as unparsed string"), a non-empty value that
    becomes the label.  In process: the walker assigns nothing there (model InternalJson.walk, theorem
    decoder_link_refuted_where_a_path_ends_at_an_object).  Both halves are read off the real code on every run; the recorded
    finding is reported for exactly this input, any other reading is a violation."""
    line = '{"a":{"b":1},"c":[1,2]}'
    base = 1700000000 * 10 ** 9
    cases = [{"id": 1, "mode": "sql", "class": "sql", "query": '{app="x"} | json x="a"', "from": base, "to": base + 60 * 10 ** 9, "limit": 10, "out": {"err": ""}},
             {"id": 2, "class": "log", "query": '{app="x"} | line_format "{{._entry}}" | json x="a", y="c", z="a.b"', "from": base, "to": base + 60 * 10 ** 9, "limit": 10, "out": {"err": ""},
              "in": [[{"ts": base + 1, "fp": 7, "labels": {"app": "x"}, "msg": binascii.hexlify(line.encode()).decode(), "val": "0x0p+00", "err": ""},
                      {"ts": 0, "fp": 0, "labels": None, "msg": "", "val": "0x0p+00", "err": "eof"}]]}]
    inp = os.path.join(ck.work, "jsoncomp_in.jsonl")
    outp = os.path.join(ck.work, "jsoncomp.jsonl")
    open(inp, "w").write("".join(json.dumps(c) + "\n" for c in cases))
    rc, out = ck.go_run("inteng", ["--cases", inp, "--out", outp])
    if rc != 0:
        ck.obligation("harness inteng planned the json composite-path query on both engines", False, out[-1500:])
        return
    res = [json.loads(l) for l in open(outp)]
    sql = " ".join((res[0].get("sql") or "").split())
    ents = [e for e in (res[1]["out"].get("entries") or []) if e["err"] == ""]
    inproc = (ents[0].get("labels") if ents else None) or {}
    raw = re.search(r"if\(JSONType\(string, ?'a'\) ?== ?'String', ?JSONExtractString\(string, ?'a'\), ?JSONExtractRaw\(string, ?'a'\)\)", sql) is not None
    ck.obligation("in process `| json z=\"a.b\"` still reads the scalar below the object (z=\"1\" on %s)" % line, inproc.get("z") == "1", "labels %s" % inproc)
    known = ck.known_findings()
    if raw and "x" not in inproc and "y" not in inproc and COMPOSITE_FINDING in known:
        ck.report_known(COMPOSITE_FINDING, known[COMPOSITE_FINDING][:200])
    elif inproc.get("x") == '{"b":1}' and inproc.get("y") == "[1,2]" and raw:
        ck.obligation("a json path that ends at an object / array yields its text on both engines", True)
    else:
        ck.obligation("a json path that ends at an object / array is read the same way by both engines (or differs exactly as the recorded finding says)", False,
                      "in process %s; ClickHouse call %s" % (inproc, sql[-300:]))
        ck.violation({"property": PID, "kind": "the two engines read a json path that ends at an object / array differently, and not in the way the recorded finding describes",
                      "query": '{app="x"} | json x="a", y="c"', "line": line, "in_process_labels": inproc, "clickhouse_statement_tail": sql[-500:],
                      "replay": "harness inteng --cases (Mode sql for the statement; the log case with the line for the in-process labels)"})


def run(ck):
    dead_code_scan(ck)
    negative_limit_scan(ck)
    ck.trusted += [
        "C09: json/logfmt decoding, text/template rendering, regexp matching and strconv.ParseFloat are oracles (Section variables in the theorems). Where the per-case tables come from: regexp rows = Go's regexp.Compile + MatchString called by the harness; ParseFloat rows = strconv.ParseFloat called by the harness; template rows = text/template + the documented function set (strings, regexp, sprig) executed by the harness (refRender), the real LineFormatterPlanner's rendering of the same single entry is compared with it; json / logfmt rows = the real ParserPlanner on the single line (code under test), every row that assigns labels is cross-checked against model/InternalJson.v over the value tree of go-faster/jx / the pairs of kr/logfmt read by the harness; fingerprint rows = the real `fingerprint` of hash.go (code under test), a sample of them and the generated label sets go through the hash.go structure check over CityHash64 values computed by the harness from go-faster/city. CityHash64 is an oracle",
        "C09: float64 is abstract in the theorems; the correspondence instantiates it with Coq's primitive binary64 floats; generated values keep cross-series sums exact so that Go's unspecified map iteration order cannot change a result",
        "C09: Go maps are not shared between entries on input (the ClickHouse getter builds a fresh map per row); the aggregators share one map among the entries of a series, and the stages after them apply the same idempotent cut to every sharer",
        "C09: the SQL engine's side of the cross-engine theorems is C07's reference semantics (model/LogqlSem.v run_stages), proved equal to sem_chain on line filter / label filter / json parameters / drop under the decoder link decoders_linked (no longer false for a missing path or an empty value since /repo 1b5bff2 + 7f68b19: Example missing_path_keeps_the_label_on_both_paths); the tie of that reference to the generated SQL is C07's theorem",
        "C09: the byte-level JSON decoder (go-faster/jx: Next/Obj/Arr/Str/Raw/Skip) is the oracle that turns a line into a value tree; qryn's own code on the tree (nested-key flattening, sanitizeLabel, the typed path walker) is model/InternalJson.v, tied on every generated (parameters, line) row; lines on which jx.Skip and the full walk disagree are counted, not compared; shared.JsonPathParamToTypedArray (participle grammar) supplies the typed paths; the logfmt decoder (github.com/kr/logfmt) is the oracle that yields the (key, value) pairs of a line, what HandleLogfmt does with them (sanitizeLabel, later pair wins, the field table of `| logfmt l=\"key\"`) is the model's; label names are judged against the definition by value (RFC 3629 characters, model label_name; sanitize_one_underscore_per_character)",
        "C09: that an integer argument of ClickHouse's JSONExtract* functions is an array index counted from 1 and a string argument an object key is read from the ClickHouse documentation (json_index_scan compares the printed path arguments of the real planner with the in-process reading)",
        "C09: that ClickHouse's JSONType / JSONExtractString / JSONExtractRaw (C07's oracle json_get) and jx read the same text under a path is the remaining hypothesis decoders_linked of the SQL/in-process theorem (a path that ends at an object / array: ClickHouse extracts its raw text, the in-process walker assigns nothing)",
    ]
    ck.coq_props()
    if not ck.go_build("inteng"):
        ck.obligation("harness inteng builds against the repository", False, ck.build_out[-1500:])
        return
    allcases = []
    corpus = os.path.join(ROOT, "corpus", PID, "cases.jsonl")
    if os.path.exists(corpus):
        outp = os.path.join(ck.work, "corpus.jsonl")
        rc, out = ck.go_run("inteng", ["--cases", corpus, "--out", outp])
        if rc != 0:
            ck.obligation("harness inteng ran the corpus", False, out[-1500:])
        else:
            cs_ = load(outp)
            for i, c in enumerate(cs_):
                c["id"] = 1000000 + i
            r, f = run_cases(ck, cs_, "corpus")
            allcases += r + f
    json_index_scan(ck)
    json_composite_scan(ck)
    if ck.replay:
        outp = os.path.join(ck.work, "replay.jsonl")
        src = json.load(open(ck.replay))
        tmp = os.path.join(ck.work, "replay_in.jsonl")
        open(tmp, "w").write(json.dumps(src.get("case", src)) + "\n")
        rc, out = ck.go_run("inteng", ["--cases", tmp, "--out", outp])
        if rc == 0:
            r, f = run_cases(ck, load(outp), "replay")
            allcases += r + f
    n = ck.n(1500, 20000)
    outp = os.path.join(ck.work, "gen.jsonl")
    rc, out = ck.go_run("inteng", ["--seed", ck.seed, "--n", n, "--out", outp])
    if rc != 0:
        ck.obligation("harness inteng ran", False, out[-1500:])
        return
    r, f = run_cases(ck, load(outp), "gen")
    allcases += r + f
    hist = {}
    distinct = set()
    for c in allcases:
        hist[c["class"]] = hist.get(c["class"], 0) + 1
        if c.get("mode", "") != "fp" and nontrivial(c):
            distinct.add(json.dumps([c["query"], c["in"], c["from"], c["to"], c["limit"]], sort_keys=True))
    ck.coverage["evaluations"] += len(allcases)
    ck.coverage["distinct_nontrivial"] += len(distinct)
    ck.coverage["rule"] += ("generated LogQL query strings (log, range-aggregation, unwrap, vector-aggregation with by/without and comparisons; 0-4 extra stages after the "
                            "breakpoint stage; ranges in s / m / ms / us / ns, half of the metric queries with a range that is not a whole number of seconds) planned by the production planner, upstream of 0-13 entries over 1-3 series in random batchings (whole, singletons, random cuts, "
                            "empty batches) ending in io.EOF / an error / nothing, limits 0..40 and negative ones, ill-typed label-filter heads, streams collapsing to one label set under by/without or drop, drop stages naming one label several times (own stream, N/25+5 cases), malformed and non-object lines in 1 case of 12; non-trivial = >=2 data entries, "
                            ">=2 batches, >=3 in-process stages; distinct by (query, batches, window, limit). ")
    ck.extra["input_distribution"] = hist
    # ranges of the generated metric queries: how many are not a whole number of seconds, and how many of those run a rate
    # (rate / bytes_rate / rate over unwrap divide by the range) in process and sent at least one sample
    rk = {}
    for c in allcases:
        if c.get("mode", "") == "fp" or not c.get("range_kind"):
            continue
        d = rk.setdefault(c["range_kind"], {"cases": 0, "in_process_rate": 0, "in_process_rate_with_samples": 0, "ranges": {}})
        d["cases"] += 1
        d["ranges"][c["range"]] = d["ranges"].get(c["range"], 0) + 1
        is_rate = any(s["k"] in ("lra", "unwrap_agg") and s.get("fn") in ("rate", "bytes_rate") for s in c["chain"])
        d["in_process_rate"] += is_rate
        d["in_process_rate_with_samples"] += is_rate and c["out"]["err"] == "" and any(e["err"] == "" for e in c["out"]["entries"])
    ck.extra["range_distribution"] = rk
    frac_rate = sum(d["in_process_rate_with_samples"] for k_, d in rk.items() if k_ != "whole-s")
    ck.obligation("the generator reaches in-process rates over ranges that are not a whole number of seconds (ms / us / ns units; %d such cases sent samples, %d of them with a sub-millisecond part or below 1 ms)" % (
        frac_rate, sum(rk.get(k_, {}).get("in_process_rate_with_samples", 0) for k_ in ("sub-ms-part", "<1ms"))),
        ck.replay is not None or frac_rate >= ck.n(30, 300), "range kinds: %s" % {k_: d["in_process_rate_with_samples"] for k_, d in rk.items()})
    # drop stages naming one label several times (round 7, seed C09-g): how many ran in process, and on how many of them an entry
    # reaching the stage carries a label whose fate differs between "some parameter hits it" (the definition, both engines) and
    # "the last parameter naming the label decides" (one value per name)
    dr = {"in_process_drop_stages": 0, "with_a_repeated_name": 0, "repeat_decides_an_entry": 0, "forms": {}}
    for c in allcases:
        if c.get("mode", "") == "fp" or c["out"]["err"] != "":
            continue
        for j, st in enumerate(c.get("chain") or []):
            if st.get("k") != "drop":
                continue
            dr["in_process_drop_stages"] += 1
            names, vals = st.get("names") or [], st.get("vals") or []
            if len(set(names)) == len(names):
                continue
            dr["with_a_repeated_name"] += 1
            form = ", ".join("%s%s" % ("abcdefgh"[sorted(set(names), key=names.index).index(n)], "=.." if v else "") for n, v in zip(names, vals))
            dr["forms"][form] = dr["forms"].get(form, 0) + 1
            last = {n: v for n, v in zip(names, vals)}
            ins = (c.get("stage_out") or [])[j - 1] if j >= 1 and len(c.get("stage_out") or []) > j - 1 else []
            dr["repeat_decides_an_entry"] += any(
                any(n == k and (v == "" or v == lv) for n, v in zip(names, vals)) != (k in last and (last[k] == "" or last[k] == lv))
                for e in ins or [] if e["err"] == "" for k, lv in (e.get("labels") or {}).items())
    ck.extra["drop_repeats"] = dr
    ck.obligation("the generator reaches in-process drop stages that name one label several times (%d such stages, on %d of them an arriving label is removed by a parameter that is not the last one naming it)" % (
        dr["with_a_repeated_name"], dr["repeat_decides_an_entry"]), ck.replay is not None or dr["repeat_decides_an_entry"] >= ck.n(20, 250), "forms: %s" % dr["forms"])
    ap = ck.extra.get("aggregator_plans") or {}
    ck.obligation("the generator reaches comparisons written inside a vector aggregation whose threshold lies between a series of the range aggregation and the total of its group (%d cases, %d of them sum over count_over_time / bytes_over_time; %d inner comparisons under a vector aggregation in all)" % (
        ap.get("inner_comparison_splits_a_group", 0), ap.get("of_those_sum_over_count_or_bytes_over_time_", 0), ap.get("inner_comparison_under_a_vector_aggregation", 0)),
        # measured on the recorded output of the range-aggregation stage where the chain is planned as the model says: with chains
        # planned otherwise (reported above) the measure does not apply
        ck.replay is not None or ap.get("planned_otherwise_than_the_model", 0) > 0 or ap.get("of_those_sum_over_count_or_bytes_over_time_", 0) >= ck.n(12, 120), "aggregator plans: %s" % ap)
    ck.add_samples([{"query": c["query"], "in": c["in"], "limit": c["limit"], "out": c["out"]} for c in allcases if c.get("mode", "") != "fp" and nontrivial(c)][:3])
