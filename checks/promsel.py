"""C17 part 2 — Prometheus / Pyroscope selection.

* SQL text of transpiler.TranspileLabelMatchers / TranspileLabelMatchersDownsample, of the profile
  StreamSelectorPlanner and of what CLokiQuerier.Select sends (main + labels request) against
  render(model tree), byte for byte (coq/model/PromSel.v, ProfSel.v through the OCaml extraction);
* CLokiQuerier.Select's assembly of series from scripted rows against coq/model/PromSelect.v, and the
  boolean specification select_spec_ok on the OBSERVED series;
* the SQL text the implementation sent is parsed back into a Sql.v tree (validated inside the model:
  its rendering must give the text back), evaluated by the reference interpreter coq/model/PromSem.v
  on a generated database and judged against the Prometheus meaning of the matchers
  (coq/model/PromCase.v sem_verdict): a concrete matcher set + database when it fails.
"""
import json
import os
import re

VERIF = os.path.dirname(os.path.dirname(os.path.abspath(__file__)))

# ---------------------------------------------------------------------------------------------
# SQL subset parser: text rendered by reader/utils/sql_select -> coq/model/Sql.v tree
# ---------------------------------------------------------------------------------------------
TOK = re.compile(r"""\s*(?:
    (?P<str>'(?:[^'\\]|\\.)*')
  | (?P<num>\d+)
  | (?P<id>[A-Za-z_`][A-Za-z0-9_.`]*)
  | (?P<op>->|==|!=|<=|>=|<|>|\+|-|\*|/|%|\(|\)|\[|\]|,)
)""", re.X | re.S)

KEYWORDS = {"WITH", "SELECT", "DISTINCT", "FROM", "PREWHERE", "WHERE", "GROUP", "BY", "HAVING", "ORDER", "LIMIT", "OFFSET",
            "UNION", "ALL", "as", "and", "or", "IN", "asc", "desc"}
CMP = {"==": "OEq", "!=": "ONeq", "<": "OLt", "<=": "OLe", ">": "OGt", ">=": "OGe", "and": "OAnd", "or": "OOr"}
UNESC = {"\\": "\\", "0": "\0", "n": "\n", "r": "\r", "b": "\b", "t": "\t", "'": "'"}


class ParseError(Exception):
    pass


def tokenize(text):
    toks = []
    i = 0
    text = text.rstrip()
    while i < len(text):
        m = TOK.match(text, i)
        if not m or m.end() == i:
            raise ParseError("cannot tokenize at %d: %r" % (i, text[i:i + 30]))
        i = m.end()
        for k in ("str", "num", "id", "op"):
            if m.group(k) is not None:
                toks.append((k, m.group(k)))
                break
    return toks


def unquote(lit):
    s = lit[1:-1]
    out = []
    i = 0
    while i < len(s):
        if s[i] == "\\":
            if s[i + 1:i + 4] == "x1a":
                out.append("\x1a")
                i += 4
                continue
            out.append(UNESC.get(s[i + 1], s[i + 1]))
            i += 2
        else:
            out.append(s[i])
            i += 1
    return "".join(out)


class Parser:
    def __init__(self, text):
        self.t = tokenize(text)
        self.i = 0
        self.ctes = {}

    def peek(self, k=0):
        return self.t[self.i + k] if self.i + k < len(self.t) else ("eof", "")

    def kw(self, w, k=0):
        return self.peek(k) == ("id", w)

    def op(self, w, k=0):
        return self.peek(k) == ("op", w)

    def next(self):
        x = self.peek()
        self.i += 1
        return x

    def expect(self, kind, w):
        x = self.next()
        if x != (kind, w):
            raise ParseError("expected %s got %s at token %d" % (w, x, self.i))

    # ---- select
    def select(self):
        s = {"distinct": False, "cols": [], "from": None, "where": None, "prewhere": None, "having": None, "groupby": [],
             "orderby": [], "limit": None, "offset": None, "withs": [], "joins": [], "settings": [], "unions": []}
        if self.kw("WITH"):
            self.next()
            while True:
                kind, alias = self.next()
                if kind != "id":
                    raise ParseError("WITH alias")
                self.expect("id", "as")
                self.expect("op", "(")
                q = self.select()
                self.expect("op", ")")
                s["withs"].append((alias, q))
                self.ctes[alias] = q
                if self.op(","):
                    self.next()
                    continue
                break
        self.expect("id", "SELECT")
        if self.kw("DISTINCT"):
            self.next()
            s["distinct"] = True
        s["cols"] = self.aliased_list()
        if self.kw("FROM"):
            self.next()
            s["from"] = self.aliased()
        if self.kw("PREWHERE"):
            self.next()
            s["prewhere"] = self.expr()
        if self.kw("WHERE"):
            self.next()
            s["where"] = self.expr()
        if self.kw("GROUP"):
            self.next()
            self.expect("id", "BY")
            s["groupby"] = self.expr_list()
        if self.kw("HAVING"):
            self.next()
            s["having"] = self.expr()
        if self.kw("ORDER"):
            self.next()
            self.expect("id", "BY")
            obs = []
            while True:
                e = self.expr()
                if self.kw("asc") or self.kw("desc"):
                    e = ("Ord", e, self.next()[1] == "asc")
                obs.append(e)
                if self.op(","):
                    self.next()
                    continue
                break
            s["orderby"] = obs
        if self.kw("LIMIT"):
            self.next()
            s["limit"] = self.expr()
        if self.kw("OFFSET"):
            self.next()
            s["offset"] = self.expr()
        return s

    def aliased(self):
        e = self.expr()
        if self.kw("as"):
            self.next()
            kind, alias = self.next()
            if kind != "id":
                raise ParseError("alias")
            if e[0] == "SubQ":
                return ("WRef", alias, e[1])
            return ("Col", e, alias)
        if e[0] == "Id" and e[1] in self.ctes:
            return ("WRef", e[1], self.ctes[e[1]])
        return e

    def aliased_list(self):
        xs = [self.aliased()]
        while self.op(","):
            self.next()
            xs.append(self.aliased())
        return xs

    def expr_list(self):
        xs = [self.expr()]
        while self.op(","):
            self.next()
            xs.append(self.expr())
        return xs

    # ---- expressions
    def expr(self):
        left = self.lambda_()
        return left

    def lambda_(self):
        e = self.logical()
        if self.op("->"):
            self.next()
            body = self.expr()
            return ("Sep", " -> ", [e, body])
        return e

    def logical(self):
        e = self.additive()
        if e[0] == "Paren":
            k, w = self.peek()
            if (k in ("op", "id")) and w in CMP and self.op("(", 1):
                fn = w
                cl = [e[1]]
                while self.peek() == (k, fn) and self.op("(", 1):
                    self.next()
                    nxt = self.additive()
                    if nxt[0] != "Paren":
                        raise ParseError("logical operand not parenthesised")
                    cl.append(nxt[1])
                return self.fix_dates(("LOp", CMP[fn], cl))
            return ("LOp", "OAnd", [e[1]])
        return e

    @staticmethod
    def fix_dates(e):
        _, fn, cl = e
        if len(cl) == 2 and cl[0] == ("Id", "date") and cl[1][0] == "StrV" and re.fullmatch(r"\d{4}-\d{2}-\d{2}", cl[1][1]):
            import datetime
            y, m, d = (int(x) for x in cl[1][1].split("-"))
            if y >= 1:
                try:
                    days = (datetime.date(y, m, d) - datetime.date(1970, 1, 1)).days
                    return ("LOp", fn, [cl[0], ("DateV", days)])
                except ValueError:
                    pass
        return e

    def additive(self):
        e = self.multiplicative()
        while (self.op("+") or self.op("-")) and not self.op("->"):
            o = self.next()[1]
            r = self.multiplicative()
            e = ("Sep", " %s " % o, [self.unparen(e), self.unparen(r)])
        return e

    def multiplicative(self):
        e = self.postfix()
        while self.op("*") or self.op("/") or self.op("%"):
            o = self.next()[1]
            r = self.postfix()
            e = ("Sep", " %s " % o, [self.unparen(e), self.unparen(r)])
        return e

    @staticmethod
    def unparen(e):
        if e[0] == "Paren":
            raise ParseError("parenthesised arithmetic operand")
        return e

    def postfix(self):
        e = self.atom()
        while True:
            if self.op("["):
                self.next()
                k = self.expr()
                self.expect("op", "]")
                base = e
                if e[0] == "Paren":
                    base = ("Sep", "", [("Raw", "("), e[1], ("Raw", ")")])
                e = ("Idx", base, k)
                continue
            if self.kw("IN"):
                self.next()
                self.expect("op", "(")
                items = []
                if self.kw("SELECT") or self.kw("WITH"):
                    # x IN ( SELECT .. ): the query written in place (fingerprintsQuery's exclusions)
                    saved = dict(self.ctes)
                    items = [("SubQ", self.select())]
                    self.ctes = saved
                elif not self.op(")"):
                    items = [self.in_item()]
                    while self.op(","):
                        self.next()
                        items.append(self.in_item())
                self.expect("op", ")")
                e = ("In", self.unparen(e), items)
                continue
            if self.kw("as") and e[0] != "SubQ" and self.inside_paren_as():
                self.next()
                kind, alias = self.next()
                e = ("Sep", " as ", [e, ("Id", alias)])
                continue
            break
        return e

    def inside_paren_as(self):
        # `(x as alias)[k]` : an alias definition inside an expression (only that form is emitted)
        return self.peek(1)[0] == "id" and self.op(")", 2) and self.op("[", 3)

    def in_item(self):
        e = self.expr()
        if self.kw("as") and e[0] == "SubQ":
            self.next()
            alias = self.next()[1]
            return ("WRef", alias, e[1])
        if e[0] == "Id" and e[1] in self.ctes:
            return ("WRef", e[1], self.ctes[e[1]])
        return e

    def atom(self):
        k, w = self.next()
        if k == "str":
            return ("StrV", unquote(w))
        if k == "num":
            if str(int(w)) != w:        # "%d000000" with 0 prints 0000000: kept as the spliced text it is (read back by lib/DecN.v)
                return ("Raw", w)
            return ("IntV", int(w))
        if k == "op" and w == "-" and self.peek()[0] == "num":
            return ("IntV", -int(self.next()[1]))
        if k == "op" and w == "(":
            if self.kw("SELECT") or self.kw("WITH"):
                saved = dict(self.ctes)
                q = self.select()
                self.ctes = saved
                self.expect("op", ")")
                return ("SubQ", q)
            inner = self.expr()
            self.expect("op", ")")
            return ("Paren", inner)
        if k == "id" and w not in KEYWORDS:
            if self.op("("):
                self.next()
                args = []
                if not self.op(")"):
                    args = self.expr_list()
                self.expect("op", ")")
                if w == "groupBitOr" and len(args) == 1:
                    cl = self.bitset(args[0])
                    if cl is not None:
                        return ("BitSetAnd", cl)
                return ("Fn", w, args)
            return ("Id", w)
        raise ParseError("unexpected token %s %r at %d" % (k, w, self.i))

    @staticmethod
    def bitset(e):
        parts = []
        while e[0] == "Sep" and e[1] == " + ":
            parts.insert(0, e[2][1])
            e = e[2][0]
        parts.insert(0, e)
        cl = []
        for i, p in enumerate(parts):
            # bitShiftLeft(toUInt64(<condition>), i)   (fix 052673d; SqlRender.bitset_parts prints this form)
            if p[0] == "Fn" and p[1] == "bitShiftLeft" and len(p[2]) == 2 and p[2][1] == ("IntV", i) \
                    and p[2][0][0] == "Fn" and p[2][0][1] == "toUInt64" and len(p[2][0][2]) == 1:
                cl.append(p[2][0][2][0])
            else:
                return None
        return cl


def parse_sql(text):
    p = Parser(text)
    q = p.select()
    if p.peek()[0] != "eof":
        raise ParseError("trailing tokens at %d: %s" % (p.i, p.t[p.i:p.i + 4]))
    return q


# ---------------------------------------------------------------------------------------------
# regular expressions: pattern text (RE2 syntax, the fragment of coq/model/PromRegex.v) -> re tree
# ---------------------------------------------------------------------------------------------
class ReUnsupported(Exception):
    pass


RE_META = set("\\.+*?()|[]{}^$")


def parse_regex(text):
    """the tree of model/PromRegex.v for a pattern of the fragment (literals, escaped metacharacters, `.`, `|`, `(..)`, `(?:..)`,
    one `* + ?` per atom, `^`, `$`); ReUnsupported otherwise. Not trusted: the model checks re_wf and re_print tree = text."""
    pos = 0
    n = len(text)

    def alt():
        nonlocal pos
        branches = [branch()]
        while pos < n and text[pos] == "|":
            pos += 1
            branches.append(branch())
        e = branches[-1]
        for b in reversed(branches[:-1]):
            e = ("RAlt", b, e)
        return e

    def branch():
        nonlocal pos
        items = []
        while pos < n and text[pos] not in "|)":
            items += item()
        if not items:
            return ("REps",)
        e = items[-1]
        for x in reversed(items[:-1]):
            e = ("RCat", x, e)
        return e

    def item():
        nonlocal pos
        ch = text[pos]
        if ch == "(":
            if text.startswith("(?:", pos):
                pos += 3
                kind = "RGrp"
            elif text.startswith("(?", pos):
                raise ReUnsupported("group flags")
            else:
                pos += 1
                kind = "RCap"
            body = alt()
            if pos >= n or text[pos] != ")":
                raise ReUnsupported("unclosed group")
            pos += 1
            atoms = [(kind, body)]
        elif ch == ".":
            pos += 1
            atoms = [("RAny",)]
        elif ch in "^$":
            pos += 1
            if pos < n and text[pos] in "*+?{":
                raise ReUnsupported("repeated anchor")
            return [("RBol",) if ch == "^" else ("REol",)]
        elif ch == "\\":
            if pos + 1 >= n or text[pos + 1] not in RE_META:
                raise ReUnsupported("escape")
            atoms = [("RChr", ord(text[pos + 1]))]
            pos += 2
        elif ch in RE_META:
            raise ReUnsupported("metacharacter " + ch)
        else:
            pos += 1
            atoms = [("RChr", b) for b in ch.encode("utf8", "surrogateescape")]
        if pos < n and text[pos] in "*+?":
            if len(atoms) != 1:
                raise ReUnsupported("repetition of a multi-byte character")
            atoms = [({"*": "RStar", "+": "RPlus", "?": "ROpt"}[text[pos]], atoms[0])]
            pos += 1
            if pos < n and text[pos] in "*+?":
                raise ReUnsupported("lazy / stacked repetition")
        if pos < n and text[pos] == "{":
            raise ReUnsupported("counted repetition")
        return atoms

    e = alt()
    if pos != n:
        raise ReUnsupported("unbalanced )")
    return e


def sx_re(e):
    if len(e) == 1:
        return e[0]
    if e[0] == "RChr":
        return "(RChr %d)" % e[1]
    return "(%s %s)" % (e[0], " ".join(sx_re(x) for x in e[1:]))


def regex_lines(cases, base):
    """one line per distinct pattern of the oracle tables of the cases: (pattern, [(value, search, full)])"""
    pats = {}
    for c in cases:
        tables = [c.get("oracle") or []] + [m.get("oracle") or [] for m in c.get("members") or []]
        for t in tables:
            for e in t:
                if e.get("anch"):
                    continue
                pats.setdefault(e["p"], {})[e["v"]] = (bool(e.get("search")), bool(e.get("full")))
    lines, index, outside = [], {}, []
    for k, (p, vals) in enumerate(sorted(pats.items())):
        try:
            tree = parse_regex(p)
        except (ReUnsupported, RecursionError) as ex:
            outside.append(p)
            continue
        vs = sorted(vals)
        index[base + k] = (p, vs, [vals[v] for v in vs])
        lines.append("(re %d %s %s %s)" % (base + k, sx_re(tree), sx_str(p), sx_list([sx_str(v) for v in vs])))
    return lines, index, outside


# ---------------------------------------------------------------------------------------------
# emission: one S-expression per case, read by ocaml/promsel_driver.ml
# atoms: decimal integers, t / f, none, constructor names, strings as h<hex bytes>
# ---------------------------------------------------------------------------------------------
def sx_str(s):
    b = s.encode("utf8", "surrogateescape") if isinstance(s, str) else s
    return "h" + b.hex()


def sx_bool(b):
    return "t" if b else "f"


def sx_list(xs):
    return "(" + " ".join(xs) + ")"


def sx_opt(x, f):
    return "none" if x is None else "(some %s)" % f(x)


def sx_expr(e):
    k = e[0]
    if k in ("Raw", "Id", "StrV"):
        return "(%s %s)" % (k, sx_str(e[1]))
    if k in ("IntV", "DateV"):
        return "(%s %d)" % (k, e[1])
    if k == "LOp":
        return "(LOp %s %s)" % (e[1], sx_list([sx_expr(x) for x in e[2]]))
    if k == "In":
        return "(In %s %s)" % (sx_expr(e[1]), sx_list([sx_expr(x) for x in e[2]]))
    if k == "WRef":
        return "(WRef %s %s)" % (sx_str(e[1]), sx_select(e[2]))
    if k == "Col":
        return "(Col %s %s)" % (sx_expr(e[1]), sx_str(e[2]))
    if k == "Ord":
        return "(Ord %s %s)" % (sx_expr(e[1]), sx_bool(e[2]))
    if k in ("Fn", "Sep"):
        return "(%s %s %s)" % (k, sx_str(e[1]), sx_list([sx_expr(x) for x in e[2]]))
    if k == "Idx":
        return "(Idx %s %s)" % (sx_expr(e[1]), sx_expr(e[2]))
    if k == "BitSetAnd":
        return "(BitSetAnd %s)" % sx_list([sx_expr(x) for x in e[1]])
    if k == "SubQ":
        return "(SubQ %s)" % sx_select(e[1])
    if k == "Paren":
        raise ParseError("stray parenthesised expression")
    raise ParseError("cannot emit " + k)


def sx_select(q):
    return sx_list([sx_bool(q["distinct"]), sx_list([sx_expr(x) for x in q["cols"]]), sx_opt(q["from"], sx_expr),
                    sx_opt(q["where"], sx_expr), sx_opt(q["prewhere"], sx_expr), sx_opt(q["having"], sx_expr),
                    sx_list([sx_expr(x) for x in q["groupby"]]), sx_list([sx_expr(x) for x in q["orderby"]]),
                    sx_opt(q["limit"], sx_expr), sx_opt(q["offset"], sx_expr),
                    sx_list(["(%s %s)" % (sx_str(a), sx_select(w)) for a, w in q["withs"]])])


OPS = {"=": "MEq", "!=": "MNeq", "=~": "MRe", "!~": "MNre"}


def sx_hints(h):
    return "(%d %d %d %s %d)" % (h["start"], h["end"], h["step"], sx_str(h["func"]), h["range"])


def sx_matchers(ms):
    return sx_list(["(%s %s %s)" % (sx_str(m["n"]), OPS[m["op"]], sx_str(m["v"])) for m in ms or []])


def sx_empty_table(ms):
    """labels.Matcher.Matches("") of the regex matchers, as the table (pattern, "", anchored match) the planner model asks"""
    out = {}
    for m in ms or []:
        if m["op"] in ("=~", "!~") and "e" in m:
            out[m["v"]] = m["e"] if m["op"] == "=~" else not m["e"]
    return sx_list(["(%s %s %s)" % (sx_str(p), sx_str(""), sx_bool(b)) for p, b in sorted(out.items())])


def sx_ctx(c, t):
    return "(%d %d %d %s %d %s %s %s %s %s)" % (c["from_ns"], c["to_ns"], c["limit"], sx_bool(c["cluster"]), c["type"],
                                                sx_str(t["gin"]), sx_str(t["samples"]), sx_str(t["ts"]), sx_str(t["ts_dist"]), sx_str(t["m15"]))


def sx_labels(l):
    return sx_list(["(%s %s)" % (sx_str(k), sx_str(v)) for k, v in l or []])


def sx_db(db):
    gin, ts, spl = [], [], []
    for s in db["series"]:
        for d in s["days"]:
            ts.append("(%d %d %d %s)" % (d, s["fp"], s["type"], sx_labels(s["labels"])))
            for k, v in s["labels"]:
                gin.append("(%d %s %s %d %d)" % (d, sx_str(k), sx_str(v), s["fp"], s["type"]))
    for x in db["samples"] or []:
        spl.append("(%d %d %d %d)" % (x["fp"], x["type"], x["ts_ns"], x["value"]))
    return sx_list([sx_list(gin), sx_list(spl), sx_list(ts)])


# ---------------------------------------------------------------------------------------------
def first_diff(a, b):
    if a is None or b is None:
        return "model=%r impl=%r" % (a if a is None else a[:80], b if b is None else b[:80])
    k = 0
    while k < min(len(a), len(b)) and a[k] == b[k]:
        k += 1
    return "at byte %d: model ...%r  impl ...%r" % (k, a[max(0, k - 50):k + 70], b[max(0, k - 50):k + 70])


def sort_in_list(text):
    """labelsGetter iterates a Go map: canonicalise the order of the fingerprint IN list"""
    m = re.search(r"\(fingerprint IN \(([0-9,]*)\)\)", text)
    if not m:
        return text, []
    fps = sorted(int(x) for x in m.group(1).split(",") if x)
    return text[:m.start(1)] + ",".join(str(x) for x in fps) + text[m.end(1):], fps


VERDICTS = {1: "the parse of the implementation's SQL does not render back to its text",
            2: "the reference interpreter has no value for the implementation's SQL",
            3: "model tree and implementation SQL select different rows on this database",
            4: "rows selected differ from the Prometheus meaning of the matchers",
            5: "absent-label", 7: "more-than-63-matchers", 8: "no-matcher",
            10: "step-bucket-off-grid", 11: "range-filter-off-grid", 12: "step-bucket-staleness-edge",
            9: "list-function reading and interpreter disagree on the model tree"}


def slim(c):
    """a replayable case: inputs only"""
    if c.get("multi"):      # replay the whole run on one querier
        return {"id": c["parent"], "kind": "multi", "class": c.get("class"), "ctx": c["ctx"], "ldb": c.get("ldb"),
                "calls": [{"hints": x["hints"], "ms": x.get("ms"), "rows": x.get("rows")} for x in c.get("calls") or []], "failing_call": c["call"]}
    keep = ("id", "kind", "sub", "class", "hints", "ctx", "ms", "query", "rows", "fetch", "db", "pdb", "sort_series", "members")
    return {k: c[k] for k in keep if k in c and c[k] is not None}


def lookback_tie(ck):
    """the look-back the model states (PromCase.lookback_ms = 300000 ms) is the one the engine of /api/v1/query(_range) runs with:
    prometheusQueryRangeRouter.go passes EngineOpts.LookbackDelta = 0 and the engine of the pinned Prometheus module turns 0
    into defaultLookbackDelta = 5 * time.Minute (theorem promql_over_raw_samples_any_lookback covers any other value)"""
    import vcheck
    try:
        router = open(os.path.join(vcheck.REPO, "reader", "router", "prometheusQueryRangeRouter.go")).read()
    except OSError as ex:
        ck.obligation("look-back tie: prometheusQueryRangeRouter.go readable", False, str(ex))
        return
    vals = re.findall(r"LookbackDelta:\s*([^,\n]+),", router)
    rc, out = vcheck.sh(["go", "list", "-m", "-f", "{{.Dir}}", "github.com/prometheus/prometheus"], cwd=vcheck.REPO, env=vcheck.go_env(), timeout=120)
    moddir = out.strip().splitlines()[-1] if rc == 0 and out.strip() else ""
    default, zero_rule = None, False
    try:
        eng = open(os.path.join(moddir, "promql", "engine.go")).read()
        m = re.search(r"defaultLookbackDelta\s*=\s*(\d+)\s*\*\s*time\.Minute", eng)
        default = int(m.group(1)) * 60000 if m else None
        zero_rule = re.search(r"if opts\.LookbackDelta == 0 \{\s*opts\.LookbackDelta = defaultLookbackDelta", eng) is not None
    except OSError:
        pass
    ck.extra["lookback"] = {"router_LookbackDelta": vals, "engine_default_ms": default, "zero_means_default": zero_rule}
    ck.obligation("look-back tie: the router builds the PromQL engine with LookbackDelta 0 and the pinned engine reads 0 as its 5 min default = PromCase.lookback_ms (300000 ms)",
                  vals == ["0"] and default == 300000 and zero_rule,
                  "router passes %s, engine default %s ms, zero rule %s" % (vals, default, zero_rule))


def run(ck):
    lookback_tie(ck)
    ck.trusted += [
        "C17 selection: coq/model/PromSem.v is the reading of ClickHouse semantics (comparison/IN/match = RE2 search/intDiv/bitShiftLeft on UInt8/groupBitOr/alias visibility) relative to which prom_select_exact* and prof_select_exact* are stated; no ClickHouse runs in the sandbox",
        "C17 selection: regular-expression matching (RE2 search for ClickHouse match(), anchored match for Prometheus) is an oracle: Section variables in the theorems, Go regexp / labels.Matcher tables in the correspondence",
        "C17 selection: checks/promsel.py parses the implementation's SQL text into a Sql.v tree; the parse is validated per case by rendering it back with the model renderer (byte equality)",
        "C17 Select loop: labels.Hash() (xxhash of the label list, ReshuffleSeries' key since fix 3acbc45) is treated as injective on label lists; sort.Slice instability on ties is canonicalised away",
    ]
    ok, out = ck.coq_make(["model/PromCase.vo", "model/ProfSel.vo", "model/PromDown.vo", "model/PromSelDup.vo"])
    if not ok:
        ck.obligation("selection models build", False, out[-1500:])
        return
    if not ck.go_build("promsel"):
        ck.obligation("harness promsel builds against the repository", False, ck.build_out[-1500:])
        return
    n = ck.n(900, 20000)
    cases = []
    corpus = os.path.join(VERIF, "corpus", "C17", "promsel.jsonl")
    if os.path.exists(corpus):
        outp = os.path.join(ck.work, "promsel_corpus.jsonl")
        rc, out = ck.go_run("promsel", ["--cases", corpus, "--out", outp], env_extra={"TZ": "UTC"})
        if rc != 0:
            ck.obligation("harness promsel ran the corpus", False, out[-1500:])
            return
        for i, ln in enumerate(open(outp)):
            c = json.loads(ln)
            c["id"] = 1000000 + i
            c["class"] = (c.get("class") or []) + ["corpus"]
            cases.append(c)
    outp = os.path.join(ck.work, "promsel.jsonl")
    rc, out = ck.go_run("promsel", ["--seed", ck.seed, "--n", n, "--out", outp], timeout=1800, env_extra={"TZ": "UTC"})
    if rc != 0:
        ck.obligation("harness promsel ran", False, out[-1500:])
        return
    cases += [json.loads(ln) for ln in open(outp)]
    shard = 1500
    for k in range(0, len(cases), shard):
        if not run_shard(ck, cases[k:k + shard], k // shard):
            return
    coverage(ck, cases)
    from checks import promeng          # end to end through the real PromQL engine (a test)
    promeng.run(ck)


def expand_multi(cases):
    """every Select of a multi-Select run on one querier becomes a querier-like case judged on ITS OWN hints"""
    out = []
    for c in cases:
        if c["kind"] != "multi":
            continue
        for k, call in enumerate(c.get("calls") or []):
            h = call["hints"]
            lab = call.get("sql_labels") or []
            out.append({"id": 10000000 + c["id"] * 16 + k, "kind": "querier", "multi": True, "call": k, "parent": c["id"],
                        "class": (c.get("class") or []) + ["multi"], "hints": h, "ms": call.get("ms") or [],
                        "ctx": {"from_ns": h["start"] * 10**6, "to_ns": h["end"] * 10**6, "limit": 0, "type": 2, "cluster": c["ctx"]["cluster"]},
                        "tables": c.get("tables"), "rows": call.get("rows") or [], "fetch": [], "obs": call.get("obs") or [],
                        "ldb": c.get("ldb") or [], "sql": call.get("sql") or "", "sql_labels": lab[0] if lab else "",
                        "labels_statements": len(lab), "err": call.get("err") or c.get("err"), "calls": c.get("calls")})
    return out


def paren_body(text, start):
    """text[start] is '(' : the text up to its closing parenthesis (SQL strings '..' with backslash escapes skipped), or None"""
    depth, i, n = 0, start, len(text)
    while i < n:
        ch = text[i]
        if ch == "'":
            i += 1
            while i < n and text[i] != "'":
                i += 2 if text[i] == "\\" else 1
        elif ch == "(":
            depth += 1
        elif ch == ")":
            depth -= 1
            if depth == 0:
                return text[start + 1:i]
        i += 1
    return None


def expand_pseries(cases):
    """a profile Series request with several matchers (PlanSeries): the statement must hold, per matcher i, the WITH `fp_i`
    whose body is that matcher's own selector statement, and exactly one UNION ALL member reading `fp_i`; each extracted
    body becomes a profile case of its own (text tie + reference interpreter + Pyroscope meaning on the case's database)"""
    out = []
    for c in cases:
        ms = c.get("members") or []
        if c["kind"] != "prof" or len(ms) < 2 or c.get("err") or not c.get("series_sql"):
            continue
        text = c["series_sql"]
        problems = []
        if text == "!error" or any(m.get("err") for m in ms):
            problems.append("PlanSeries or a member failed: %s" % [m.get("err") for m in ms])
            c["series_problems"] = problems
            continue
        if all(not (m.get("sels") or []) for m in ms):
            # no selector at all ({} , {}): PlanSeries answers with AllTimeSeriesSelectPlanner, every stored series of the date
            # range, without any fingerprint condition (correct: the empty selector is satisfied by every series)
            if "fingerprint IN" in text or " UNION ALL " in text:
                problems.append("a Series request without any selector restricts fingerprints")
            c["series_problems"] = problems
            continue
        if text.count("p.fingerprint IN (") != len(ms) or text.count(" UNION ALL ") != len(ms) - 1:
            problems.append("%d readers of a fingerprint alias, %d UNION ALL for %d matchers" % (
                text.count("p.fingerprint IN ("), text.count(" UNION ALL "), len(ms)))
        for i, m in enumerate(ms):
            head = "fp_%d as (" % i
            at = text.find(head)
            body = paren_body(text, at + len(head) - 1) if at >= 0 else None
            if body is None:
                problems.append("no WITH fp_%d" % i)
                continue
            if body != m["sql"]:
                problems.append("WITH fp_%d is not the selector statement of matcher %d (%s): %s" % (i, i, m["query"], first_diff(body.encode(), m["sql"].encode())))
            if text.count("(p.fingerprint IN (fp_%d))" % i) != 1:
                problems.append("fp_%d is read by %d members" % (i, text.count("(p.fingerprint IN (fp_%d))" % i)))
            out.append({"id": 100000000 + c["id"] * 4 + i, "kind": "prof", "class": (c.get("class") or []) + ["series-member"],
                        "ctx": c["ctx"], "tables": c.get("tables"), "sels": m.get("sels") or [], "pdb": c.get("pdb"),
                        "oracle": m.get("oracle") or [], "sql": body, "query": m["query"], "parent": c["id"], "member": i})
        c["series_problems"] = problems
    return out


def fp_functional(c):
    """the hypothesis db_ok / pdb_ok of the exactness theorems: among the (metric) series rows of the case's database one
    fingerprint stands for one label set (the generators draw small fingerprints on purpose: collisions are legitimate inputs of
    the text / interpreter ties, but the statements work per fingerprint and the specification per stored series)"""
    seen = {}
    if c["kind"] == "prof":
        rows = [(p["fp"], p.get("labels") or []) for p in c.get("pdb") or []]
    else:
        rows = [(s0["fp"], s0.get("labels") or []) for s0 in (c.get("db") or {}).get("series") or [] if s0.get("type") in (2, 0)]
    for fp, l in rows:
        key = json.dumps(sorted(l))
        if seen.setdefault(fp, key) != key:
            return False
    return True


MATCH_RE = re.compile(r"match\([A-Za-z_.]+, '((?:[^'\\]|\\.)*)'\)")


def statement_patterns(c):
    return sorted(set(unquote("'" + m + "'") for m in MATCH_RE.findall(c.get("sql") or "")))


def gap_line(c):
    """match() patterns of the implementation's statement that the case's oracle table (made by Go for the patterns the
    CORRECT planner builds) does not hold: for patterns of the PromRegex.v fragment the extracted model computes re_search on
    every string of the case's database (the driver validates the parse: re_wf, re_print = text); without this the
    interpreter answers `false` for them and a changed wrapper text can only be reported as no-failing-input-found"""
    known_p = {e["p"] for e in c.get("oracle") or []}
    items = []
    for p in statement_patterns(c):
        if p in known_p:
            continue
        try:
            items.append((p, parse_regex(p)))
        except (ReUnsupported, RecursionError, IndexError):
            continue
    if not items:
        return None
    vals = {""}
    if c.get("db"):
        for s0 in c["db"].get("series") or []:
            vals.update(v for _, v in s0["labels"])
    for p0 in c.get("pdb") or []:
        vals.update(v for _, v in (p0.get("labels") or []))
        vals.update(v for _, v in (p0.get("stu") or []))
        vals.update([p0["service"], p0["type_id"]] + p0["type_id"].split(":"))
    c["gap_patterns"] = [p for p, _ in items]
    return "(gap %d %s %s)" % (c["id"], sx_list(["(%s %s)" % (sx_str(p), sx_re(t)) for p, t in items]), sx_list([sx_str(v) for v in sorted(vals)]))


def run_shard(ck, cases, idx):
    cases = cases + expand_multi(cases) + expand_pseries(cases)
    byid = {c["id"]: c for c in cases}
    lines = []
    parse_failures = []
    for c in cases:
        cid = c["id"]
        t = c.get("tables")
        if c["kind"] == "sql" and t:
            lines.append("(sql %d %s %s %s %s %s)" % (cid, {"raw": "KRaw", "down": "KDownsample"}[c["sub"]], sx_hints(c["hints"]),
                                                      sx_ctx(c["ctx"], t), sx_matchers(c.get("ms")), sx_empty_table(c.get("ms"))))
        if c["kind"] == "querier" and t:
            lines.append("(sql %d KQuerier %s %s %s %s)" % (cid, sx_hints(c["hints"]), sx_ctx(c["ctx"], t), sx_matchers(c.get("ms")),
                                                            sx_empty_table(c.get("ms"))))
        if c["kind"] == "prof" and t and c.get("err") not in ("parse", "unquote"):
            lines.append("(prof %d %s %d %d %s %s %s)" % (cid, sx_str(t["prof_gin"]), c["ctx"]["from_ns"], c["ctx"]["to_ns"], sx_bool(c["ctx"]["cluster"]),
                                                          sx_list(["(%s %s %s)" % (sx_str(x["n"]), OPS[x["op"]], sx_str(x["v"])) for x in c.get("sels") or []]),
                                                          sx_empty_table(c.get("sels"))))
        if c["kind"] == "prof" and t and not c.get("err") and c.get("pdb"):
            try:
                tree = sx_select(parse_sql(c["sql"]))
            except (ParseError, IndexError, RecursionError) as ex:
                parse_failures.append((c, str(ex)))
                tree = None
            if tree:
                orc = c.get("oracle") or []
                g = gap_line(c)
                if g:
                    lines.append(g)
                lines.append("(psem %d %s %s %d %d %s %s %s %s %s %s)" % (
                    cid, sx_bool(c["ctx"]["cluster"]), sx_str(t["prof_gin"]), c["ctx"]["from_ns"], c["ctx"]["to_ns"],
                    sx_list(["(%s %s %s)" % (sx_str(x["n"]), OPS[x["op"]], sx_str(x["v"])) for x in c.get("sels") or []]),
                    sx_list(["(%d %d %s %s %s %s)" % (p["fp"], p["day"], sx_str(p["type_id"]), sx_str(p["service"]),
                                                     sx_labels(p.get("stu")), sx_labels(p.get("labels"))) for p in c["pdb"]]),
                    tree, sx_str(c["sql"]),
                    sx_list(["(%s %s %s)" % (sx_str(e["p"]), sx_str(e["v"]), sx_bool(e["search"])) for e in orc]),
                    sx_list(["(%s %s %s)" % (sx_str(e["p"]), sx_str(e["v"]), sx_bool(e["full"])) for e in orc if not e.get("anch")])))
        if c["kind"] == "querier" and not c.get("err"):
            h = c["hints"]
            cl = sx_bool(c["ctx"]["cluster"])
            sx_rows = sx_list(["(%d %d %d)" % (r["fp"], r["val"], r["ts"]) for r in c.get("rows") or []])
            sx_obs = sx_list(["(%s %d %s)" % (sx_labels(o["labels"]), o["fp"], sx_list(["(%d %d)" % (a, b) for a, b in o["samples"]]))
                              for o in c.get("obs") or []])
            if c.get("multi"):
                series = sx_list(["(%d %d %d %s)" % (d, s0["fp"], 1 if s0.get("log") else 2, sx_labels(s0["labels"])) for s0 in c["ldb"] for d in s0["days"]])
                lines.append("(msel %d %s %s %s %s %s %s)" % (cid, cl, sx_hints(h), sx_matchers(c.get("ms")), sx_rows, series, sx_obs))
            else:
                lines.append("(sel %d %s %s %s %s %s %s)" % (
                    cid, cl, sx_hints(h), sx_matchers(c.get("ms")), sx_rows,
                    sx_list(["(%d %s)" % (f["fp"], sx_labels(f["labels"])) for f in c.get("fetch") or []]), sx_obs))
            if c.get("sql_labels"):
                canon, fps = sort_in_list(c["sql_labels"])
                c["sql_labels_canon"] = canon
                lines.append("(lbl %d %s %s %d %d)" % (cid, cl, sx_list([str(f) for f in fps]), h["start"], h["end"]))
            # a matcher set without a matcher that rejects "" (the empty set, {env!="prod"}, ..) is refused by the PromQL
            # parser; the planner renders `or ()` for it: not SQL (text tie only)
            if "samples_v3" in c["sql"] and c.get("db") and any(not m.get("e") for m in c.get("ms") or []):
                try:
                    tree = sx_select(parse_sql(c["sql"]))
                except (ParseError, IndexError, RecursionError) as ex:
                    parse_failures.append((c, str(ex)))
                    continue
                orc = c.get("oracle") or []
                g = gap_line(c)
                if g:
                    lines.append(g)
                lines.append("(sem %d %s %s %s %s %s %s %s %s)" % (
                    cid, cl, sx_hints(h), sx_matchers(c.get("ms")), sx_db(c["db"]), tree, sx_str(c["sql"]),
                    sx_list(["(%s %s %s)" % (sx_str(e["p"]), sx_str(e["v"]), sx_bool(e["search"])) for e in orc]),
                    sx_list(["(%s %s %s)" % (sx_str(e["p"]), sx_str(e["v"]), sx_bool(e["full"])) for e in orc if not e.get("anch")])))
            # the down-sampled path (metrics_15s derived from the case's samples as the materialized view does): outside the
            # property's quantifier, judged against the model's own tree and the list reading only (PromDown.down_verdict)
            if "metrics_15s" in c["sql"] and c.get("db") and any(not m.get("e") for m in c.get("ms") or []):
                try:
                    tree = sx_select(parse_sql(c["sql"]))
                except (ParseError, IndexError, RecursionError) as ex:
                    parse_failures.append((c, str(ex)))
                    continue
                orc = c.get("oracle") or []
                g = gap_line(c)
                if g and not any(ln.startswith("(gap %d " % cid) for ln in lines[-3:]):
                    lines.append(g)
                lines.append("(down %d %s %s %s %s %s %s %s %s)" % (
                    cid, cl, sx_hints(h), sx_matchers(c.get("ms")), sx_db(c["db"]), tree, sx_str(c["sql"]),
                    sx_list(["(%s %s %s)" % (sx_str(e["p"]), sx_str(e["v"]), sx_bool(e["search"])) for e in orc]),
                    sx_list(["(%s %s %s)" % (sx_str(e["p"]), sx_str(e["v"]), sx_bool(e["full"])) for e in orc if not e.get("anch")])))
    re_lines, re_index, re_outside = regex_lines(cases, 2000000000)
    lines += re_lines
    data = os.path.join(ck.work, "promsel_cases_%d.sx" % idx)
    with open(data, "w") as f:
        f.write("\n".join(lines) + "\n")
    rc, out = ck.ocaml_eval("promsel", "ExtractPromSel.v", "promsel", 'let data_file = "%s"\n' % data, "promsel_driver.ml")
    if rc != 0 and "extraction failed" in out:
        # a shared model (LogqlPlan.v, Sql.v) was rebuilt by a concurrent run between two shards: rebuild ours and retry once
        ck.coq_make(["model/PromCase.vo", "model/ProfSel.vo", "model/PromDown.vo", "model/PromSelDup.vo"])
        rc, out = ck.ocaml_eval("promsel", "ExtractPromSel.v", "promsel", 'let data_file = "%s"\n' % data, "promsel_driver.ml")
    if rc != 0:
        ck.obligation("selection cases evaluated by the extracted models", False, out[-2500:])
        return False
    res = {"sql": {}, "prof": {}, "lbl": {}, "sel": {}, "sem": {}, "psem": {}, "down": {}, "re": {}, "gap": {}}
    for ln in out.splitlines():
        p = ln.split()
        if len(p) >= 3 and p[0] in res:
            res[p[0]][int(p[1])] = p[2:]

    def dec(x):
        return None if x == "-" else bytes.fromhex(x)

    # statement patterns answered by the regex model instead of the Go-made table (only a changed planner produces them)
    for cid, v in res["gap"].items():
        c = byid[cid]
        c["gap_computed"] = [p for p, ok in zip(c.get("gap_patterns") or [], v) if ok == "1"]
        ck.extra["statement_patterns_answered_by_regex_model"] = ck.extra.get("statement_patterns_answered_by_regex_model", 0) + len(c["gap_computed"])

    # ---- 0. the regular-expression reading model/PromRegex.v against Go's regexp and labels.Matcher
    re_bad, re_pairs = [], 0
    for rid, (p, vs, want) in re_index.items():
        got = res["re"].get(rid)
        if got is None or got[0] != "1":
            re_bad.append({"pattern": p, "problem": "the parse of the pattern is not well-formed or does not print back to its text"})
            continue
        for v, w, g in zip(vs, want, got[1:]):
            re_pairs += 1
            if (g[0] == "1", g[1] == "1") != w:
                re_bad.append({"pattern": p, "value": v, "model_search": g[0] == "1", "go_regexp_MatchString": w[0],
                               "model_prometheus": g[1] == "1", "go_anchored_match": w[1]})
    st = ck.extra.setdefault("regex_model_tie", {"patterns_in_fragment": 0, "pairs": 0, "patterns_outside_fragment": {}})
    st["patterns_in_fragment"] += len(re_index)
    st["pairs"] += re_pairs
    for p in re_outside:
        st["patterns_outside_fragment"][p] = st["patterns_outside_fragment"].get(p, 0) + 1
    ck.obligation("regular-expression model PromRegex.v = Go regexp.MatchString (search) and labels.Matcher.Matches / ^(?:v)$ (Prometheus) on %d "
                  "(pattern, label value) pairs of %d generated patterns of the fragment (%d patterns outside it: classes, \\d)" % (re_pairs, len(re_index), len(set(re_outside))),
                  not re_bad, json.dumps(re_bad[:3]))
    if re_bad:
        ck.violation({"property": "C17", "part": "regex-model", "kind": "the regular-expression reading of the model and Go's regexp disagree",
                      "witness": re_bad[0], "replay": "regexp.MatchString(pattern, value) / labels.NewMatcher(MatchRegexp, n, pattern).Matches(value) against PromRegex.re_search / re_prom"},
                     no_input="value" not in re_bad[0])

    # ---- 1. SQL text
    mism = []
    nsql = 0
    for c in cases:
        cid = c["id"]
        if c["kind"] in ("sql", "querier") and cid in res["sql"]:
            if c.get("err") in ("matcher",):
                continue
            nsql += 1
            want = None if c.get("err") in ("process", "panic") else c["sql"].encode("utf8", "surrogateescape")
            if c["kind"] == "querier" and c.get("err"):
                mism.append((c, "Select failed: %s %s" % (c["err"], c.get("err_text", "")[:200])))
                continue
            got = dec(res["sql"][cid][0])
            if got != want:
                mism.append((c, first_diff(got, want)))
            elif c["kind"] == "sql" and (res["sql"][cid][1] == "1") != bool(c.get("map_result")):
                mism.append((c, "MapResult installed: model %s impl %s" % (res["sql"][cid][1], c.get("map_result"))))
        if c["kind"] == "prof" and cid in res["prof"]:
            nsql += 1
            want = None if c.get("err") in ("process", "panic") else c["sql"].encode("utf8", "surrogateescape")
            got = dec(res["prof"][cid][0])
            if got != want:
                mism.append((c, first_diff(got, want)))
        if c.get("multi") and not c.get("err"):
            want_n = 1 if c.get("rows") else 0
            if c.get("labels_statements") != want_n:
                mism.append((c, "call %d of a multi-Select run sent %d labels requests, its own rows need %d" % (c["call"], c.get("labels_statements"), want_n)))
        if cid in res["lbl"]:
            nsql += 1
            got = dec(res["lbl"][cid][0])
            want = c["sql_labels_canon"].encode("utf8", "surrogateescape")
            if got != want:
                mism.append((c, "labels request " + first_diff(got, want)))
    ck.obligation("correspondence: render(model planners) = SQL text of TranspileLabelMatchers / Downsample / Select / labelsGetter / profile selector, byte for byte, on %d statements" % nsql,
                  not mism, "; ".join("%s %s %s => %s" % (c["kind"], c.get("hints") or c.get("query"), c.get("ms"), d) for c, d in mism[:3]))
    ser = [c for c in cases if "series_problems" in c]
    if ser:
        bad_ser = [c for c in ser if c["series_problems"]]
        ck.obligation("multi-matcher profile Series requests (PlanSeries, %d requests with 2-3 matchers): every matcher has its own WITH fp_i = its "
                      "selector statement byte for byte, read by exactly one UNION ALL member (each body is then judged like a selector of its own)" % len(ser),
                      not bad_ser, "; ".join("%s: %s" % ([m["query"] for m in c["members"]], c["series_problems"][:2]) for c in bad_ser[:3]))
        if bad_ser:
            ck.violation({"property": "C17", "part": "prof-series", "kind": "a matcher of a multi-matcher Series request does not read its own fingerprints",
                          "case": slim(bad_ser[0]), "problems": bad_ser[0]["series_problems"], "statement": bad_ser[0].get("series_sql"),
                          "replay": "harness promsel --cases <file with the case line>"})
        ck.extra["prof_series_requests"] = ck.extra.get("prof_series_requests", 0) + len(ser)
    PSEUDO = ("__name__", "__period_type__", "__period_unit__", "__sample_type__", "__sample_unit__", "__profile_type__", "service_name")
    nabs = len([c for c in cases if c["kind"] == "prof" and any(x.get("e") and x["n"] not in PSEUDO for x in c.get("sels") or [])])
    ck.extra["prof_selectors_accepting_absent_label"] = ck.extra.get("prof_selectors_accepting_absent_label", 0) + nabs
    ck.extra.setdefault("promsel_sql_mismatches", [])
    ck.extra["promsel_sql_mismatches"] += [{"case": slim(c), "diff": d} for c, d in mism[:10]]

    # ---- 2. Select assembly
    sel_m = [byid[i] for i, v in res["sel"].items() if v[0] == "1"]
    sel_v = [byid[i] for i, v in res["sel"].items() if v[1] == "1"]
    ck.obligation("correspondence: model PromSelect.select_series = series assembled by CLokiQuerier.Select on %d row sets" % len(res["sel"]),
                  not sel_m, "mismatching case ids: %s" % [c["id"] for c in sel_m[:10]])
    # the specification is claimed for fingerprint-contiguous rows; label sets shared by several fingerprints
    # (or fingerprints without an answered labels row, which all get the empty label set) are judged by select_dup_ok
    hard = []
    for cid, v in res["sel"].items():
        c = byid[cid]
        cl = c.get("class") or []
        if "rows-shuffled" in cl:
            continue          # outside the ORDER BY guarantee of the SQL: the model comparison covers it
        if "dup-labels" in cl or "labels-missing" in cl:
            if v[2] == "1":
                hard.append(c)
        elif v[1] == "1":
            hard.append(c)
    known = ck.known_findings()
    ck.obligation("spec oracle select_spec_ok accepts every series set observed from Select (contiguous rows, distinct label sets; label set under several fingerprints: PromSelDup.select_dup_exact_ok)",
                  not hard, "violating case ids: %s" % [c["id"] for c in hard[:10]])
    if hard:
        worst = min(hard, key=lambda c: (len(c.get("rows") or []), len(json.dumps(c.get("fetch") or []))))
        ck.violation({"property": "C17", "part": "select", "kind": "Select's series set violates the specification: every fingerprint once, with exactly its rows in order, under its own labels, sorted"
                      " (label set under several fingerprints: one series carrying exactly the rows of those fingerprints, ascending; PromSelDup.select_dup_exact_ok)",
                      "case": slim(worst), "observed": worst.get("obs"),
                      "series_not_carrying_their_own_samples (row level: before MapResult, if the hints install one)": own_samples_report(worst),
                      "replay": "harness promsel --cases <file with the case line>"})
    elif sel_m:
        worst = min(sel_m, key=lambda c: len(c.get("rows") or []))
        ck.violation({"property": "C17", "part": "select", "kind": "model/implementation disagree on the assembled series; specification met",
                      "case": slim(worst), "observed": worst.get("obs")}, no_input=True)

    # ---- 3. the implementation's SQL under the reference interpreter
    bad = {k: [] for k in (1, 2, 3, 4, 9)}
    explained = {5: 0, 7: 0, 8: 0, 10: 0, 11: 0, 12: 0}
    for cid, v in list(res["sem"].items()) + list(res["psem"].items()) + list(res["down"].items()):
        code = int(v[0])
        if code == 4 and not fp_functional(byid[cid]):
            # outside the hypothesis of prom_select_exact* / prof_select_exact (one fingerprint, two label sets): not judged
            ck.extra["spec_not_judged_fingerprint_collision_in_database"] = ck.extra.get("spec_not_judged_fingerprint_collision_in_database", 0) + 1
            continue
        if code in bad:
            bad[code].append(byid[cid])
        elif code in explained:
            explained[code] += 1
            fid = {5: "absent-label-not-selected", 7: "more-than-63-matchers", 8: None, 10: "step-bucket-off-grid",
                   11: "range-filter-off-grid", 12: "step-bucket-staleness-edge"}[code]
            if byid[cid]["kind"] == "prof" and fid:
                fid = "prof-" + fid
            if fid and fid in known:
                ck.report_known(fid, known[fid])
            elif fid:
                bad[4].append(byid[cid])
    for c, ex in parse_failures:
        bad[1].append(c)
    ck.extra["promsel_sem_explained"] = {VERDICTS[k]: v + ck.extra.get("promsel_sem_explained", {}).get(VERDICTS[k], 0) for k, v in explained.items()}
    nsem = len(res["sem"]) + len(res["psem"]) + len(res["down"]) + len(parse_failures)
    ck.extra["downsampled_statements_interpreted"] = ck.extra.get("downsampled_statements_interpreted", 0) + len(res["down"])
    ck.extra["downsampled_statements_with_rows"] = ck.extra.get("downsampled_statements_with_rows", 0) + len([1 for v in res["down"].values() if int(v[1]) > 0])
    ck.obligation("the implementation's SQL parses and renders back to its text (%d statements)" % nsem, not bad[1],
                  "; ".join(str(x) for x in ([ex for _, ex in parse_failures[:2]] + [c["id"] for c in bad[1][:5]])))
    ck.obligation("the reference interpreter evaluates the implementation's SQL", not bad[2], "case ids: %s" % [c["id"] for c in bad[2][:10]])
    ck.obligation("model tree and implementation SQL select the same rows under the reference interpreter", not bad[3],
                  "case ids: %s" % [c["id"] for c in bad[3][:10]])
    ck.obligation("rows / fingerprints selected by the implementation's SQL = Prometheus / Pyroscope meaning of the matchers on the generated database (outside the recorded causes)",
                  not bad[4], "case ids: %s" % [c["id"] for c in bad[4][:10]])
    ck.obligation("list-function readings (prof_fp_sel, bucket_series, range_filter) = interpreter on the statements", not bad[9],
                  "case ids: %s" % [c["id"] for c in bad[9][:10]])
    for code in (4, 3, 9):
        if bad[code]:
            def size(c):
                if c["kind"] == "prof":
                    return (len(c.get("sels") or []), len(c.get("pdb") or []), 0)
                return (len(c.get("ms") or []), len(c["db"].get("series") or []), len(c["db"].get("samples") or []))
            # a pattern inside the implementation's match() that the case's oracle table does not hold is answered `false` by
            # the interpreter (a default, not RE2's answer): prefer a failing case without such a pattern; if every one has
            # it, the matcher set + database are still printed, but the replay is not claimed to be a failing input
            def oracle_gap(c):
                known_p = {e["p"] for e in c.get("oracle") or []} | set(c.get("gap_computed") or [])
                return [x for x in statement_patterns(c) if x not in known_p]
            worst = min(bad[code], key=lambda c: (bool(oracle_gap(c)),) + size(c))
            gap = oracle_gap(worst)
            if gap:
                ck.log("the failing statements carry match() patterns outside the oracle table (answered false by default): %s" % gap[:3])
            ck.violation({"property": "C17", "part": "selection", "kind": VERDICTS[code], "patterns_outside_oracle_table": gap,
                          "patterns_answered_by_the_regex_model_PromRegex": worst.get("gap_computed") or [],
                          "matchers": worst.get("ms") or worst.get("sels"), "hints": worst.get("hints"),
                          "database": worst.get("db") or worst.get("pdb"), "sql": worst["sql"],
                          "case": slim(worst), "replay": "harness promsel --cases <file with the case line>, then checks/promsel.py sem_verdict"},
                         no_input=(code == 9 or bool(gap)))
            break
    return True


def dup_groups(c):
    """label set (sorted pairs) -> fingerprints of the rows carrying it, in row order (last answered labels row wins)"""
    lab = {}
    for f in c.get("fetch") or []:
        lab[f["fp"]] = tuple(sorted((kv[0], kv[1]) for kv in f.get("labels") or []))
    order = []
    for r in c.get("rows") or []:
        if r["fp"] not in order:
            order.append(r["fp"])
    groups = {}
    for fp in order:
        groups.setdefault(lab.get(fp, ()), []).append(fp)
    return order, groups


def dup_apart(c):
    """the shape seed C17-g needs: one label set under two fingerprints with another series (other label set) between them"""
    order, groups = dup_groups(c)
    for fps in groups.values():
        if len(fps) >= 2:
            i, j = order.index(fps[0]), order.index(fps[-1])
            if any(order[k] not in fps for k in range(i + 1, j)):
                return True
    return False


def own_samples_report(c):
    """for the replay: per observed series the samples it must carry (rows of the fingerprints under its label set; MapResult cases: row level only)"""
    order, groups = dup_groups(c)
    rep = []
    for o in c.get("obs") or []:
        key = tuple(sorted((kv[0], kv[1]) for kv in o.get("labels") or []))
        fps = groups.get(key) or []
        want = sorted([[r["ts"], r["val"]] for r in c.get("rows") or [] if r["fp"] in fps], key=lambda x: x[0]) if len(fps) > 1 else \
            [[r["ts"], r["val"]] for r in c.get("rows") or [] if r["fp"] in fps]
        got = [list(x) for x in o.get("samples") or []]
        if sorted(got) != sorted(want):
            rep.append({"labels": o.get("labels"), "fingerprints_under_this_label_set": fps, "handed_to_the_engine": got,
                        "stored_rows_of_those_fingerprints": want,
                        "foreign_samples": [x for x in got if x not in want], "lost_samples": [x for x in want if x not in got]})
    return rep


def coverage(ck, cases):
    hist = {}
    distinct = set()
    for c in cases:
        key = c["kind"] + ("/" + c["sub"] if c.get("sub") else "")
        hist[key] = hist.get(key, 0) + 1
        for cl in c.get("class") or []:
            hist[cl] = hist.get(cl, 0) + 1
        nontrivial = (c["kind"] in ("sql", "querier") and len(c.get("ms") or []) >= 1) or \
                     (c["kind"] == "prof" and len(c.get("sels") or []) >= 1)
        if nontrivial:
            distinct.add(json.dumps([c["kind"], c.get("sub"), c.get("hints"), c.get("ms"), c.get("sels"), c.get("rows"), c.get("ctx")], sort_keys=True))
    ck.coverage["evaluations"] += len(cases)
    ck.coverage["distinct_nontrivial"] += len(distinct)
    ck.coverage["rule"] += ("selection: hints (Func from the instant/range/aggregate/unknown pools, Start aligned or not to 15 s, Step and Range around the 15 s threshold and 0) "
                            "x matcher sets (0..5 matchers, rarely 9..11; = != =~ !~ on present and absent labels, values with quotes/backslashes/LIKE metacharacters/non-ASCII) "
                            "x cluster flag; profile selectors through the real parser (pseudo labels and key/value labels, quoted and ticked strings); "
                            "Select over scripted rows (fingerprint-sorted, duplicate label sets - also under non-adjacent fingerprints with other series between (dup-labels-apart) -, missing labels, shuffled rows) and small databases (2..6 series, samples on and around the window bounds, log-typed series); "
                            "non-trivial = at least one matcher/selector; distinct by content. ")
    ck.extra["promsel_input_classes"] = hist
    q = [c for c in cases if c["kind"] == "querier" and not c.get("err") and "rows-shuffled" not in (c.get("class") or [])]
    ck.extra["select_rows_measured"] = {
        "row_sets": len(q),
        "label_set_under_two_fingerprints": len([c for c in q if any(len(v) > 1 for v in dup_groups(c)[1].values())]),
        "label_set_under_two_fingerprints_with_another_series_between": len([c for c in q if dup_apart(c)]),
        "of_those_every_fingerprint_with_its_labels_row": len([c for c in q if dup_apart(c) and () not in dup_groups(c)[1]]),
    }
    ck.add_samples([{"kind": c["kind"], "hints": c.get("hints"), "matchers": c.get("ms"), "sql": (c.get("sql") or "")[:300]}
                    for c in cases if c["kind"] == "querier"][:2])
