"""C11 — the SQL generated for TraceQL selects exactly the traces the query describes.

model/Traceql.v        AST of reader/traceql/parser/model_v2.go (+ the library string functions the planners apply)
model/TqSql.v          sql_select objects + planner-local SQL objects, byte-exact renderer, wf_sel
model/TraceqlPlan.v    transcription of clickhouse_transpiler (Plan / PlanTagsV2 / PlanValuesV2, stateful Process)
model/TraceqlSem.v     reference meaning of a TraceQL script + evaluator of the emitted SQL shapes (trusted ClickHouse subset)
props/C11.v            theorems

Tie: harness/cmd/traceql generates TraceQL text from the grammar, runs the REAL parser and planners,
and prints the parsed script, the SQL text and the SQL object tree (reflection walk).  Inside Coq
(vm_compute): render(plan ast ctx) = text, render(tree) = text, wf_sel tree, and the evaluator run on
the implementation's tree over generated trace databases agrees with the reference meaning.
"""
import json
import os
import re

from vcheck import coq_string, coq_list, coq_Z

HERE = os.path.dirname(os.path.abspath(__file__))
ROOT = os.path.dirname(HERE)


def unhex(h):
    return bytes.fromhex(h)


class Interner:
    """byte strings of a case file -> names of shared definitions (each string is transported once, as
    packed 63-bit integers decoded by TraceqlCase.S_: Coq's string notation is ~80 us/byte)"""

    def __init__(self):
        self.names = {}
        self.order = []

    def name(self, b):
        if isinstance(b, str):
            b = b.encode("utf8", "surrogateescape")
        n = self.names.get(b)
        if n is None:
            n = "s%d" % len(self.order)
            self.names[b] = n
            self.order.append(b)
        return n

    @staticmethod
    def pack(b):
        out = []
        for k in range(0, len(b), 7):
            v = 0
            for j, c in enumerate(b[k:k + 7]):
                v |= (c + 1) << (9 * j)
            out.append(v)
        return out

    def definitions(self):
        ls = []
        for i, b in enumerate(self.order):
            ls.append("Definition s%d : string := Eval vm_compute in S_ [%s]%%uint63." % (i, "; ".join(str(v) for v in self.pack(b))))
        return "\n".join(ls)


INTERN = Interner()


def cs(b):
    """Coq term for a byte string: the name of an interned definition"""
    return INTERN.name(b)


def copt(x, f=lambda v: v):
    return "None" if x is None else "(Some %s)" % f(x)


# ------------------------------------------------------------------ script -> Coq
CMP = {"=": "CEq", "!=": "CNeq", "<": "CLt", "<=": "CLe", ">": "CGt", ">=": "CGe", "=~": "CRe", "!~": "CNre"}
ANDOR = {"": "AONone", "&&": "AOAnd", "||": "AOOr"}
AGG = {"count": "AgCount", "sum": "AgSum", "min": "AgMin", "max": "AgMax", "avg": "AgAvg"}


def conv_value(v):
    return ("{| v_time := %s; v_f := %s; v_str := %s; v_unq := %s; v_ffmt := %s; v_dur := %s |}" % (
        cs(v["t"]), cs(v["f"]),
        copt(v["s"], lambda h: cs(unhex(h))), copt(v["unq"], lambda h: cs(unhex(h))),
        copt(v["ffmt"], cs), copt(v["dur"], lambda z: "(%d)%%Z" % z)))


def conv_exp(e):
    if (e["head"] is None) == (e["chead"] is None):
        raise ValueError("AttrSelectorExp with both/neither Head and ComplexHead")
    if e["head"] is not None:
        t = e["head"]
        h = "(HTerm {| a_label := %s; a_op := %s; a_val := %s |})" % (cs(t["label"]), CMP[t["op"]], conv_value(t["val"]))
    else:
        h = "(HParen %s)" % conv_exp(e["chead"])
    return "(AExp %s %s %s)" % (h, ANDOR[e["andor"]], copt(e["tail"], conv_exp))


def conv_agg(a):
    return ("{| g_fn := %s; g_attr := %s; g_cmp := %s; g_num := %s; g_meas := %s; g_ffmt := %s; g_durf := %s |}" % (
        AGG[a["fn"]], cs(a["attr"]), CMP[a["cmp"]], cs(a["num"]), cs(a["meas"]), copt(a["ffmt"], cs), copt(a["durf"], cs)))


def conv_script(s):
    h = s["head"]
    sel = "{| sel_attr := %s; sel_agg := %s |}" % (copt(h["attr"], conv_exp), copt(h["agg"], conv_agg))
    return "(Script %s %s %s)" % (sel, ANDOR[s["andor"]], copt(s["tail"], conv_script))


# ------------------------------------------------------------------ raw SQL fragments -> expr
FN = {"any": "FAny", "max": "FMax", "min": "FMin", "count": "FCount", "toFloat64": "FToFloat64", "isNotNull": "FIsNotNull",
      "toFloat64OrNull": "FToFloat64OrNull", "toFloat64OrZero": "FToFloat64OrZero", "avgIf": "FAvgIf", "maxIf": "FMaxIf",
      "minIf": "FMinIf", "sumIf": "FSumIf", "cityHash64": "FCityHash64", "unhex": "FUnhex", "groupArray": "FGroupArray",
      "groupUniqArray": "FGroupUniqArray", "argMin": "FArgMin", "lower": "FLower", "hex": "FHex", "arrayMap": "FArrayMap", "uniqExact": "FUniqExact"}
BINOP = {"%": "BMod", "+": "BAdd", "-": "BSub", "/": "BDiv"}
TOK = re.compile(r"\s*(?:(?P<id>[A-Za-z_][A-Za-z0-9_.]*)|(?P<num>[0-9]+(?:\.[0-9]+)?)|(?P<str>'[^'\\]*')|(?P<arrow>->)|(?P<p>[(),%+\-/]))")
# the same with escaped string literals (StringVal.String: backslash escapes): only for the text of objects the model does not know
TOK_ESC = re.compile(r"\s*(?:(?P<id>[A-Za-z_][A-Za-z0-9_.]*)|(?P<num>[0-9]+(?:\.[0-9]+)?)|(?P<str>'(?:[^'\\]|\\.)*')|(?P<arrow>->)|(?P<p>[(),%+\-/]))")
UNESC = {"\\": "\\", "0": "\0", "n": "\n", "r": "\r", "b": "\b", "t": "\t", "'": "'"}


def sql_unescape(body):
    out, i = [], 0
    while i < len(body):
        if body[i] == "\\" and i + 1 < len(body):
            if body[i + 1] == "x" and body[i + 2:i + 4] == "1a":
                out.append("\x1a")
                i += 4
                continue
            out.append(UNESC.get(body[i + 1], body[i + 1]))
            i += 2
        else:
            out.append(body[i])
            i += 1
    return "".join(out)


class RawParse(Exception):
    pass


def parse_raw(s, strict=True):
    """-> (coq term, rendering) ; raises RawParse.  strict=False: the text of an object the model does not know -- string literals
    are StringVal texts (unescaped into StrV), the rendering need only agree up to blanks"""
    toks = []
    pos = 0
    while pos < len(s):
        m = (TOK if strict else TOK_ESC).match(s, pos)
        if not m or m.end() == pos:
            raise RawParse(s)
        pos = m.end()
        for k in ("id", "num", "str", "arrow", "p"):
            if m.group(k) is not None:
                toks.append((k, m.group(k)))
    i = [0]

    def peek(n=0):
        return toks[i[0] + n] if i[0] + n < len(toks) else (None, None)

    def take(k=None, v=None):
        t = peek()
        if t[0] is None or (k and t[0] != k) or (v and t[1] != v):
            raise RawParse(s)
        i[0] += 1
        return t

    def args():
        out = []
        if peek() == ("p", ")"):
            return out
        while True:
            if peek() == ("id", "distinct"):
                take()
                c, r = expr()
                out.append(("(Distinct %s)" % c, "distinct " + r))
            else:
                out.append(expr())
            if peek() == ("p", ","):
                take()
                continue
            return out

    def unary():
        k, v = peek()
        if k == "num":
            take()
            return "(NumLit %s)" % cs(v), v
        if k == "str":
            take()
            if not strict:
                return "(StrV %s)" % cs(sql_unescape(v[1:-1]).encode("latin1", "replace")), v
            return "(RawStr %s)" % cs(v[1:-1]), v
        if k == "id":
            take()
            if peek() == ("p", "("):
                take()
                a = args()
                take("p", ")")
                fn = FN.get(v) or "(FOther %s)" % cs(v)
                if peek() == ("p", "("):
                    take()
                    b = args()
                    take("p", ")")
                    return ("(PFn %s %s %s)" % (fn, coq_list([x[0] for x in a]), coq_list([x[0] for x in b])),
                            "%s(%s)(%s)" % (v, ", ".join(x[1] for x in a), ", ".join(x[1] for x in b)))
                return "(Fn %s %s)" % (fn, coq_list([x[0] for x in a])), "%s(%s)" % (v, ", ".join(x[1] for x in a))
            return "(Id %s)" % cs(v), v
        if (k, v) == ("p", "("):
            take()
            a = args()
            take("p", ")")
            if not a:
                raise RawParse(s)
            return "(Tuple %s)" % coq_list([x[0] for x in a]), "(%s)" % ", ".join(x[1] for x in a)
        raise RawParse(s)

    def expr():
        if peek()[0] == "id" and peek(1)[0] == "arrow":
            x = take()[1]
            take()
            c, r = expr()
            return "(Lambda %s %s)" % (cs(x), c), "%s -> %s" % (x, r)
        c, r = unary()
        while peek()[0] == "p" and peek()[1] in BINOP:
            op = take()[1]
            c2, r2 = unary()
            c, r = "(Bin %s %s %s)" % (BINOP[op], c, c2), "%s %s %s" % (r, op, r2)
        return c, r

    c, r = expr()
    if i[0] != len(toks) or (r != s if strict else r.replace(" ", "") != s.replace(" ", "")):
        raise RawParse(s)
    return c


# How the implementation PRINTS a bitSet decides how the evaluator reads it: with the toUInt64 conversion the sum is a UInt64
# bit mask (BitSet); without it ClickHouse shifts inside the UInt8 type of the comparison (BitSet8).  The reflection dump only
# shows the struct, so the form is read off the statement text; "the tree prints to the observed text" (code 3) validates the choice.
BITSET_KIND = ["BitSet"]


def bitset_kind_of(sqltext):
    return "BitSet8" if re.search(rb"bitShiftLeft\((?!toUInt64\()", sqltext) else "BitSet"


LOPS = {"and": "OAnd", "or": "OOr", "==": "OEq", "!=": "ONeq", "<": "OLt", "<=": "OLe", ">": "OGt", ">=": "OGe"}
JK = {"array": "JArray", "any left": "JAnyLeft"}


class Untranslatable(Exception):
    pass


def conv_tree(t, stats=None):
    if t is None:
        raise Untranslatable("nil object")
    k = t["k"]
    if k == "raw":
        try:
            return parse_raw(t["s"])
        except RawParse:
            if stats is not None:
                stats["raw_fallback"] = stats.get("raw_fallback", 0) + 1
            return "(Raw %s)" % cs(t["s"])
    if k == "str":
        return "(StrV %s)" % cs(unhex(t["s"]))
    if k == "int":
        return "(IntV (%s)%%Z)" % t["v"]
    if k == "float":
        return "(FloatV %s)" % cs(t["s"])
    if k == "lop":
        if t["fn"] not in LOPS:
            raise Untranslatable("LogicalOp " + t["fn"])
        return "(LOp %s %s)" % (LOPS[t["fn"]], coq_list([conv_tree(x, stats) for x in t["cl"]]))
    if k == "in":
        return "(InE %s %s)" % (conv_tree(t["l"], stats), coq_list([conv_tree(x, stats) for x in t["r"]]))
    if k == "wref":
        return "(WRef %s)" % cs(t["alias"])
    if k == "col":
        return "(Col %s %s)" % (conv_tree(t["e"], stats), cs(t["alias"]))
    if k == "ord":
        return "(Ord %s %s)" % (conv_tree(t["e"], stats), "true" if t["desc"] else "false")
    if k == "bitset":
        return "(%s %s)" % (BITSET_KIND[0], coq_list([conv_tree(x, stats) for x in t["terms"]]))
    if k == "bitand":
        return "(BitAnd %s %s)" % (conv_tree(t["l"], stats), conv_tree(t["r"], stats))
    if k == "groupbitor":
        return "(GroupBitOr %s %s)" % (conv_tree(t["e"], stats), cs(t["alias"]))
    if k == "matchre":
        return "(MatchRe %s %s)" % (conv_tree(t["field"], stats), cs(unhex(t["re"])))
    if k == "attrvalue":
        return "(AttrValue %s)" % cs(unhex(t["attr"]))
    if k == "intersect":
        return "(Intersect %s)" % coq_list([conv_tree(x, stats) for x in t["sels"]])
    if k == "union":
        return "(Union %s)" % coq_list([conv_tree(x, stats) for x in t["sels"]])
    if k == "select":
        if t["offset"] is not None or t["settings"]:
            raise Untranslatable("OFFSET/SETTINGS")
        withs = coq_list(["(%s, %s)" % (cs(w["alias"]), conv_tree(w["q"], stats)) for w in t["withs"]])
        joins = []
        for j in t["joins"]:
            if j["tp"].lower() not in JK:
                raise Untranslatable("join " + j["tp"])
            on = None if j["tp"].lower() == "array" else j["on"]
            joins.append("(%s, %s, %s)" % (JK[j["tp"].lower()], conv_tree(j["table"], stats), copt(on, lambda x: conv_tree(x, stats))))
        o = lambda x: copt(x, lambda y: conv_tree(y, stats))
        return "(Sel %s %s %s %s %s %s %s %s %s %s %s)" % (
            withs, "true" if t["distinct"] else "false", coq_list([conv_tree(x, stats) for x in t["cols"]]), o(t["from"]),
            coq_list(joins), o(t["prewhere"]), o(t["where"]), o(t["having"]),
            coq_list([conv_tree(x, stats) for x in t["groupby"]]), coq_list([conv_tree(x, stats) for x in t["orderby"]]), o(t["limit"]))
    if k == "unknown" and t.get("text") is not None:
        # an object the model has no constructor for: read its printed text as a generic call f(a, b) so that the evaluator can still run the
        # statement (it knows a few more ClickHouse functions than the planners use today, e.g. like); reported by its own obligation
        if stats is not None:
            stats.setdefault("unknown_objects", set()).add(t.get("type"))
        try:
            return parse_raw(unhex(t["text"]).decode("latin1"), strict=False)
        except RawParse:
            pass
    raise Untranslatable("object of kind %s (%s)" % (k, t.get("type")))


# ------------------------------------------------------------------ cases
ERRS = [("unsupported attribute", "EUnsupportedAttr"), ("unsupported statement", "EUnsupportedStmt"),
        ("not supported operator", "ENotSupportedOp"), ("is not a time duration value", "ENotTimeValue"),
        ("time: ", "EBadDuration"), ("strconv.ParseFloat", "EBadNumber"),
        ("invalid character", "EUnquote"), ("unexpected end of JSON", "EUnquote"), ("json: ", "EUnquote"),
        ("complex requests", "EComplexNotSupported"), ("requests like `{} | ", "EEmptySelAgg"),
        ("requests like `{} || ", "EEmptySelOr"), ("requests like `... || {}`", "EOrEmptySel"),
        ("the aggregated attribute is missing", "EAggNoAttr")]


def err_class(msg):
    for pat, c in ERRS:
        if pat in msg:
            return "(ObsErr %s)" % c
    return "ObsOtherErr"


TABLES = {"attrs_table": "tempo_traces_attrs_gin", "attrs_dist_table": "tempo_traces_attrs_gin_dist",
          "traces_table": "tempo_traces", "traces_dist_table": "tempo_traces_dist", "kv_dist_table": "tempo_traces_kv_dist"}


def conv_ctx(c):
    return ("{| from_ns := (%d)%%Z; to_ns := (%d)%%Z; from_date := %s; to_date := %s; ffd_from := %s; ffd_to := %s; "
            "limit := (%d)%%Z; is_cluster := %s; rf_max := (%d)%%Z; rf_i := (%d)%%Z; cached := %s; "
            "attrs_table := %s; attrs_dist_table := %s; traces_table := %s; traces_dist_table := %s; kv_dist_table := %s |}" % (
                c["from_ns"], c["to_ns"], cs(c["from_date"]), cs(c["to_date"]), cs(c["ffd_from"]), cs(c["ffd_to"]),
                c["limit"], "true" if c["is_cluster"] else "false", c["rf_max"], c["rf_i"], coq_list([cs(x) for x in (c["cached"] or [])]),
                cs(TABLES["attrs_table"]), cs(TABLES["attrs_dist_table"]), cs(TABLES["traces_table"]), cs(TABLES["traces_dist_table"]),
                cs(TABLES["kv_dist_table"])))


M63 = (1 << 63) - 1


def fingerprint(b):
    h1, h2 = 7, 11
    for c in b:
        h1 = (h1 * 1000003 + c + 1) & M63
        h2 = (h2 * 998244353 + c + 1) & M63
    return "(%d, %d, %d)%%uint63" % (h1, h2, len(b))


def conv_obs(c, stats, full=True):
    """list of (rf_i, obs) terms; raises Untranslatable.  full: carry the text and the object tree"""
    if c.get("panic"):
        return ["(%d%%Z, ObsPanic)" % c["ctx"]["rf_i"]]
    if c.get("plan_err"):
        return ["(%d%%Z, %s)" % (c["ctx"]["rf_i"], err_class(c["plan_err"]))]
    out = []
    for o in c["obs"]:
        if "sql" not in o:
            out.append("(%d%%Z, %s)" % (o["rf_i"], err_class(o["err"])))
        else:
            BITSET_KIND[0] = bitset_kind_of(unhex(o["sql"]))
            tree = conv_tree(o["tree"], stats)      # always translated: an unknown object is reported even for hash-only cases
            if full:
                out.append("(%d%%Z, ObsSql %s (Some %s) (Some %s))" % (o["rf_i"], fingerprint(unhex(o["sql"])), cs(unhex(o["sql"])), tree))
            else:
                out.append("(%d%%Z, ObsSql %s None None)" % (o["rf_i"], fingerprint(unhex(o["sql"]))))
    return out


def conv_mode(c):
    return {"plan": "MSearch", "tags": "MTags"}.get(c["mode"]) or "(MValues %s)" % cs(c["key"])


# ------------------------------------------------------------------ generated attribute-index databases
def script_terms(ast):
    """[(label, op, value json)] of every selector, [aggregator json]"""
    terms, aggs = [], []

    def exp(e):
        if e is None:
            return
        if e["head"] is not None:
            terms.append((e["head"]["label"], e["head"]["op"], e["head"]["val"]))
        exp(e["chead"])
        exp(e["tail"])
    s = ast
    while s is not None:
        exp(s["head"]["attr"])
        if s["head"]["agg"] is not None:
            aggs.append(s["head"]["agg"])
        s = s["tail"]
    return terms, aggs


def script_keys(ast):
    """the text the REAL AttrSelector.String() printed for every term, in the order of TraceqlKey.script_terms; None when the harness did not send it"""
    keys = []

    def exp(e):
        if e is None:
            return
        if e["head"] is not None:
            keys.append(e["head"].get("key"))
        exp(e["chead"])
        exp(e["tail"])
    s = ast
    while s is not None:
        exp(s["head"]["attr"])
        s = s["tail"]
    return keys


def key_collisions(ast):
    """pairs of terms of ONE selector that the real String() prints alike although their captured tokens differ: analyzeCond merges them"""
    out = []

    def exp(e, acc):
        if e is None:
            return
        if e["head"] is not None:
            h = e["head"]
            acc.append((h.get("key"), (h["label"], h["op"], h["val"]["t"], h["val"]["f"], h["val"]["s"])))
        exp(e["chead"], acc)
        exp(e["tail"], acc)
    s = ast
    while s is not None:
        acc = []
        exp(s["head"]["attr"], acc)
        seen = {}
        for k, tok in acc:
            if k is None:
                continue
            if k in seen and seen[k] != tok:
                out.append((seen[k], tok))
            seen.setdefault(k, tok)
        s = s["tail"]
    return out


def strip_scope(label):
    for p in ("span.", "resource.", "."):
        if label.startswith(p):
            return label[len(p):]
    return "name" if label == "name" else None


def dec_str(x):
    from decimal import Decimal
    d = Decimal(x).quantize(Decimal("0.000001")).normalize()
    t = format(d, "f")
    return "0" if t in ("-0", "") else t


def sat(op, v):
    """an attribute value that makes the term true, where that is easy to say"""
    from decimal import Decimal, InvalidOperation
    if v["s"] is not None:
        if v["unq"] is None:
            return None
        u = unhex(v["unq"]).decode("utf8", "surrogateescape")
        if op in ("=~", "!~"):
            # a pattern without metacharacters matches itself (and the values that contain it)
            if not u or re.search(r"[\\.+*?()|\[\]{}^$]", u):
                return None
            return u if op == "=~" else "zz"
        return u if op == "=" else (u + "_" if op == "!=" else None)
    if v["f"]:
        try:
            th = Decimal(v["f"])
        except InvalidOperation:
            return None
        return {"=": dec_str(th), "!=": dec_str(th + 1), ">": dec_str(th + 1), ">=": dec_str(th), "<": dec_str(th - 1), "<=": dec_str(th)}.get(op)
    return None


def gen_db(c, rnd):
    import datetime
    from decimal import Decimal, InvalidOperation
    terms, aggs = script_terms(c["ast"])
    pools = {}
    durs = [1, 1000, 500000000, 2000000000]
    for label, op, v in terms:
        k = strip_scope(label)
        if k is None:
            if v["dur"] is not None:
                durs += [v["dur"] - 1, v["dur"], v["dur"] + 1]
            continue
        pool = pools.setdefault(k, ["zz"])
        if v["s"] is not None:
            if op in ("=~", "!~"):
                pool += ["v1", "vv", "abc", "7", "a", "b", "xay", ""]
                if v["unq"] is not None:
                    pat = unhex(v["unq"]).decode("utf8", "replace")
                    if pat and not re.search(r"[\\.+*?()|\[\]{}^$]", pat):
                        # a plain substring pattern: the value itself, values that contain it, and near misses that differ exactly where a
                        # LIKE wildcard (_ one byte, % any run) would be lenient
                        pool += [pat, "x" + pat + "y", pat.replace("_", "-"), pat.replace("_", "X"), pat.replace("%", "0"), pat.replace("%", ""),
                                 pat.replace("%", "abc") + "z", pat[:-1]]
            elif v["unq"] is not None:
                pool.append(unhex(v["unq"]).decode("utf8", "replace"))
        elif v["f"]:
            try:
                th = Decimal(v["f"])
                pool += [dec_str(th), dec_str(th + 1), dec_str(th - 1), dec_str(th + Decimal("0.000001")), "abc"]
            except InvalidOperation:
                pass
    for a in aggs:
        if a["attr"] == "duration":
            if a["durf"]:
                d = int(float(a["durf"]))
                durs += [d - 1, d, d + 1, 2 * d]
        elif a["attr"]:
            k = a["attr"]
            for p in ("span.", "resource.", "."):       # the three sequential strips of aggregator()
                if k.startswith(p):
                    k = k[len(p):]
            pool = pools.setdefault(k, [])
            try:
                th = Decimal(a["num"])
                pool += [dec_str(th), dec_str(th + 1), dec_str(th - 1), dec_str(2 * th), "nan-ish"]
            except InvalidOperation:
                pool += ["1", "2"]
    if not pools:
        pools["zz"] = ["zz"]
    keys = sorted(pools)
    ctx = c["ctx"]
    cached = ctx["cached"] or []

    indexed = [(strip_scope(l), op, v) for l, op, v in terms if strip_scope(l) is not None and sat(op, v) is not None]
    rows = []
    # many traces when the limit is small (a LIMIT inside a sub-query only shows when it cuts something)
    ntr = rnd.randint(2, 4) if 0 < ctx["limit"] <= 3 and rnd.random() < 0.6 else rnd.randint(1, 3)
    for t in range(ntr):
        tid = rnd.choice(cached) if cached and rnd.random() < 0.3 else "t%d" % (t + 1)
        if any(r["trace"] == tid for r in rows):
            continue
        for sidx in range(rnd.randint(1, 3)):
            x = rnd.random()
            if x < 0.8:
                ts = ctx["from_ns"] + rnd.randrange(0, ctx["to_ns"] - ctx["from_ns"])
            elif x < 0.9:
                ts = rnd.choice([ctx["from_ns"] - 1, ctx["from_ns"]])
            else:
                ts = rnd.choice([ctx["to_ns"], ctx["to_ns"] - 1, ctx["to_ns"] + 5])
            dur = max(0, rnd.choice(durs))
            date = datetime.datetime.fromtimestamp(ts // 10**9, datetime.timezone.utc).strftime("%Y-%m-%d")
            span = "s%d" % (sidx + 1 + (0 if rnd.random() < 0.5 else 3 * t))
            if indexed and rnd.random() < 0.4:
                # a span aimed at the selector: every term true / exactly one (a late one) / all but one
                y = rnd.random()
                if y < 0.45:
                    chosen = list(indexed)
                elif y < 0.8:
                    chosen = [indexed[-1 - min(len(indexed) - 1, rnd.randrange(0, 3))]]
                else:
                    chosen = list(indexed)
                    chosen.pop(rnd.randrange(len(chosen)))
                attrs = {}
                for k, op, v in chosen:
                    attrs[k] = sat(op, v)
                for k in sorted(attrs):
                    rows.append({"date": date, "key": k, "val": attrs[k], "trace": tid, "span": span, "ts": ts, "dur": dur})
                continue
            ks = rnd.sample(keys, min(len(keys), rnd.randint(1, 3)))
            for k in ks:
                rows.append({"date": date, "key": k, "val": rnd.choice(pools[k]), "trace": tid, "span": span, "ts": ts, "dur": dur})
    # rows of one span must agree on timestamp and duration (the writer copies them from the span)
    seen = {}
    for r in rows:
        k = (r["trace"], r["span"])
        if k in seen:
            r["ts"], r["dur"], r["date"] = seen[k]
        else:
            seen[k] = (r["ts"], r["dur"], r["date"])
    rnd.shuffle(rows)
    return rows


def same_slot_groups(ast):
    """per selector: the groups of at least two different terms on one attribute (labels compared after scope stripping, case folding and
    dropping punctuation: whatever a printer might conflate): [(normalised label, [(label, op, value json)], all terms of that selector)]"""
    groups = []

    def exp(e, acc):
        if e is None:
            return
        if e["head"] is not None:
            h = e["head"]
            k = strip_scope(h["label"])
            if k is not None:
                acc.setdefault(re.sub(r"[^a-z0-9]", "", k.lower()), []).append((h["label"], h["op"], h["val"]))
        exp(e["chead"], acc)
        exp(e["tail"], acc)
    s = ast
    while s is not None:
        acc = {}
        exp(s["head"]["attr"], acc)
        for nl, terms in sorted(acc.items()):
            distinct = []
            for t in terms:
                tok = (t[0], t[1], t[2]["t"], t[2]["f"], t[2]["s"])
                if all(tok != (w[0], w[1], w[2]["t"], w[2]["f"], w[2]["s"]) for w in distinct):
                    distinct.append(t)
            if len(distinct) >= 2:
                groups.append((nl, distinct, [t for ts in acc.values() for t in ts]))
        s = s["tail"]
    return groups


def hash_toy(s):
    """TraceqlCase.hash_toy (the oracle's instance of cityHash64)"""
    h = 7
    for c in reversed(s.encode("utf8", "surrogateescape")):
        h = c + 31 * h
    return h


def gen_sep_db(c, rnd):
    """the SEPARATING database of a query with several conditions on one attribute: per candidate value one trace with one span that
    carries exactly that value -- the literals themselves and their neighbours (number +-1, string + "_").  If the planner identified two of
    the conditions (same key for analyzeCond), a trace that only the second one selects is lost, or one that only the second one excludes
    is kept.  Trace ids are chosen inside the portion of the first call.  None when there is no such group."""
    import datetime
    from decimal import Decimal, InvalidOperation
    groups = same_slot_groups(c["ast"])
    if not groups:
        return None
    ctx = c["ctx"]
    rows = []
    n = [0]
    nt = 0
    width = ctx["to_ns"] - ctx["from_ns"]

    def next_trace():
        while True:
            n[0] += 1
            t = "t%d" % n[0]
            if ctx["rf_max"] <= 0 or hash_toy(t) % ctx["rf_max"] == ctx["rf_i"]:
                return t
    for nl, terms, all_terms in groups:
        keys, vals = [], []
        for label, op, v in terms:
            k = strip_scope(label)
            if k not in keys:
                keys.append(k)
            if v["s"] is not None and v["unq"] is not None:
                u = unhex(v["unq"]).decode("utf8", "surrogateescape")
                vals += [u] if op in ("=~", "!~") else [u, u + "_"]
            elif v["f"]:
                # as in gen_db: stored numbers keep at most six decimals (the evaluator reads Float64 as exact rationals; a stored value
                # with more digits than a float64 keeps would be judged differently from ClickHouse)
                try:
                    th = Decimal(v["f"])
                    vals += [dec_str(th), dec_str(th - 1), dec_str(th + 1)]
                except InvalidOperation:
                    pass
        vals = list(dict.fromkeys(vals))[:8] + ["zz-other"]
        # what makes the terms on OTHER attributes true (a conjunction around the group needs them, a disjunction must not have them:
        # every candidate gets a bare trace and a trace with the company)
        company = {}
        for label, op, v in all_terms:
            k2 = strip_scope(label)
            if k2 is not None and k2 not in keys and sat(op, v) is not None:
                company.setdefault(k2, sat(op, v))
        for k in keys[:3]:
            for val in vals:
                for full in ((False, True) if company else (False,)):
                    if len(rows) >= 60:
                        break
                    nt += 1
                    ts = ctx["from_ns"] + (width * nt) // 80 + rnd.randrange(0, 1000)
                    date = datetime.datetime.fromtimestamp(ts // 10**9, datetime.timezone.utc).strftime("%Y-%m-%d")
                    tr = next_trace()
                    rows.append({"date": date, "key": k, "val": val, "trace": tr, "span": "s1", "ts": ts, "dur": 1000})
                    if full:
                        for k2 in sorted(company):
                            rows.append({"date": date, "key": k2, "val": company[k2], "trace": tr, "span": "s1", "ts": ts, "dur": 1000})
    return rows or None


def conv_db(rows):
    return coq_list(["{| r_date := %s; r_key := %s; r_val := %s; r_trace := %s; r_span := %s; r_ts := (%d)%%Z; r_dur := (%d)%%Z |}" % (
        cs(r["date"]), cs(r["key"]), cs(r["val"]), cs(r["trace"]), cs(r["span"]), r["ts"], r["dur"]) for r in rows])


def case_to_coq(c, stats, full=True):
    keys = script_keys(c["ast"])
    if any(k is None for k in keys):
        raise ValueError("the harness did not print AttrSelector.String() for a term")
    return "{| c_id := %d; c_q := %s; c_mode := %s; c_ctx := %s; c_obs := %s; c_dbs := %s; c_keys := %s |}" % (
        c["id"], conv_script(c["ast"]), conv_mode(c), conv_ctx(c["ctx"]), coq_list(conv_obs(c, stats, full)),
        coq_list([conv_db(d) for d in c.get("dbs", [])]), coq_list([cs(unhex(k)) for k in keys]))


HEADER = ("From Coq Require Import List ZArith String Ascii Bool Uint63.\n"
          "From Qryn Require Import model.TqSql model.Traceql model.TraceqlPlan model.TraceqlSem model.TraceqlCase proofs.TraceqlScope.\n"
          "Import ListNotations.\nOpen Scope string_scope.\n")


def build_text(cases, stats, full=lambda c: True):
    """the Coq file of one shard (the interner is per file)"""
    global INTERN
    INTERN = Interner()
    defs = []
    for c in cases:
        defs.append("Definition c%d : case := %s." % (c["id"], case_to_coq(c, stats, full(c))))
    return (HEADER + INTERN.definitions() + "\n" + "\n".join(defs) + "\nDefinition cases : list case := " + coq_list(["c%d" % c["id"] for c in cases]) + ".\n"
            "Definition M := Eval vm_compute in mismatches cases.\nPrint M.\n"
            "Definition V := Eval vm_compute in spec_violations cases.\nPrint V.\n"
            "Definition W := Eval vm_compute in sem_violations cases.\nPrint W.\n"
            "Definition SC := Eval vm_compute in scope_counts cases.\nPrint SC.\n"
            "Definition CC := Eval vm_compute in chain_count cases.\nPrint CC.\n"
            "Definition PC := Eval vm_compute in portion_count cases.\nPrint PC.\n")


def parse_out(name, rc, out, stats):
    """returns (mismatch pairs, syntax violation ids, semantic violation pairs, raw out)"""
    if rc != 0:
        return None, None, None, out
    flat = " ".join(out.split())
    m = re.search(r"M = (\[.*?\]|nil)\s*: list \(Z \* Z\)", flat)
    v = re.search(r"V = (\[.*?\]|nil)\s*: list Z", flat)
    w = re.search(r"W = (\[.*?\]|nil)\s*: list \(Z \* Z\)", flat)
    if not m or not v or not w:
        return None, None, None, out
    prs = lambda t: [(int(a), int(b)) for a, b in re.findall(r"\((-?\d+)(?:%Z)?, (-?\d+)(?:%Z)?\)", t)]
    sc = re.search(r"SC = \((\d+)(?:%Z)?, (\d+)(?:%Z)?\)", flat)
    if sc and name != "C11_text_again":
        stats["scope_single"] = stats.get("scope_single", 0) + int(sc.group(1))
        stats["scope_agg"] = stats.get("scope_agg", 0) + int(sc.group(2))
        cc = re.search(r"CC = (\d+)(?:%Z)?\s*: Z", flat)
        if cc:
            stats["scope_chain"] = stats.get("scope_chain", 0) + int(cc.group(1))
        pc = re.search(r"PC = (\d+)(?:%Z)?\s*: Z", flat)
        if pc:
            stats["scope_portion"] = stats.get("scope_portion", 0) + int(pc.group(1))
    ids = [int(x) for x in re.findall(r"-?\d+", v.group(1))]
    return prs(m.group(1)), ids, prs(w.group(1)), out


def eval_text(ck, name, cases, stats, full=lambda c: True):
    txt = build_text(cases, stats, full)
    rc, out = ck.coq_eval(name, txt)
    return parse_out(name, rc, out, stats)


def eval_shards(ck, shards, stats, full):
    """the shards of one pass, their Coq files built one after the other (shared interner) and compiled side by side"""
    from concurrent.futures import ThreadPoolExecutor
    texts = [(name, build_text(cases, stats, full)) for name, cases in shards]
    with ThreadPoolExecutor(max_workers=4) as ex:
        outs = list(ex.map(lambda nt: ck.coq_eval(nt[0], nt[1]), texts))
    return [parse_out(name, rc, out, stats) for (name, _), (rc, out) in zip(texts, outs)]


def qtext(c):
    return unhex(c["q"]).decode("utf8", "replace")


def load(path):
    return [json.loads(l) for l in open(path)]


def run_text(ck):
    if not ck.go_build("traceql"):
        ck.obligation("harness traceql builds against the repository", False, ck.build_out[-1500:])
        return
    n = ck.n(700, 12000)
    cases = []
    corpus = os.path.join(ROOT, "corpus", "C11", "queries.jsonl")
    if os.path.exists(corpus):
        outp = os.path.join(ck.work, "corpus.jsonl")
        rc, out = ck.go_run("traceql", ["--cases", corpus, "--out", outp])
        if rc != 0:
            ck.obligation("harness traceql ran the corpus", False, out[-1500:])
            return
        for i, c in enumerate(load(outp)):
            c["id"] = 1000000 + i
            c["class"] = "corpus:" + c.get("class", "")
            cases.append(c)
    outp = os.path.join(ck.work, "gen.jsonl")
    rc, out = ck.go_run("traceql", ["--seed", ck.seed, "--n", n, "--out", outp])
    if rc != 0:
        ck.obligation("harness traceql ran", False, out[-1500:])
        return
    cases += load(outp)
    parsed = [c for c in cases if not c.get("parse_err")]
    stats = {}
    mism, viol, sem = [], [], []
    import random
    for c in parsed:
        ok = c["mode"] == "plan" and c.get("obs") and all("sql" in o for o in c["obs"])
        rnd = random.Random(ck.seed * 1000003 + c["id"])
        c["dbs"] = ((c.get("dbs") or []) + [gen_db(c, rnd) for _ in range(ck.n(2, 4))]) if ok else []
        if ok:
            sep = gen_sep_db(c, rnd)
            if sep:
                c["dbs"].append(sep)
                c["sep_db"] = True
    shard = ck.n(200, 400)
    bad_dump = []
    usable = []
    for c in parsed:
        try:
            case_to_coq(c, {})
            usable.append(c)
        except (Untranslatable, ValueError, KeyError) as ex:
            bad_dump.append((c["id"], str(ex)))
    unk_stats = {}
    for c in usable:
        try:
            case_to_coq(c, unk_stats)
        except (Untranslatable, ValueError, KeyError):
            pass
    unk = sorted(unk_stats.get("unknown_objects", []))
    ck.obligation("every SQL object the planners built is one the model knows (dump translated)", not bad_dump and not unk,
                  str(bad_dump[:5]) + (" object kinds without a constructor, read from their printed text: %s" % unk if unk else ""))
    # the corpus and a sample travel with their text and object tree; the bulk with the fingerprint of the text only
    nfull = ck.n(40, 400)
    fullids = set(c["id"] for c in usable if c["id"] >= 1000000) | set(c["id"] for c in usable[:nfull])
    shards = [("C11_text_%d" % (k // shard), usable[k:k + shard]) for k in range(0, len(usable), shard)]
    for m, v, w, out in eval_shards(ck, shards, stats, lambda c: c["id"] in fullids):
        if m is None:
            ck.obligation("query cases evaluated inside Coq", False, out[-1500:])
            return
        mism += m
        viol += v
        sem += w
    # second pass: every case that disagrees, or whose statement an oracle rejected, with the implementation's own object tree
    again = sorted(set([i for i, _ in mism] + viol + [i for i, _ in sem]) - fullids)
    if again:
        # at most 300 of them, taken round robin over the query classes (a change that alters every text must not crowd out
        # the rare shapes), each with more generated databases: here the search has a reason to look harder
        byclass = {}
        for c in usable:
            if c["id"] in again:
                byclass.setdefault(c["class"], []).append(c)
        sub = []
        while len(sub) < 300 and any(byclass.values()):
            for k in sorted(byclass):
                if byclass[k] and len(sub) < 300:
                    sub.append(byclass[k].pop(0))
        for c in sub:
            if c.get("dbs"):
                rnd = random.Random(ck.seed * 7919 + c["id"])
                c["dbs"] = c["dbs"] + [gen_db(c, rnd) for _ in range(3)]
        m, v, w, out = eval_text(ck, "C11_text_again", sub, stats)
        if m is None:
            ck.obligation("disagreeing cases re-evaluated with their object trees", False, out[-1500:])
            return
        redo = set(c["id"] for c in sub)
        mism = [x for x in mism if x[0] not in redo] + m
        viol = [x for x in viol if x not in redo] + v
        sem = [x for x in sem if x[0] not in redo] + w
    byid = {c["id"]: c for c in cases}
    codes = {1: "outcome class (statement / error / panic)", 2: "SQL text of the model's plan", 3: "object tree does not print to the observed text", 4: "library values",
             5: "numeric literals as printed parse back to the query's numbers",
             6: "every term the parser built has the lexical shape from which keys_ok is proved (TraceqlKey.terms_grammar: label without blank, one of quoted token / number / duration; library values functions of the tokens)",
             7: "the de-duplication key of analyzeCond: the model's attr_sel_string is the text the real AttrSelector.String() printed, for every term"}
    for code in (1, 2, 3, 4, 5, 6, 7):
        ids = [i for i, cd in mism if cd == code]
        ck.obligation("correspondence on %d queries: %s" % (len(usable), codes[code]), not ids,
                      "ids %s e.g. %r" % (ids[:8], qtext(byid[ids[0]]) if ids else ""))
    # the key of analyzeCond, seen from outside the model: two terms of one selector whose captured tokens differ must not print alike
    coll = [(c["id"], key_collisions(c["ast"])) for c in parsed]
    coll = [(i, x) for i, x in coll if x]
    nterms = sum(len(script_keys(c["ast"])) for c in parsed)
    longest = max([len(unhex(k)) for c in parsed for k in script_keys(c["ast"]) if k] + [0])
    groups = sum(1 for c in parsed if same_slot_groups(c["ast"]))
    ck.obligation("AttrSelector.String() separates the distinct terms of every selector (%d terms, longest key %d bytes, %d queries with several "
                  "literals under one label and operator)" % (nterms, longest, groups), not coll,
                  "ids %s e.g. %r merged with %r in %r" % ([i for i, _ in coll[:8]], coll[0][1][0][1], coll[0][1][0][0], qtext(byid[coll[0][0]])[:300]) if coll else "")
    stats["key_terms"], stats["key_longest"], stats["key_groups"] = nterms, longest, groups
    stats["key_collisions"] = [i for i, _ in coll]
    return cases, parsed, usable, mism, viol, sem, stats, byid



# ------------------------------------------------------------------ the Go loop of ComplexRequestProcessor (theorem 8 / 8b)
LOOP_HEADER = ("From Coq Require Import List ZArith NArith Bool.\n"
               "From Qryn Require Import model.TraceqlPortions.\n"
               "Import ListNotations.\n")
LOOP_CODES = {1: "the portion filter (Max, I) of a statement differs from the model's", 2: "the cached ids of a statement are not the winners so far",
              3: "the lower window bound of a statement differs from next_from of the model", 5: "the answer of Process is not the last statement's answer",
              6: "the answer of Process is not a top-`limit` selection of the matching traces of the window",
              8: "the loop sent another number of statements than there are portions"}


def loop_case_to_coq(c):
    alls = [t for t in c["all"] if t["key"] < c["to"]]
    tr = coq_list(["{| tid := %d%%N; tkey := (%d)%%Z |}" % (t["n"], t["key"]) for t in alls])
    parts = coq_list(["(%d%%N, %d%%N)" % (t["n"], t["part"]) for t in alls])
    steps = coq_list(["{| st_max := %d%%N; st_i := %d%%N; st_cached := %s; st_from := (%d)%%Z; st_rows := %s |}" % (
        st["max"], st["i"], coq_list(["%d%%N" % x for x in st["cached"]]), st["from"], coq_list(["%d%%N" % x for x in st["rows"]])) for st in c["steps"]])
    return "{| lc_id := (%d)%%Z; lc_k := %d%%nat; lc_portions := %d%%N; lc_from0 := (%d)%%Z; lc_all := %s; lc_parts := %s; lc_steps := %s; lc_final := %s |}" % (
        c["id"], c["limit"], c["portions"], c["from0"], tr, parts, steps, coq_list(["%d%%N" % x for x in c["final"]]))


def run_loop(ck):
    """drives the real ComplexRequestProcessor.Process over a scripted database/sql back-end (harness/cmd/tqloop) and replays every
    recorded run against model/TraceqlPortions.v inside Coq (loop_code; theorem portions_run_is_reach)"""
    if not ck.go_build("tqloop"):
        ck.obligation("harness tqloop builds against the repository", False, ck.build_out[-1500:])
        return
    cases = []
    corpus = os.path.join(ROOT, "corpus", "C11", "loop.jsonl")
    if os.path.exists(corpus):
        outp = os.path.join(ck.work, "loop_corpus.jsonl")
        rc, out = ck.go_run("tqloop", ["--cases", corpus, "--out", outp])
        if rc != 0:
            ck.obligation("harness tqloop ran the corpus", False, out[-1500:])
            return
        for i, c in enumerate(load(outp)):
            c["id"] = 2000000 + i
            cases.append(c)
    n = ck.n(400, 6000)
    outp = os.path.join(ck.work, "loop_gen.jsonl")
    rc, out = ck.go_run("tqloop", ["--seed", ck.seed, "--n", n, "--out", outp])
    if rc != 0:
        ck.obligation("harness tqloop ran", False, out[-1500:])
        return
    cases += load(outp)
    byid = {c["id"]: c for c in cases}
    # what the harness itself can see of a statement
    errs = [c["id"] for c in cases if c.get("err")]
    ck.obligation("loop tie: ComplexRequestProcessor.Process answered %d portioned searches without error" % len(cases), not errs,
                  "ids %s e.g. %r" % (errs[:5], byid[errs[0]]["err"] if errs else ""))
    shape = [c["id"] for c in cases if not c.get("err") and (c.get("unknown_cached") or any(
        (not st["from_consistent"]) or st["to"] != c["to"] or st["sqllimit"] != c["limit"] for st in c["steps"]))]
    ck.obligation("loop tie: every statement of the loop carries one lower bound in all its window conditions, the request's upper bound, "
                  "the request's LIMIT and only ids of returned traces as cached ids", not shape, "ids %s" % shape[:5])
    if shape:
        w = byid[shape[0]]
        ck.violation({"property": "C11", "kind": "a statement of the portion loop has an inconsistent window / limit / cached id list",
                      "replay": "harness tqloop --cases <file with case>", "case": {k: w[k] for k in ("limit", "portions", "from0", "to", "all", "tiebreak")},
                      "steps": w["steps"]})
    good = [c for c in cases if not c.get("err")]
    bad = []
    for k in range(0, len(good), 1500):
        sub = good[k:k + 1500]
        txt = (LOOP_HEADER + "\n".join("Definition l%d : loop_case := %s." % (c["id"], loop_case_to_coq(c)) for c in sub)
               + "\nDefinition cases : list loop_case := " + coq_list(["l%d" % c["id"] for c in sub]) + ".\n"
               "Definition LC := Eval vm_compute in loop_codes cases.\nPrint LC.\n")
        rc, out = ck.coq_eval("C11_loop_%d" % (k // 1500), txt)
        flat = " ".join(out.split())
        m = re.search(r"LC = (\[.*\]|nil)\s*: list", flat)
        if rc != 0 or not m:
            ck.obligation("recorded runs of the portion loop evaluated inside Coq", False, out[-1500:])
            return
        bad += [tuple(int(x) for x in t) for t in re.findall(r"\((-?\d+)(?:%Z)?, \((-?\d+)(?:%Z)?, (\d+)(?:%N)?, (-?\d+)(?:%Z)?, (-?\d+)(?:%Z)?\)\)", m.group(1))]
    harness_bad = [b for b in bad if b[1] in (4, 7)]
    ck.obligation("loop tie: the scripted back-end answered every statement with a top-`limit` selection of its visible rows, newest first "
                  "(the hypothesis of `reach`), cases inside the theorem's hypotheses", not harness_bad, str(harness_bad[:5]))
    real = [b for b in bad if b[1] not in (4, 7)]
    ck.obligation("loop tie: on %d recorded runs (%d statements) of the real ComplexRequestProcessor every statement carries the portion, cached ids "
                  "and lower bound of the model (next_from), the run is a path of `reach` and the answer a top-`limit` selection of the window" % (
                      len(good), sum(len(c["steps"]) for c in good)), not real, str(real[:5]))
    if real:
        cid, code, st, exp, got = min(real, key=lambda b: (len(byid[b[0]]["all"]), byid[b[0]]["portions"], b[0]))
        w = byid[cid]
        ck.violation({"property": "C11", "kind": "portion loop of ComplexRequestProcessor: " + LOOP_CODES.get(code, "code %d" % code),
                      "query": '{.a = "b"}', "limit": w["limit"], "complexity": "%d x COMPLEXITY_THRESHOLD (%d portions)" % (w["portions"], w["portions"]),
                      "window": [w["from0"], w["to"]], "database": w["all"], "differing_portion": st,
                      "model_lower_bound" if code == 3 else "expected": exp, "sent_lower_bound" if code == 3 else "got": got,
                      "steps": w["steps"], "final": w["final"],
                      "explanation": "model/TraceqlPortions.v loop_code: the recorded statements of the real loop replayed against reach/next_from",
                      "replay": "harness tqloop --cases <file with case>", "case": {k: w[k] for k in ("limit", "portions", "from0", "to", "all", "tiebreak")}})
    raised = sum(1 for c in good if any(st["from"] != c["from0"] for st in c["steps"]))
    ties = 0
    for c in good:
        keys = sorted((t["key"] for t in c["all"] if c["from0"] <= t["key"] < c["to"]), reverse=True)
        if len(keys) > c["limit"] and keys[c["limit"] - 1] == keys[c["limit"]]:
            ties += 1
    ck.extra["loop_tie"] = {"runs": len(good), "statements": sum(len(c["steps"]) for c in good), "runs_with_raised_lower_bound": raised,
                            "runs_with_a_tie_at_the_cut": ties, "runs_with_whole_second_keys": sum(1 for c in good if any(t["key"] % 10**9 == 0 for t in c["all"])),
                            "portions": {str(p): sum(1 for c in good if c["portions"] == p) for p in sorted(set(c["portions"] for c in good))},
                            "limits": {str(p): sum(1 for c in good if c["limit"] == p) for p in sorted(set(c["limit"] for c in good))}}
    ck.coverage["evaluations"] += len(good)
    ck.coverage["distinct_nontrivial"] += len(set(json.dumps([c["limit"], c["portions"], [(t["key"] - c["from0"], t["part"]) for t in c["all"]]]) for c in good if len(c["steps"]) >= 2 and c["all"]))
    ck.coverage["rule"] += ("portion loop: generated (limit, portions, window, <= 12 matching traces with colliding keys and hash classes); non-trivial = at least two portions and one trace; "
                            "distinct by limit, portions and the (key offset, class) list. ")

def run(ck):
    ck.trusted += [
        "C11: the loop tie (harness/cmd/tqloop) answers the statements of ComplexRequestProcessor from a scripted back-end that reads the portion filter, cached ids, window bounds and LIMIT off the SQL text (one span and one time per trace); the selection semantics of those statements is the subject of the other obligations",
        "C11: the participle parser is not modelled: the model starts from the tree the real parser built (dumped by the harness)",
        "C11: TraceqlSem.v's evaluator is a model of the ClickHouse subset the planners emit (no ClickHouse binary here): WHERE/GROUP BY/HAVING/ORDER BY/LIMIT, any/max/groupArray/groupBitOr/anyIf/avgIf.., bitShiftLeft/bitAnd, toFloat64OrNull, match, INTERSECT/UNION ALL, ARRAY JOIN; Float64 as exact rationals",
        "C11: strconv.ParseFloat+FloatVal.String (FormatFloat 'f' -1), time.ParseDuration and json unquoting are modelled on a stated domain (<=15 significant digits; plain ASCII) and taken from the Go library (called by the harness) outside it",
    ]
    # Everything is built first; then the props file is re-compiled for its Print Assumptions output (about 30 s: 39 theorems over a large
    # dependency closure) on a thread of its own while the harnesses and the case files run.  The thread reports into a copy of the
    # checker whose obligations are put in front of the others afterwards, so the evidence keeps one deterministic order.
    import copy
    import threading
    okm, out = ck.coq_make(["props/C11.vo", "model/TraceqlCase.vo", "model/TraceqlPortions.vo", "proofs/TraceqlScope.vo"])
    if not okm:
        ck.coq_props()
        ck.obligation("model/TraceqlCase.v and proofs/TraceqlScope.v compile", False, out[-1500:])
        return
    ck2 = copy.copy(ck)
    ck2.obligations, ck2.assumptions, ck2.checker_cmds = [], [], []
    th = threading.Thread(target=ck2.coq_props)
    th.start()
    try:
        run_loop(ck)
        r = run_text(ck)
    finally:
        th.join()
        ck.obligations[:0] = ck2.obligations
        ck.assumptions[:0] = ck2.assumptions
        ck.checker_cmds[:0] = ck2.checker_cmds
        ck.theorems = getattr(ck2, "theorems", [])
        if hasattr(ck2, "build_log"):
            ck.build_log = ck2.build_log
    if r is None:
        return
    cases, parsed, usable, mism, viol, sem, stats, byid = r
    ck.obligation("syntax oracle wf_sel accepts every statement the planners built", not viol, "ids %s" % viol[:10])
    if viol:
        worst = min((byid[i] for i in viol), key=lambda c: len(c["q"]))
        ck.violation({"property": "C11", "kind": "generated SQL is not a well-formed statement", "query": qtext(worst),
                      "mode": worst["mode"], "ctx": worst["ctx"], "sql": [unhex(o["sql"]).decode() for o in worst["obs"] if "sql" in o],
                      "explanation": "wf_sel (model/TqSql.v) rejects the object tree the planners built for this query",
                      "replay": "harness traceql --cases <file with {q,mode,key,ctx,calls}>", "case": {k: worst[k] for k in ("q", "mode", "key", "ctx", "calls")}})
    # semantic oracle: the implementation's statement, evaluated over generated attribute-index contents, against the meaning of the script
    judged = [c for c in usable if c.get("dbs")]
    bad = [(i, cd) for i, cd in sem if cd in (1, 2)]
    # the recorded finding: more than 100 matched spans of one trace (groupArray(100)); only the corpus witness of that class
    known = ck.known_findings()
    if "span-list-cut-at-100" in known:
        cut = [(i, cd) for i, cd in bad if cd == 2 and byid[i]["class"] == "corpus:span-cut"]
        if cut:
            ck.report_known("span-list-cut-at-100", "%r over a trace with 101 matching spans: returned with 100 of them" % qtext(byid[cut[0][0]]))
            bad = [x for x in bad if x not in cut]
    ck.obligation("semantic oracle: on %d searches x %d generated databases the statement selects the traces and spans the script describes" % (
        len(judged), ck.n(2, 4)), not bad, "ids %s e.g. %r" % (bad[:8], qtext(byid[bad[0][0]]) if bad else ""))
    if bad:
        i, cd = min(bad, key=lambda x: (len(byid[x[0]]["q"]), x[0]))
        w = byid[i]
        ck.violation({"property": "C11", "kind": "statement does not evaluate (ClickHouse would reject it)" if cd == 1 else "statement selects other traces/spans than the script describes",
                      "query": qtext(w), "ctx": w["ctx"], "databases": w["dbs"],
                      "sql": [unhex(o["sql"]).decode() for o in w["obs"] if "sql" in o][:1],
                      "explanation": "model/TraceqlCase.v sem_code: eval_sel of the implementation's statement (CTE index_grouped) over these index rows vs traceql_sem",
                      "replay": "harness traceql --cases <file with case>; then evaluate with the databases above",
                      "case": {k: w[k] for k in ("q", "mode", "key", "ctx", "calls")}})
    if mism and not viol and not bad:
        i = mism[0][0]
        ck.violation({"property": "C11", "kind": "model/implementation disagree; both oracles accept the implementation's statements on the generated databases",
                      "query": qtext(byid[i]), "codes": [cd for j, cd in mism if j == i],
                      "case": {k: byid[i][k] for k in ("q", "mode", "key", "ctx", "calls")}}, no_input=True)
    ck.extra["semantic_oracle"] = {"searches_judged": len(judged), "databases_each": ck.n(2, 4), "disagree": len(bad)}
    hist = {}
    distinct = set()
    for c in cases:
        hist[c["class"]] = hist.get(c["class"], 0) + 1
    for c in usable:
        if any("sql" in o for o in c.get("obs") or []):
            distinct.add(c["q"] + c["mode"])
    ck.coverage["evaluations"] += len(cases)
    ck.coverage["distinct_nontrivial"] += len(distinct)
    ck.coverage["rule"] += ("queries: grammar-driven TraceQL text (nested and/or with parentheses, repeated terms, span./resource./. prefixes and name, all operators, "
                            "durations, aggregators with units, selector pairs and chains, {} forms, malformed text; every 10th query a point of the confusable-term grid: two or three "
                            "conditions of one selector whose literals / operators / labels a printer might conflate, literals up to 520 bytes); non-trivial = parsed and planned to a statement; distinct by query text+mode. ")
    ck.extra["input_distribution"] = hist
    ck.extra["parse_rejected"] = len(cases) - len(parsed)
    ck.extra["raw_fragments_untranslated"] = stats.get("raw_fallback", 0)
    # how much of the generated input space the statement-level theorems speak about (the oracle judges all of it)
    ck.extra["inside_theorem_hypotheses"] = {"traceql_correct_single": stats.get("scope_single", 0), "traceql_correct_agg": stats.get("scope_agg", 0),
                                             "traceql_correct_chain": stats.get("scope_chain", 0),
                                             "traceql_correct_single/agg_portion": stats.get("scope_portion", 0),
                                             "of_cases": len(usable)}
    # the tie of the de-duplication key: how far the generated literals reach (token lengths, common prefixes inside one label/operator slot)
    def common_prefix(a, b):
        n = 0
        while n < len(a) and n < len(b) and a[n] == b[n]:
            n += 1
        return n
    lens = {"<=48": 0, "49-64": 0, "65-256": 0, ">256": 0}
    cps = {"<48": 0, "48-63": 0, "64-255": 0, ">=256": 0}
    for c in parsed:
        ts, _ = script_terms(c["ast"])
        for _, _, v in ts:
            tok = unhex(v["s"]) if v["s"] is not None else (v["f"] or v["t"]).encode()
            n = len(tok)
            lens["<=48" if n <= 48 else "49-64" if n <= 64 else "65-256" if n <= 256 else ">256"] += 1
        for _, terms, _ in same_slot_groups(c["ast"]):
            toks = [unhex(v["s"]) if v["s"] is not None else (v["f"] or v["t"]).encode() for _, _, v in terms]
            for i in range(len(toks)):
                for j in range(i + 1, len(toks)):
                    if terms[i][0] == terms[j][0] and terms[i][1] == terms[j][1] and toks[i] != toks[j]:
                        n = common_prefix(toks[i], toks[j])
                        cps["<48" if n < 48 else "48-63" if n < 64 else "64-255" if n < 256 else ">=256"] += 1
    kinds = {}
    for c in cases:
        if c["class"].startswith("confusable:"):
            k = c["class"].split(":")[1].split("+")[0]
            kinds[k] = kinds.get(k, 0) + 1
    ck.extra["key_tie"] = {"terms_compared_with_the_real_String()": stats.get("key_terms", 0), "longest_key_bytes": stats.get("key_longest", 0),
                           "queries_with_several_different_terms_on_one_attribute": stats.get("key_groups", 0),
                           "value_token_bytes": lens, "common_prefix_bytes_of_two_literals_under_one_label_and_operator": cps,
                           "confusable_kinds": kinds, "searches_with_a_separating_database": sum(1 for c in usable if c.get("sep_db")),
                           "key_collisions": len(stats.get("key_collisions", []))}
    ck.add_samples([{"query": qtext(c), "mode": c["mode"], "sql_prefix": unhex(c["obs"][0]["sql"]).decode()[:300]} for c in usable if c.get("obs") and "sql" in c["obs"][0]][:3])
