module verif/harness

go 1.24.0

toolchain go1.24.2
require github.com/metrico/qryn v0.0.0

require (
	github.com/ClickHouse/ch-go v0.65.1
	github.com/ClickHouse/clickhouse-go/v2 v2.34.0
	github.com/Masterminds/sprig v2.22.0+incompatible
	github.com/VictoriaMetrics/fastcache v1.12.2
	github.com/alecthomas/participle/v2 v2.1.1
	github.com/avast/retry-go v3.0.0+incompatible
	github.com/bradleyjkemp/cupaloy v2.3.0+incompatible
	github.com/c2h5oh/datasize v0.0.0-20231215233829-aa82cc1e6500
	github.com/go-faster/city v1.0.1
	github.com/go-faster/jx v1.1.0
	github.com/go-kit/kit v0.13.0
	github.com/go-logfmt/logfmt v0.6.0
	github.com/gofiber/fiber/v2 v2.52.5
	github.com/gofiber/websocket/v2 v2.2.1
	github.com/golang/snappy v1.0.0
	github.com/google/pprof v0.0.0-20241029153458-d1b30febd7db
	github.com/gorilla/mux v1.8.1
	github.com/gorilla/schema v1.4.1
	github.com/gorilla/websocket v1.5.3
	github.com/grafana/pyroscope-go v1.2.0
	github.com/grafana/regexp v0.0.0-20240518133315-a468a5bfb3bc
	github.com/influxdata/telegraf v1.34.1
	github.com/jmoiron/sqlx v1.4.0
	github.com/json-iterator/go v1.1.12
	github.com/kr/logfmt v0.0.0-20210122060352-19f9bcb100e6
	github.com/labstack/gommon v0.4.2
	github.com/lestrrat-go/file-rotatelogs v2.4.0+incompatible
	github.com/m3db/prometheus_remote_client_golang v0.4.4
	github.com/metrico/cloki-config v0.0.82
	github.com/mochi-co/mqtt v1.3.2
	github.com/openzipkin/zipkin-go v0.4.3
	github.com/pkg/errors v0.9.1
	github.com/prometheus/client_golang v1.20.5
	github.com/prometheus/common v0.63.0
	github.com/prometheus/prometheus v1.8.2-0.20220714142409-b41e0750abf5
	github.com/sirupsen/logrus v1.9.3
	github.com/stretchr/testify v1.10.0
	github.com/valyala/bytebufferpool v1.0.0
	github.com/valyala/fasthttp v1.52.0
	github.com/valyala/fastjson v1.6.4
	go.opentelemetry.io/collector/pdata v1.25.0
	go.opentelemetry.io/proto/otlp v1.4.0
	golang.org/x/exp v0.0.0-20250106191152-7588d65b2ba8
	golang.org/x/sync v0.12.0
	google.golang.org/grpc v1.70.0
	google.golang.org/protobuf v1.36.5
	gopkg.in/go-playground/validator.v9 v9.31.0
	gopkg.in/yaml.v2 v2.4.0
)
require (
	cel.dev/expr v0.19.1 // indirect
	filippo.io/edwards25519 v1.1.0 // indirect
	github.com/Masterminds/goutils v1.1.1 // indirect
	github.com/Masterminds/semver v1.5.0 // indirect
	github.com/alecthomas/units v0.0.0-20240626203959-61d1e3462e30 // indirect
	github.com/andybalholm/brotli v1.1.1 // indirect
	github.com/antlr4-go/antlr/v4 v4.13.1 // indirect
	github.com/awnumar/memcall v0.3.0 // indirect
	github.com/awnumar/memguard v0.22.5 // indirect
	github.com/aws/aws-sdk-go v1.55.5 // indirect
	github.com/beorn7/perks v1.0.1 // indirect
	github.com/cespare/xxhash/v2 v2.3.0 // indirect
	github.com/compose-spec/compose-go v1.20.2 // indirect
	github.com/coreos/go-semver v0.3.1 // indirect
	github.com/davecgh/go-spew v1.1.2-0.20180830191138-d8f796af33cc // indirect
	github.com/dennwc/varint v1.0.0 // indirect
	github.com/dmarkham/enumer v1.5.10 // indirect
	github.com/edsrzf/mmap-go v1.1.0 // indirect
	github.com/fasthttp/websocket v1.5.3 // indirect
	github.com/fatih/color v1.18.0 // indirect
	github.com/felixge/httpsnoop v1.0.4 // indirect
	github.com/fsnotify/fsnotify v1.7.0 // indirect
	github.com/go-faster/errors v0.7.1 // indirect
	github.com/go-kit/log v0.2.1 // indirect
	github.com/go-logr/logr v1.4.2 // indirect
	github.com/go-logr/stdr v1.2.2 // indirect
	github.com/go-playground/locales v0.14.0 // indirect
	github.com/go-playground/universal-translator v0.18.0 // indirect
	github.com/gobwas/glob v0.2.3 // indirect
	github.com/gogo/protobuf v1.3.2 // indirect
	github.com/golang-jwt/jwt/v5 v5.2.2 // indirect
	github.com/golang/protobuf v1.5.4 // indirect
	github.com/google/cel-go v0.23.0 // indirect
	github.com/google/uuid v1.6.0 // indirect
	github.com/grafana/pyroscope-go/godeltaprof v0.1.8 // indirect
	github.com/hashicorp/go-version v1.7.0 // indirect
	github.com/hashicorp/hcl v1.0.0 // indirect
	github.com/huandu/xstrings v1.5.0 // indirect
	github.com/imdario/mergo v0.3.16 // indirect
	github.com/influxdata/toml v0.0.0-20190415235208-270119a8ce65 // indirect
	github.com/jedib0t/go-pretty/v6 v6.6.5 // indirect
	github.com/jmespath/go-jmespath v0.4.0 // indirect
	github.com/jonboulle/clockwork v0.4.0 // indirect
	github.com/jpillora/backoff v1.0.0 // indirect
	github.com/julienschmidt/httprouter v1.3.0 // indirect
	github.com/klauspost/compress v1.17.11 // indirect
	github.com/klauspost/pgzip v1.2.6 // indirect
	github.com/kylelemons/godebug v1.1.0 // indirect
	github.com/leodido/go-urn v1.2.1 // indirect
	github.com/lestrrat-go/strftime v1.1.0 // indirect
	github.com/magiconair/properties v1.8.9 // indirect
	github.com/mattn/go-colorable v0.1.14 // indirect
	github.com/mattn/go-isatty v0.0.20 // indirect
	github.com/mattn/go-runewidth v0.0.16 // indirect
	github.com/mcuadros/go-defaults v1.2.0 // indirect
	github.com/mitchellh/copystructure v1.2.0 // indirect
	github.com/mitchellh/mapstructure v1.5.1-0.20220423185008-bf980b35cac4 // indirect
	github.com/mitchellh/reflectwalk v1.0.2 // indirect
	github.com/modern-go/concurrent v0.0.0-20180306012644-bacd9c7ef1dd // indirect
	github.com/modern-go/reflect2 v1.0.2 // indirect
	github.com/munnerz/goautoneg v0.0.0-20191010083416-a7dc8b61c822 // indirect
	github.com/mwitkow/go-conntrack v0.0.0-20190716064945-2f068394615f // indirect
	github.com/naoina/go-stringutil v0.1.0 // indirect
	github.com/oklog/ulid v1.3.1 // indirect
	github.com/pascaldekloe/name v1.0.1 // indirect
	github.com/paulmach/orb v0.11.1 // indirect
	github.com/pelletier/go-toml/v2 v2.0.8 // indirect
	github.com/pierrec/lz4/v4 v4.1.22 // indirect
	github.com/pmezard/go-difflib v1.0.1-0.20181226105442-5d4384ee4fb2 // indirect
	github.com/prometheus/client_model v0.6.1 // indirect
	github.com/prometheus/common/sigv4 v0.1.0 // indirect
	github.com/prometheus/procfs v0.15.1 // indirect
	github.com/rivo/uniseg v0.4.7 // indirect
	github.com/rs/xid v1.5.0 // indirect
	github.com/savsgio/gotils v0.0.0-20230208104028-c358bd845dee // indirect
	github.com/segmentio/asm v1.2.0 // indirect
	github.com/shopspring/decimal v1.4.0 // indirect
	github.com/spf13/afero v1.11.0 // indirect
	github.com/spf13/cast v1.7.1 // indirect
	github.com/spf13/jwalterweatherman v1.1.0 // indirect
	github.com/spf13/pflag v1.0.5 // indirect
	github.com/spf13/viper v1.16.0 // indirect
	github.com/stoewer/go-strcase v1.3.0 // indirect
	github.com/stretchr/objx v0.5.2 // indirect
	github.com/subosito/gotenv v1.4.2 // indirect
	github.com/tidwall/gjson v1.18.0 // indirect
	github.com/tidwall/match v1.1.1 // indirect
	github.com/tidwall/pretty v1.2.1 // indirect
	github.com/tidwall/tinylru v1.2.1 // indirect
	github.com/tidwall/wal v1.1.8 // indirect
	github.com/valyala/fasttemplate v1.2.2 // indirect
	github.com/valyala/tcplisten v1.0.0 // indirect
	go.opentelemetry.io/auto/sdk v1.1.0 // indirect
	go.opentelemetry.io/contrib/instrumentation/net/http/otelhttp v0.59.0 // indirect
	go.opentelemetry.io/otel v1.35.0 // indirect
	go.opentelemetry.io/otel/metric v1.35.0 // indirect
	go.opentelemetry.io/otel/trace v1.35.0 // indirect
	go.step.sm/crypto v0.59.1 // indirect
	go.uber.org/atomic v1.11.0 // indirect
	go.uber.org/goleak v1.3.0 // indirect
	go.uber.org/multierr v1.11.0 // indirect
	go.uber.org/zap v1.27.0 // indirect
	golang.org/x/crypto v0.36.0 // indirect
	golang.org/x/mod v0.23.0 // indirect
	golang.org/x/net v0.36.0 // indirect
	golang.org/x/oauth2 v0.28.0 // indirect
	golang.org/x/sys v0.31.0 // indirect
	golang.org/x/text v0.23.0 // indirect
	golang.org/x/time v0.10.0 // indirect
	golang.org/x/tools v0.30.0 // indirect
	google.golang.org/genproto/googleapis/api v0.0.0-20250219182151-9fdb1cabc7b2 // indirect
	google.golang.org/genproto/googleapis/rpc v0.0.0-20250219182151-9fdb1cabc7b2 // indirect
	gopkg.in/ini.v1 v1.67.0 // indirect
	gopkg.in/yaml.v3 v3.0.1 // indirect
)

replace github.com/metrico/qryn => /repo

replace (
	cloud.google.com/go/compute v0.2.0 => cloud.google.com/go/compute v1.7.0
	github.com/docker/distribution v2.7.1+incompatible => github.com/docker/distribution v2.8.0+incompatible
	github.com/pascaldekloe/mqtt v1.0.0 => github.com/metrico/mqtt v1.0.1-0.20220314083119-cb53cdb0fcbe
	github.com/prometheus/common v0.63.0 => github.com/prometheus/common v0.61.0
	github.com/prometheus/prometheus v0.300.1 => github.com/prometheus/prometheus v1.8.2-0.20220714142409-b41e0750abf5
	//TODO: remove this
	go.opentelemetry.io/collector/pdata v1.12.0 => go.opentelemetry.io/collector/pdata v0.62.1
	go.opentelemetry.io/otel v1.19.0 => go.opentelemetry.io/otel v1.7.0
	go.opentelemetry.io/otel/internal/global v1.19.0 => go.opentelemetry.io/otel/internal/global v1.7.0
	go.opentelemetry.io/otel/metric v1.21.0 => go.opentelemetry.io/otel/metric v0.30.0
	google.golang.org/grpc v1.47.0 => google.golang.org/grpc v1.45.0
	gopkg.in/fatih/pool.v2 v2.0.0 => gopkg.in/fatih/pool.v3 v3.0.0
	k8s.io/api v0.32.3 => k8s.io/api v0.24.17
	k8s.io/apimachinery v0.32.3 => k8s.io/apimachinery v0.24.17
	k8s.io/client-go v12.0.0+incompatible => k8s.io/client-go v0.22.1

)
