// Package sqlparse parses the SQL subset printed by qryn's reader (reader/utils/sql_select and the
// planner-local objects) into the object tree of coq/model/Sql.v and prints that tree as a Coq term or
// as an OCaml term for the extracted models.
//
// The parser is UNTRUSTED: it is guided by the printer's format (clause keywords in upper case with
// single spaces, LogicalOp clauses in parentheses, ...) and every result is validated by the model side:
// `render (parse s) = s` byte for byte (coq/model/SqlRender.v) plus `wf_parsed` (coq/model/Scans.v: no
// table read hides in a raw leaf, every CTE reference is bound). A statement it cannot parse is an error.
//
//	n, err := sqlparse.Parse(sql)   // n.Coq(), n.ML()
//	norm := sqlparse.Normalize(sql) // the text the tree renders to (see Normalize)
package sqlparse

import (
	"errors"
	"fmt"
	"strconv"
	"strings"

	"verif/harness/coqx"
)

// Node is an SQL object (expr of Sql.v); Kind "sel" carries a Select.
type Node struct {
	Kind string // raw id str int lop in wref col ord fn sep subq sel
	S    string
	Z    int64
	B    bool
	Kids []*Node
	L    *Node
	Sel  *Select
}

type With struct {
	Alias string
	Q     *Select
}
type Join struct {
	Tp    string
	Table *Node
	On    *Node
}
type Select struct {
	Distinct bool
	Cols     []*Node
	From     *Node
	Where    *Node
	Prewhere *Node
	Having   *Node
	GroupBy  []*Node
	OrderBy  []*Node
	Limit    *Node
	Offset   *Node
	Withs    []With
	Joins    []Join
	Unions   []*Select
}

// ---------------------------------------------------------------- lexical helpers

// skipQuote: s[i] is a quote character; returns the index just after the closing quote.
func skipQuote(s string, i int) int {
	q := s[i]
	i++
	for i < len(s) {
		if s[i] == '\\' && q == '\'' {
			i += 2
			continue
		}
		if s[i] == q {
			return i + 1
		}
		i++
	}
	return len(s)
}

// matchParen: s[i] == '(' or '['; index of the matching closer, -1 if unbalanced.
func matchParen(s string, i int) int {
	depth := 0
	for i < len(s) {
		switch s[i] {
		case '\'', '`':
			i = skipQuote(s, i)
			continue
		case '(', '[':
			depth++
		case ')', ']':
			depth--
			if depth == 0 {
				return i
			}
		}
		i++
	}
	return -1
}

// find0: first index >= from of kw at nesting depth 0 outside quotes, -1 if none.
func find0(s, kw string, from int) int {
	depth := 0
	i := 0
	for i < len(s) {
		if depth == 0 && i >= from && strings.HasPrefix(s[i:], kw) {
			return i
		}
		switch s[i] {
		case '\'', '`':
			i = skipQuote(s, i)
			continue
		case '(', '[':
			depth++
		case ')', ']':
			depth--
		}
		i++
	}
	return -1
}

func findAll0(s, kw string) []int {
	var res []int
	from := 0
	for {
		i := find0(s, kw, from)
		if i < 0 {
			return res
		}
		res = append(res, i)
		from = i + len(kw)
	}
}

func split0(s, sep string) []string {
	if s == "" {
		return nil
	}
	var res []string
	last := 0
	for _, i := range findAll0(s, sep) {
		if i < last {
			continue
		}
		res = append(res, s[last:i])
		last = i + len(sep)
	}
	return append(res, s[last:])
}

func isIdentChar(c byte) bool {
	return c == '_' || (c >= '0' && c <= '9') || (c >= 'a' && c <= 'z') || (c >= 'A' && c <= 'Z')
}
func isIdent(s string) bool {
	if s == "" || (s[0] >= '0' && s[0] <= '9') {
		return false
	}
	for i := 0; i < len(s); i++ {
		if !isIdentChar(s[i]) {
			return false
		}
	}
	return true
}
func isPath(s string) bool {
	if s == "" || (s[0] >= '0' && s[0] <= '9') || s[0] == '.' || s[len(s)-1] == '.' {
		return false
	}
	for i := 0; i < len(s); i++ {
		if !isIdentChar(s[i]) && s[i] != '.' && s[i] != '`' {
			return false
		}
	}
	return true
}

func isSelectText(s string) bool {
	return strings.HasPrefix(s, " SELECT ") || (strings.HasPrefix(s, "WITH ") && find0(s, " SELECT ", 0) > 0)
}

// StringVal.String of sql_select
func quote(v string) string {
	r := strings.NewReplacer("\\", "\\\\", "\x00", "\\0", "\n", "\\n", "\r", "\\r", "\b", "\\b", "\t", "\\t", "\x1a", "\\x1a", "'", "\\'")
	return "'" + r.Replace(v) + "'"
}
func unquote(t string) (string, bool) {
	if len(t) < 2 || t[0] != '\'' || skipQuote(t, 0) != len(t) {
		return "", false
	}
	body := t[1 : len(t)-1]
	var b strings.Builder
	for i := 0; i < len(body); i++ {
		c := body[i]
		if c != '\\' {
			b.WriteByte(c)
			continue
		}
		if i+1 >= len(body) {
			return "", false
		}
		i++
		switch body[i] {
		case '\\':
			b.WriteByte('\\')
		case '0':
			b.WriteByte(0)
		case 'n':
			b.WriteByte('\n')
		case 'r':
			b.WriteByte('\r')
		case 'b':
			b.WriteByte('\b')
		case 't':
			b.WriteByte('\t')
		case '\'':
			b.WriteByte('\'')
		case 'x':
			if i+2 < len(body) && body[i+1] == '1' && body[i+2] == 'a' {
				b.WriteByte(0x1a)
				i += 2
			} else {
				return "", false
			}
		default:
			return "", false
		}
	}
	v := b.String()
	if quote(v) != t {
		return "", false
	}
	return v, true
}

// ---------------------------------------------------------------- normalisation

// Normalize removes the one printing irregularity that the Select object of Sql.v cannot express: a WITH
// item whose body is wrapped in a redundant pair of parentheses, `alias as (( SELECT ... ))` (the profile
// planners wrap the fingerprint request in brackets). The inner pair is dropped.
func Normalize(s string) string {
	var b strings.Builder
	i := 0
	for i < len(s) {
		if s[i] == '\'' || s[i] == '`' {
			j := skipQuote(s, i)
			b.WriteString(s[i:j])
			i = j
			continue
		}
		if strings.HasPrefix(s[i:], " as ((") {
			outer := i + 4
			oc := matchParen(s, outer)
			ic := matchParen(s, outer+1)
			if oc > 0 && ic == oc-1 && isSelectText(s[outer+2:ic]) {
				b.WriteString(" as (")
				b.WriteString(Normalize(s[outer+2 : ic]))
				b.WriteString(")")
				i = oc + 1
				continue
			}
			// alias as ((S1) UNION ALL (S2) ...): the unionAll wrapper of the profile planners prints every member in
			// parentheses; the Select object of Sql.v prints `S1 UNION ALL S2` inside one pair
			if oc > 0 {
				var members []string
				pos := outer + 1
				for pos < oc && s[pos] == '(' {
					c := matchParen(s, pos)
					if c < 0 || !isSelectText(s[pos+1:c]) {
						members = nil
						break
					}
					members = append(members, s[pos+1:c])
					pos = c + 1
					if strings.HasPrefix(s[pos:], " UNION ALL ") {
						pos += len(" UNION ALL ")
						continue
					}
					break
				}
				if len(members) >= 2 && pos == oc {
					b.WriteString(" as (")
					for k, m := range members {
						if k > 0 {
							b.WriteString(" UNION ALL ")
						}
						b.WriteString(Normalize(m))
					}
					b.WriteString(")")
					i = oc + 1
					continue
				}
			}
		}
		b.WriteByte(s[i])
		i++
	}
	return b.String()
}

// ---------------------------------------------------------------- parser

type env struct {
	names  []string
	inWith bool // inside the body of a WITH item: the printer passes STRING_OPT_SKIP_WITH down
}

func (e env) has(a string) bool {
	for _, x := range e.names {
		if x == a {
			return true
		}
	}
	return false
}
func (e env) bind(a string) env {
	return env{names: append(append([]string{}, e.names...), a), inWith: e.inWith}
}

// Parse parses one statement (after Normalize).
func Parse(sql string) (n *Node, err error) {
	defer func() {
		if r := recover(); r != nil {
			n, err = nil, fmt.Errorf("sqlparse: %v", r)
		}
	}()
	s := Normalize(sql)
	if !isSelectText(s) {
		return nil, errors.New("sqlparse: not a SELECT statement in the printer's format")
	}
	sel := parseChain(s, env{})
	return &Node{Kind: "sel", Sel: sel}, nil
}

func fail(f string, a ...interface{}) { panic(fmt.Sprintf(f, a...)) }

func parseChain(s string, e env) *Select {
	parts := split0(s, " UNION ALL ")
	main := parseSingle(parts[0], e)
	for _, p := range parts[1:] {
		main.Unions = append(main.Unions, parseSingle(p, e))
	}
	return main
}

var clauseKW = []string{" FROM ", " PREWHERE ", " WHERE ", " GROUP BY ", " HAVING ", " ORDER BY ", " LIMIT ", " OFFSET ", " SETTINGS "}

func parseSingle(s string, outer env) *Select {
	sel := &Select{}
	e := outer
	pos := 0
	if strings.HasPrefix(s, "WITH ") {
		pos = 5
		type item struct {
			alias, body string
		}
		var items []item
		for {
			k := strings.Index(s[pos:], " as (")
			if k < 0 {
				fail("WITH item without body at %d", pos)
			}
			alias := s[pos : pos+k]
			if !isIdent(alias) {
				fail("WITH alias %q", alias)
			}
			open := pos + k + 4
			cl := matchParen(s, open)
			if cl < 0 {
				fail("unbalanced WITH body")
			}
			items = append(items, item{alias, s[open+1 : cl]})
			pos = cl + 1
			if pos < len(s) && s[pos] == ',' {
				pos++
				continue
			}
			break
		}
		for _, it := range items {
			e = e.bind(it.alias)
		}
		be := e
		be.inWith = true
		for _, it := range items {
			if !isSelectText(it.body) {
				fail("WITH body of %s is not a select", it.alias)
			}
			sel.Withs = append(sel.Withs, With{it.alias, parseChain(it.body, be)})
		}
	}
	if !strings.HasPrefix(s[pos:], " SELECT ") {
		fail("expected SELECT at %d: %.40q", pos, s[pos:])
	}
	pos += 8
	if strings.HasPrefix(s[pos:], " DISTINCT ") {
		sel.Distinct = true
		pos += 10
	}
	// clause boundaries, in the printer's order
	type seg struct {
		kw   int
		from int
	}
	var segs []seg
	cur := pos
	for ki, kw := range clauseKW {
		i := find0(s, kw, cur)
		if i < 0 {
			continue
		}
		segs = append(segs, seg{ki, i})
		cur = i + len(kw)
	}
	end := func(k int) int {
		if k+1 < len(segs) {
			return segs[k+1].from
		}
		return len(s)
	}
	colsEnd := len(s)
	if len(segs) > 0 {
		colsEnd = segs[0].from
	}
	for _, c := range split0(s[pos:colsEnd], ", ") {
		sel.Cols = append(sel.Cols, pexpr(c, e))
	}
	if len(sel.Cols) == 0 {
		fail("no columns")
	}
	for k, sg := range segs {
		txt := s[sg.from+len(clauseKW[sg.kw]) : end(k)]
		switch sg.kw {
		case 0:
			parseFrom(sel, txt, e)
		case 1:
			sel.Prewhere = pexpr(txt, e)
		case 2:
			sel.Where = pexpr(txt, e)
		case 3:
			for _, c := range split0(txt, ", ") {
				sel.GroupBy = append(sel.GroupBy, pexpr(c, e))
			}
		case 4:
			sel.Having = pexpr(txt, e)
		case 5:
			for _, c := range split0(txt, ", ") {
				sel.OrderBy = append(sel.OrderBy, pord(c, e))
			}
		case 6:
			sel.Limit = pexpr(txt, e)
		case 7:
			sel.Offset = pexpr(txt, e)
		default:
			fail("SETTINGS clause not supported")
		}
	}
	return sel
}

var joinWords = map[string]bool{"global": true, "any": true, "left": true, "inner": true, "array": true, "right": true,
	"full": true, "cross": true, "all": true, "semi": true, "anti": true, "outer": true, "asof": true}

// peelJoinType splits "<body> <tp>" where tp is the maximal trailing run of join words (with its spaces).
func peelJoinType(seg string) (body, tp string) {
	j := len(seg)
	for j > 0 && seg[j-1] == ' ' {
		j--
	}
	cut := -1
	for j > 0 {
		k := j
		for k > 0 && seg[k-1] != ' ' {
			k--
		}
		if k == 0 || !joinWords[strings.ToLower(seg[k:j])] {
			break
		}
		cut = k
		j = k - 1 // the words of a type are separated by single spaces
		if j > 0 && seg[j-1] == ' ' {
			break
		}
	}
	if cut < 1 {
		fail("join without a type: %.60q", seg)
	}
	return seg[:cut-1], seg[cut:]
}

func parseFrom(sel *Select, txt string, e env) {
	js := findAll0(txt, " JOIN ")
	if len(js) == 0 {
		sel.From = pexpr(txt, e)
		return
	}
	var parts []string
	last := 0
	for _, i := range js {
		parts = append(parts, txt[last:i])
		last = i + 6
	}
	parts = append(parts, txt[last:])
	var tps []string
	bodies := make([]string, len(parts))
	for k := 0; k+1 < len(parts); k++ {
		b, tp := peelJoinType(parts[k])
		bodies[k] = b
		tps = append(tps, tp)
	}
	bodies[len(parts)-1] = parts[len(parts)-1]
	sel.From = pexpr(bodies[0], e)
	for k := 1; k < len(parts); k++ {
		tp := tps[k-1]
		b := bodies[k]
		j := Join{Tp: tp}
		if strings.ToLower(tp) == "array" {
			if !strings.HasSuffix(b, " ") {
				fail("array join operand %q", b)
			}
			j.Table = pexpr(b[:len(b)-1], e)
		} else {
			i := find0(b, " ON ", 0)
			if i < 0 {
				fail("join without ON: %.60q", b)
			}
			j.Table = pexpr(b[:i], e)
			j.On = pexpr(b[i+4:], e)
		}
		sel.Joins = append(sel.Joins, j)
	}
}

func pord(t string, e env) *Node {
	if strings.HasSuffix(t, " asc") {
		return &Node{Kind: "ord", B: true, Kids: []*Node{pexpr(t[:len(t)-4], e)}}
	}
	if strings.HasSuffix(t, " desc") {
		return &Node{Kind: "ord", B: false, Kids: []*Node{pexpr(t[:len(t)-5], e)}}
	}
	return pexpr(t, e)
}

var lops = []string{"and", "or", "==", "!=", "<=", ">=", "<", ">"}

// splitLogical recognises LogicalOp.String: (c1) op (c2) op ... (cn)
func splitLogical(t string) (groups []string, op string, ok bool) {
	if t == "" || t[0] != '(' {
		return nil, "", false
	}
	i := 0
	for {
		j := matchParen(t, i)
		if j < 0 {
			return nil, "", false
		}
		groups = append(groups, t[i+1:j])
		if j == len(t)-1 {
			if op == "" {
				op = "and"
			}
			return groups, op, true
		}
		rest := t[j+1:]
		found := ""
		for _, o := range lops {
			if strings.HasPrefix(rest, " "+o+" (") {
				found = o
				break
			}
		}
		if found == "" || (op != "" && op != found) {
			return nil, "", false
		}
		op = found
		i = j + 1 + len(found) + 2
	}
}

func pgroup(c string, e env) *Node {
	if isSelectText(c) {
		if len(findAll0(c, " INTERSECT ")) > 0 {
			return pintersect(c, e)
		}
		return psub(c, e)
	}
	return pexpr(c, e)
}

// psub: a select used as an object. Inside a WITH body the Select printer does not print a nested
// select's own WITH list (skip option), but planner-local objects that call String without the options
// do: that WITH text is kept as raw leaves in front of the select (whose s_withs still bind the aliases).
func psub(c string, e env) *Node {
	parts := split0(c, " UNION ALL ")
	hand := false
	for _, p := range parts {
		if strings.HasPrefix(p, "WITH ") {
			hand = true
		}
	}
	if !(e.inWith && hand) {
		return &Node{Kind: "subq", Sel: parseChain(c, e)}
	}
	var nodes []*Node
	for _, p := range parts {
		sel := parseSingle(p, e)
		if !strings.HasPrefix(p, "WITH ") {
			nodes = append(nodes, &Node{Kind: "subq", Sel: sel})
			continue
		}
		items := &Node{Kind: "sep", S: ","}
		for _, w := range sel.Withs {
			items.Kids = append(items.Kids, &Node{Kind: "sep", S: "", Kids: []*Node{
				{Kind: "raw", S: w.Alias + " as ("}, {Kind: "subq", Sel: w.Q}, {Kind: "raw", S: ")"}}})
		}
		nodes = append(nodes, &Node{Kind: "sep", S: "", Kids: []*Node{{Kind: "raw", S: "WITH "}, items, {Kind: "subq", Sel: sel}}})
	}
	if len(nodes) == 1 {
		return nodes[0]
	}
	return &Node{Kind: "sep", S: " UNION ALL ", Kids: nodes}
}

func pintersect(c string, e env) *Node {
	n := &Node{Kind: "sep", S: " INTERSECT "}
	for _, p := range split0(c, " INTERSECT ") {
		if !isSelectText(p) {
			fail("INTERSECT member is not a select")
		}
		n.Kids = append(n.Kids, psub(p, e))
	}
	return n
}

func pexpr(t string, e env) *Node {
	if t == "" {
		return &Node{Kind: "raw", S: ""}
	}
	// LogicalOp
	if gs, op, ok := splitLogical(t); ok {
		n := &Node{Kind: "lop", S: op}
		for _, g := range gs {
			n.Kids = append(n.Kids, pgroup(g, e))
		}
		return n
	}
	// X as alias (last top-level " as ")
	if as := findAll0(t, " as "); len(as) > 0 {
		i := as[len(as)-1]
		alias := t[i+4:]
		if isIdent(alias) && i > 0 {
			return &Node{Kind: "col", S: alias, Kids: []*Node{pexpr(t[:i], e)}}
		}
	}
	// X IN (...)
	if t[len(t)-1] == ')' {
		if i := find0(t, " IN (", 0); i > 0 && matchParen(t, i+4) == len(t)-1 {
			n := &Node{Kind: "in", L: pexpr(t[:i], e)}
			c := t[i+5 : len(t)-1]
			if isSelectText(c) {
				n.Kids = []*Node{pgroup(c, e)}
			} else {
				for _, it := range split0(c, ",") {
					n.Kids = append(n.Kids, pexpr(it, e))
				}
			}
			return n
		}
	}
	if v, ok := unquote(t); ok {
		return &Node{Kind: "str", S: v}
	}
	if z, err := strconv.ParseInt(t, 10, 64); err == nil && strconv.FormatInt(z, 10) == t {
		return &Node{Kind: "int", Z: z}
	}
	if isPath(t) {
		if e.has(t) {
			return &Node{Kind: "wref", S: t}
		}
		return &Node{Kind: "id", S: t}
	}
	// name(args)
	if i := strings.IndexByte(t, '('); i > 0 && isPath(t[:i]) && matchParen(t, i) == len(t)-1 {
		n := &Node{Kind: "fn", S: t[:i]}
		c := t[i+1 : len(t)-1]
		if isSelectText(c) {
			n.Kids = []*Node{pgroup(c, e)}
		} else {
			for _, a := range split0(c, ", ") {
				n.Kids = append(n.Kids, pexpr(a, e))
			}
		}
		return n
	}
	return pfallback(t, e)
}

// pfallback keeps text it does not understand as raw leaves, but cuts out every nested select (so that
// it is a node of the tree) and every `from <cte>` of a hand-written lower-case sub-select.
func pfallback(t string, e env) *Node {
	var parts []*Node
	last := 0
	flush := func(upto int) {
		if upto > last {
			parts = append(parts, &Node{Kind: "raw", S: t[last:upto]})
		}
	}
	i := 0
	for i < len(t) {
		c := t[i]
		if c == '\'' || c == '`' {
			i = skipQuote(t, i)
			continue
		}
		if c == '(' {
			j := matchParen(t, i)
			if j > 0 && isSelectText(t[i+1:j]) {
				flush(i + 1)
				parts = append(parts, pgroup(t[i+1:j], e))
				last = j
				i = j
				continue
			}
		}
		if (c == 'f' || c == 'F') && i+5 <= len(t) && strings.EqualFold(t[i:i+5], "from ") && (i == 0 || !isIdentChar(t[i-1])) {
			k := i + 5
			for k < len(t) && isIdentChar(t[k]) {
				k++
			}
			if k > i+5 && e.has(t[i+5:k]) {
				flush(i + 5)
				parts = append(parts, &Node{Kind: "wref", S: t[i+5 : k]})
				last = k
				i = k
				continue
			}
		}
		i++
	}
	flush(len(t))
	if len(parts) == 1 {
		return parts[0]
	}
	return &Node{Kind: "sep", S: "", Kids: parts}
}

// ---------------------------------------------------------------- printers

func (n *Node) Coq() string { return n.print(coqx.Coq) }
func (n *Node) ML() string  { return n.print(coqx.ML) }

func lopCtor(y coqx.Syn, op string) string {
	switch op {
	case "and":
		return "OAnd"
	case "or":
		return "OOr"
	case "==":
		return "OEq"
	case "!=":
		return "ONeq"
	case "<":
		return "OLt"
	case "<=":
		return "OLe"
	case ">":
		return "OGt"
	case ">=":
		return "OGe"
	}
	return y.Ctor("OOther", y.Str(op))
}

func (n *Node) list(y coqx.Syn, ns []*Node) string {
	xs := make([]string, len(ns))
	for i, k := range ns {
		xs[i] = k.print(y)
	}
	return y.List(xs)
}

func opt(y coqx.Syn, n *Node) string {
	if n == nil {
		return y.None()
	}
	return y.Some(n.print(y))
}

func (n *Node) print(y coqx.Syn) string {
	switch n.Kind {
	case "raw":
		return y.Ctor("Raw", y.Str(n.S))
	case "id":
		return y.Ctor("Id", y.Str(n.S))
	case "str":
		return y.Ctor("StrV", y.Str(n.S))
	case "int":
		return y.Ctor("IntV", y.Z(n.Z))
	case "lop":
		return y.Ctor("LOp", lopCtor(y, n.S), n.list(y, n.Kids))
	case "in":
		return y.Ctor("In", n.L.print(y), n.list(y, n.Kids))
	case "wref":
		return y.Ctor("WRef", y.Str(n.S), "empty_select")
	case "col":
		return y.Ctor("Col", n.Kids[0].print(y), y.Str(n.S))
	case "ord":
		return y.Ctor("Ord", n.Kids[0].print(y), y.Bool(n.B))
	case "fn":
		return y.Ctor("Fn", y.Str(n.S), n.list(y, n.Kids))
	case "sep":
		return y.Ctor("Sep", y.Str(n.S), n.list(y, n.Kids))
	case "subq":
		return y.Ctor("SubQ", n.Sel.print(y))
	case "sel":
		return n.Sel.print(y)
	}
	panic("sqlparse: unknown node kind " + n.Kind)
}

func (s *Select) print(y coqx.Syn) string {
	var n Node
	ws := make([]string, len(s.Withs))
	for i, w := range s.Withs {
		ws[i] = y.Pair(y.Str(w.Alias), w.Q.print(y))
	}
	js := make([]string, len(s.Joins))
	for i, j := range s.Joins {
		js[i] = y.Pair(y.Pair(y.Str(j.Tp), j.Table.print(y)), opt(y, j.On))
	}
	us := make([]string, len(s.Unions))
	for i, u := range s.Unions {
		us[i] = u.print(y)
	}
	return y.Rec(
		"s_distinct", y.Bool(s.Distinct),
		"s_cols", n.list(y, s.Cols),
		"s_from", opt(y, s.From),
		"s_where", opt(y, s.Where),
		"s_prewhere", opt(y, s.Prewhere),
		"s_having", opt(y, s.Having),
		"s_groupby", n.list(y, s.GroupBy),
		"s_orderby", n.list(y, s.OrderBy),
		"s_limit", opt(y, s.Limit),
		"s_offset", opt(y, s.Offset),
		"s_withs", y.List(ws),
		"s_joins", y.List(js),
		"s_settings", y.List(nil),
		"s_unions", y.List(us))
}

// ---------------------------------------------------------------- compact serialisation
// Sexp prints the tree for ocaml/scans_driver.ml (which rebuilds the value of the extracted type and
// hands it to the extracted checker): tokens are ( ) integers and netstrings <len>:<bytes>.
//
//	expr:   (R s) (I s) (S s) (Z n) (L op e*) (N lhs e*) (W alias) (C e alias) (O e 0|1) (F name e*) (P sep e*) (Q select)
//	select: (SEL distinct (cols) from? where? prewhere? having? (groupby) (orderby) limit? offset? ((alias select)*) ((tp table on?)*) (unions))
//	an absent optional object is ()
func (n *Node) Sexp() string {
	var b strings.Builder
	n.sexp(&b)
	return b.String()
}

func ns(b *strings.Builder, s string) {
	b.WriteString(strconv.Itoa(len(s)))
	b.WriteByte(':')
	b.WriteString(s)
}

func (n *Node) sexp(b *strings.Builder) {
	kids := func() {
		for _, k := range n.Kids {
			b.WriteByte(' ')
			k.sexp(b)
		}
	}
	switch n.Kind {
	case "raw":
		b.WriteString("(R ")
		ns(b, n.S)
	case "id":
		b.WriteString("(I ")
		ns(b, n.S)
	case "str":
		b.WriteString("(S ")
		ns(b, n.S)
	case "int":
		b.WriteString("(Z ")
		b.WriteString(strconv.FormatInt(n.Z, 10))
	case "lop":
		b.WriteString("(L ")
		ns(b, n.S)
		kids()
	case "in":
		b.WriteString("(N ")
		n.L.sexp(b)
		kids()
	case "wref":
		b.WriteString("(W ")
		ns(b, n.S)
	case "col":
		b.WriteString("(C ")
		n.Kids[0].sexp(b)
		b.WriteByte(' ')
		ns(b, n.S)
	case "ord":
		b.WriteString("(O ")
		n.Kids[0].sexp(b)
		if n.B {
			b.WriteString(" 1")
		} else {
			b.WriteString(" 0")
		}
	case "fn":
		b.WriteString("(F ")
		ns(b, n.S)
		kids()
	case "sep":
		b.WriteString("(P ")
		ns(b, n.S)
		kids()
	case "subq":
		b.WriteString("(Q ")
		n.Sel.sexp(b)
	case "sel":
		n.Sel.sexp(b)
		return
	default:
		panic("sqlparse: unknown node kind " + n.Kind)
	}
	b.WriteByte(')')
}

func (s *Select) sexp(b *strings.Builder) {
	o := func(n *Node) {
		b.WriteByte(' ')
		if n == nil {
			b.WriteString("()")
		} else {
			n.sexp(b)
		}
	}
	l := func(ns []*Node) {
		b.WriteString(" (")
		for i, k := range ns {
			if i > 0 {
				b.WriteByte(' ')
			}
			k.sexp(b)
		}
		b.WriteByte(')')
	}
	b.WriteString("(SEL ")
	if s.Distinct {
		b.WriteString("1")
	} else {
		b.WriteString("0")
	}
	l(s.Cols)
	o(s.From)
	o(s.Where)
	o(s.Prewhere)
	o(s.Having)
	l(s.GroupBy)
	l(s.OrderBy)
	o(s.Limit)
	o(s.Offset)
	b.WriteString(" (")
	for i, w := range s.Withs {
		if i > 0 {
			b.WriteByte(' ')
		}
		b.WriteByte('(')
		ns(b, w.Alias)
		b.WriteByte(' ')
		w.Q.sexp(b)
		b.WriteByte(')')
	}
	b.WriteString(") (")
	for i, j := range s.Joins {
		if i > 0 {
			b.WriteByte(' ')
		}
		b.WriteByte('(')
		ns(b, j.Tp)
		b.WriteByte(' ')
		j.Table.sexp(b)
		o(j.On)
		b.WriteByte(')')
	}
	b.WriteString(") (")
	for i, u := range s.Unions {
		if i > 0 {
			b.WriteByte(' ')
		}
		u.sexp(b)
	}
	b.WriteString("))")
}
