// Package gluectrl stands in for github.com/metrico/qryn/ctrl in the verbatim copy of func initDB that
// checks/c19.py cuts out of main.go (package main cannot be imported) and compiles into the rotate harness
// (go build -overlay). The harness points RotateHook at the REAL ctrl.Rotate (which then runs InitDB, RotateAll,
// rotateDB, ConnectV2 and Rotate through the real clickhouse-go client against the fake server); InitHook records
// the call (schema creation and migrations are property C18's) and can be told to fail.
package gluectrl

import (
	clconfig "github.com/metrico/cloki-config"
)

var InitHook func(cfg *clconfig.ClokiConfig, project string) error
var RotateHook func(cfg *clconfig.ClokiConfig, project string) error

func Init(cfg *clconfig.ClokiConfig, project string) error   { return InitHook(cfg, project) }
func Rotate(cfg *clconfig.ClokiConfig, project string) error { return RotateHook(cfg, project) }
